//! C36 — each received notification is acknowledged exactly once.
//!
//! The REAL `Session::publish()` futures run on a single-threaded tokio runtime; the transport is
//! replaced by the receiving end of the request channel (hook), so the harness sees every outgoing
//! `PublishRequest` and answers it through the request's own oneshot callback.
use crate::common::*;
use crate::fixtures;
use opcua::client::{Client, ClientBuilder, DataChangeCallback, Session, Subscription};
use opcua::core::supported_message::SupportedMessage;
use opcua::types::*;
use opcua::verif_hooks::client as hk;
use std::collections::BTreeMap;
use std::sync::Arc;
use std::time::Duration;

pub struct C36;
pub static P: C36 = C36;

impl Prop for C36 {
    fn id(&self) -> &'static str {
        "C36"
    }

    fn gen(&self, rng: &mut Rng, n: usize, tier: Tier, out: &mut Vec<String>) {
        for _ in 0..n {
            if rng.chance(1, 3) {
                gen_loop_case(rng, tier, out);
                continue;
            }
            out.push("reset".to_string());
            let len = if tier == Tier::Thorough { rng.range(1, 120) } else { rng.range(1, 40) };
            // generator-side bookkeeping only to produce mostly-valid ops
            let mut inflight: Vec<u64> = Vec::new();
            let mut next_id = 0u64;
            let mut connected = true;
            let mut seq: BTreeMap<u64, u64> = BTreeMap::new();
            let max_inflight = *rng.pick(&[1usize, 2, 3, 6]);
            for _ in 0..len {
                let w_start = if inflight.len() < max_inflight { 10 } else { 1 };
                let w_done = if inflight.is_empty() { 0 } else { 12 };
                match rng.weighted(&[w_start, w_done, w_done / 3, 1, 5, 1]) {
                    0 => {
                        out.push("start".to_string());
                        if connected {
                            inflight.push(next_id);
                            next_id += 1;
                        }
                    }
                    1 => {
                        // a PublishResponse for one of the requests in flight (any order)
                        let k = rng.below(inflight.len() as u64) as usize;
                        let id = inflight.remove(k);
                        let sub = rng.range(1, 3) as u64;
                        let e = seq.entry(sub).or_insert(0);
                        // a keep-alive announces the number of the next notification message
                        let kind = *rng.pick(&["data", "data", "data", "data", "kanone", "kaempty"]);
                        let s = match rng.weighted(&[12, 1, 1, 1]) {
                            0 => {
                                if kind == "data" {
                                    *e += 1;
                                    *e
                                } else {
                                    *e + 1
                                }
                            }
                            1 => *e,                    // repeated number
                            2 => u32::MAX as u64,       // boundary
                            _ => 0,
                        };
                        out.push(format!("complete {} {} {} {} {}", id, sub, s, b(rng.chance(1, 4)), kind));
                    }
                    2 => {
                        let k = rng.below(inflight.len() as u64) as usize;
                        let id = inflight.remove(k);
                        match rng.weighted(&[4, 2, 3, 1]) {
                            0 => out.push(format!("fail {} timeout", id)),
                            1 => out.push(format!("fail {} closed", id)),
                            2 => {
                                let st = *rng.pick(&[0x8078_0000u32, 0x8079_0000, 0x8025_0000, 0x8028_0000, 0]);
                                out.push(format!("fail {} fault {}", id, st))
                            }
                            _ => out.push(format!("fail {} wrongtype", id)),
                        }
                    }
                    3 => {
                        connected = !connected || rng.chance(1, 3);
                        out.push(format!("connected {}", b(connected)));
                    }
                    // client-side subscription state: created enabled or disabled, publishing switched, the item
                    // the notifications refer to added / removed, subscription deleted — responses for subscription
                    // ids 1..3 then meet every combination (and id 4.. never exists)
                    4 => out.push(sub_state_op(rng, 3)),
                    _ => {
                        // malformed / stale: completion for a request that is not in flight
                        match rng.below(3) {
                            0 => out.push(format!("delsub {}", rng.range(1, 4))),
                            1 => out.push(format!("complete {} 1 1 0 data", next_id + rng.below(3))),
                            _ => out.push(format!("fail {} timeout", next_id + rng.below(3))),
                        }
                    }
                }
            }
        }
    }

    fn runner(&self) -> Box<dyn Runner> {
        Box::new(R::new())
    }
}

/// a case driven through the real `SubscriptionEventLoop`: external triggers, responses (with and
/// without `more_notifications`), failures of every kind, disconnects
/// one change of the client-side state of a subscription with an id in 1..=max_id
fn sub_state_op(rng: &mut Rng, max_id: i64) -> String {
    let id = rng.range(1, max_id);
    match rng.weighted(&[4, 2, 4, 3, 1, 2]) {
        0 => format!("addsub {} 1", id),
        1 => format!("addsub {} 0", id),
        2 => format!("setpub {} {}", id, b(rng.chance(1, 2))),
        3 => format!("additem {}", id),
        4 => format!("delitem {}", id),
        _ => format!("delsub {}", id),
    }
}

fn gen_loop_case(rng: &mut Rng, tier: Tier, out: &mut Vec<String>) {
    let max_publish = *rng.pick(&[1u64, 2, 3]);
    out.push(format!("reset {}", max_publish));
    // cases that let time pass never disconnect (a publish that fails at once and a due tick in the same
    // poll may be handled in either order by `select!`)
    let with_time = rng.chance(1, 2);
    if with_time || rng.chance(1, 2) {
        out.push(format!("addsub {}", rng.range(1, 3)));
    }
    let len = if tier == Tier::Thorough { rng.range(1, 80) } else { rng.range(1, 30) };
    let mut inflight: Vec<u64> = Vec::new();
    let mut next_id = 0u64;
    let mut connected = true;
    let mut seq = 0u64;
    for _ in 0..len {
        let w_done = if inflight.is_empty() { 0 } else { 10 };
        match rng.weighted(&[6, w_done, w_done / 2, if with_time { 0 } else { 1 }, 3, if with_time { 4 } else { 0 }]) {
            0 => {
                out.push("trigger".to_string());
                if connected {
                    inflight.push(next_id);
                    next_id += 1;
                }
            }
            1 => {
                let k = rng.below(inflight.len() as u64) as usize;
                let id = inflight.remove(k);
                let more = rng.chance(1, 3);
                let kind = *rng.pick(&["data", "data", "data", "kanone", "kaempty"]);
                if kind == "data" {
                    seq += 1;
                }
                out.push(format!("lcomplete {} {} {} {} {}", id, rng.range(1, 2), seq + (kind != "data") as u64, b(more), kind));
                // follow-up publishes (more_notifications, a due tick) are not tracked exactly here: ids are
                // probed below
                if more && connected {
                    inflight.push(next_id);
                    next_id += 1;
                }
            }
            2 => {
                let k = rng.below(inflight.len() as u64) as usize;
                let id = inflight.remove(k);
                match rng.weighted(&[5, 1, 4, 1]) {
                    0 => {
                        out.push(format!("lfail {} timeout", id));
                        if connected && (inflight.len() as u64) < max_publish {
                            inflight.push(next_id);
                            next_id += 1;
                        }
                    }
                    1 => out.push(format!("lfail {} closed", id)),
                    2 => {
                        let st = *rng.pick(&[0x8078_0000u32, 0x8078_0000, 0x8079_0000, 0x8025_0000, 0x800A_0000, 0]);
                        out.push(format!("lfail {} fault {}", id, st));
                        if st == 0x800A_0000 && connected && (inflight.len() as u64) < max_publish {
                            inflight.push(next_id);
                            next_id += 1;
                        }
                    }
                    _ => out.push(format!("lfail {} wrongtype", id)),
                }
            }
            3 => {
                connected = !connected || rng.chance(1, 3);
                out.push(format!("connected {}", b(connected)));
            }
            4 => match rng.below(3) {
                0 => out.push(format!("lcomplete {} 1 1 0 data", next_id + rng.below(3))),
                1 => out.push(format!("lfail {} timeout", next_id + rng.below(3))),
                _ => out.push(sub_state_op(rng, 2)),
            },
            _ => {
                out.push("age".to_string());
                // the time is reset by the next trigger / follow-up publish: then no tick may follow
                if connected && rng.chance(1, 3) {
                    out.push("trigger".to_string());
                    inflight.push(next_id);
                    next_id += 1;
                }
                // a tick may publish after the next item of the stream: one more id may be in flight
                if (inflight.len() as u64) < max_publish + 1 {
                    // not known for sure; the next ops probe next_id as well as the known ones
                }
            }
        }
        // a tick may have published without the generator knowing: sometimes answer the newest possible id
        if with_time && rng.chance(1, 4) {
            let id = next_id;
            match rng.below(3) {
                0 => out.push(format!("lcomplete {} 1 {} 0 data", id, { seq += 1; seq })),
                1 => out.push(format!("lfail {} fault {}", id, 0x8078_0000u32)),
                _ => out.push(format!("lfail {} timeout", id)),
            }
            // if it existed it is gone now and maybe replaced; resynchronise loosely
            if rng.chance(1, 2) {
                next_id += 1;
            }
        }
    }
}

struct Flight {
    callback: tokio::sync::oneshot::Sender<Result<SupportedMessage, StatusCode>>,
    /// `None`: the future belongs to the subscription event loop
    handle: Option<tokio::task::JoinHandle<Result<bool, StatusCode>>>,
    request_handle: u32,
}

type Ack = (u32, u32);

struct R {
    rt: tokio::runtime::Runtime,
    _client: Client,
    session: Arc<Session>,
    recv: Option<hk::VRequestRecv>,
    flights: BTreeMap<u64, Flight>,
    next_id: u64,
    // ---- reference bookkeeping written from the property text (multisets as count maps) ----
    /// acknowledgements owed: one per notification message received in a PublishResponse
    received: BTreeMap<Ack, i64>,
    /// acknowledgements carried by requests that were answered with a PublishResponse
    sent_ok: BTreeMap<Ack, i64>,
    /// acknowledgements carried by requests still waiting for their response
    sent_inflight: BTreeMap<u64, Vec<Ack>>,
    any_failed: bool,
    any_keepalive: bool,
    /// how often a subscription callback was handed a data value
    callbacks: Arc<std::sync::atomic::AtomicUsize>,
    /// the REAL `SubscriptionEventLoop::run()` stream (created at the first loop op)
    sub_loop: Option<hk::VSubLoop>,
}

fn bump(m: &mut BTreeMap<Ack, i64>, a: Ack, d: i64) {
    let e = m.entry(a).or_insert(0);
    *e += d;
    if *e == 0 {
        m.remove(&a);
    }
}

impl R {
    fn new() -> R {
        R::with_max_publish(2)
    }

    fn with_max_publish(max_publish: usize) -> R {
        let rt = tokio::runtime::Builder::new_current_thread().enable_all().build().unwrap();
        let pki = fixtures::scratch_dir().join("c36-pki");
        let mut client = ClientBuilder::new()
            .application_name("verif")
            .application_uri("urn:verif")
            .pki_dir(pki)
            .create_sample_keypair(false)
            .trust_server_certs(true)
            .session_retry_limit(0)
            .max_inflight_publish(max_publish)
            .client()
            .expect("client");
        let endpoint: EndpointDescription = ("opc.tcp://127.0.0.1:4855/", "None", MessageSecurityMode::None).into();
        let (session, _event_loop) = {
            let _g = rt.enter();
            client
                .new_session_from_info((endpoint, opcua::client::IdentityToken::Anonymous))
                .expect("session")
        };
        let recv = Some(hk::session_attach_channel(&session, 64));
        // the subscription event loop exists from the start (SessionEventLoop creates it on connect), so
        // that it has seen the trigger channel's initial value before any trigger is sent
        let sub_loop = Some(hk::session_subscription_loop(&session));
        let mut r = R {
            rt,
            _client: client,
            session,
            recv,
            flights: BTreeMap::new(),
            next_id: 0,
            received: BTreeMap::new(),
            sent_ok: BTreeMap::new(),
            sent_inflight: BTreeMap::new(),
            any_failed: false,
            any_keepalive: false,
            callbacks: Arc::new(std::sync::atomic::AtomicUsize::new(0)),
            sub_loop,
        };
        // the real client polls the loop all the time: its first turn starts now (and computes its
        // wake-up time from the state as it is now)
        let _ = r.pump_loop();
        r
    }

    /// input class of the history so far
    fn class(&self) -> &'static str {
        match (self.any_keepalive, self.any_failed) {
            (true, true) => "after-keepalive-and-failure",
            (true, false) => "after-keepalive",
            (false, true) => "after-failure",
            (false, false) => "plain",
        }
    }

    /// lets the spawned publish futures run until they all wait for something external
    fn settle(&self) {
        self.rt.block_on(async {
            for _ in 0..8 {
                tokio::task::yield_now().await;
            }
        });
    }

    fn state(&self) -> String {
        let pending: Vec<String> = hk::session_pending_acks(&self.session)
            .iter()
            .map(|(a, b)| format!("{}:{}", a, b))
            .collect();
        let ids: Vec<String> = self.flights.keys().map(|k| k.to_string()).collect();
        // id : publishing_enabled : the item the data notifications refer to is present
        let subs: Vec<String> = hk::session_subscription_flags(&self.session)
            .iter()
            .map(|(id, e, n)| format!("{}:{}:{}", id, b(*e), b(*n > 0)))
            .collect();
        format!(
            "pending=[{}] inflight=[{}] subs=[{}] cb={}",
            pending.join(","),
            ids.join(","),
            subs.join(","),
            self.callbacks.load(std::sync::atomic::Ordering::SeqCst)
        )
    }

    /// The property on one outgoing request: as a multiset, its acknowledgements must be exactly
    /// what is owed (received) and neither already delivered with an answered request nor carried by
    /// a request still in flight.
    fn check_request(&self, acks: &[Ack]) -> Verdict {
        let class = self.class();
        let mut owed = self.received.clone();
        for (a, n) in &self.sent_ok {
            bump(&mut owed, *a, -*n);
        }
        for v in self.sent_inflight.values() {
            for a in v {
                bump(&mut owed, *a, -1);
            }
        }
        let mut req: BTreeMap<Ack, i64> = BTreeMap::new();
        for a in acks {
            bump(&mut req, *a, 1);
        }
        for (a, n) in &req {
            let o = owed.get(a).copied().unwrap_or(0);
            if *n > o {
                return Verdict::fail(
                    "no_double_send",
                    class,
                    format!("{}:{} sent {}x but only {}x owed and not already sent", a.0, a.1, n, o),
                );
            }
        }
        for (a, o) in &owed {
            if *o > req.get(a).copied().unwrap_or(0) {
                return Verdict::fail("all_owed_sent", class, format!("{}:{} is owed but missing from the request", a.0, a.1));
            }
        }
        Verdict::Ok
    }

    /// nothing owed may ever be lost: owed = answered ⊎ in flight ⊎ pending in the client
    fn check_conservation(&self) -> Verdict {
        let class = self.class();
        let mut owed = self.received.clone();
        for (a, n) in &self.sent_ok {
            bump(&mut owed, *a, -*n);
        }
        for v in self.sent_inflight.values() {
            for a in v {
                bump(&mut owed, *a, -1);
            }
        }
        for a in hk::session_pending_acks(&self.session) {
            bump(&mut owed, a, -1);
        }
        if owed.is_empty() {
            Verdict::Ok
        } else {
            Verdict::fail("conservation", class, format!("imbalance {:?}", owed))
        }
    }

    /// Polls the real event-loop stream until it is pending; returns what became visible, in order:
    /// `S<id>:<acks>` a publish request reached the transport, `P` / `F<status>` the stream's items.
    fn pump_loop(&mut self) -> (Vec<String>, Verdict) {
        use std::future::Future;
        use std::task::{Context, Poll};
        if self.sub_loop.is_none() {
            self.sub_loop = Some(hk::session_subscription_loop(&self.session));
        }
        let mut evs = Vec::new();
        let mut verdict = Verdict::Ok;
        for _ in 0..64 {
            let polled = {
                let _g = self.rt.enter();
                let l = self.sub_loop.as_mut().unwrap();
                let waker = noop_waker();
                let mut cx = Context::from_waker(&waker);
                let mut fut = Box::pin(l.next());
                fut.as_mut().poll(&mut cx)
            };
            // requests the publish futures handed to the transport during this poll
            while let Some(msg) = self.recv.as_mut().and_then(|r| r.try_recv()) {
                if let SupportedMessage::PublishRequest(r) = &msg.request {
                    let acks: Vec<Ack> = r
                        .subscription_acknowledgements
                        .iter()
                        .flatten()
                        .map(|a| (a.subscription_id, a.sequence_number))
                        .collect();
                    let txt = match &r.subscription_acknowledgements {
                        None => "-".to_string(),
                        Some(v) => format!(
                            "[{}]",
                            v.iter().map(|a| format!("{}:{}", a.subscription_id, a.sequence_number)).collect::<Vec<_>>().join(",")
                        ),
                    };
                    let v = self.check_request(&acks);
                    if matches!(verdict, Verdict::Ok) {
                        verdict = v;
                    }
                    let id = self.next_id;
                    self.next_id += 1;
                    evs.push(format!("S{}:{}", id, txt));
                    self.sent_inflight.insert(id, acks);
                    self.flights.insert(
                        id,
                        Flight {
                            callback: msg.callback.expect("publish expects a response"),
                            handle: None,
                            request_handle: r.request_header.request_handle,
                        },
                    );
                }
            }
            match polled {
                Poll::Ready(Some(Ok(()))) => evs.push("P".to_string()),
                Poll::Ready(Some(Err(e))) => evs.push(format!("F{}", e.bits())),
                Poll::Ready(None) | Poll::Pending => break,
            }
        }
        if matches!(verdict, Verdict::Ok) {
            verdict = self.check_conservation();
        }
        (evs, verdict)
    }

    fn finish(&mut self, id: u64) -> Option<(Flight, Vec<Ack>)> {
        let f = self.flights.remove(&id)?;
        let acks = self.sent_inflight.remove(&id).unwrap_or_default();
        Some((f, acks))
    }
}

/// a data change notification with one value for client handle 1
fn data_change(seq: u32) -> ExtensionObject {
    let dcn = DataChangeNotification {
        monitored_items: Some(vec![MonitoredItemNotification {
            client_handle: 1,
            value: DataValue::value_only(Variant::UInt32(seq)),
        }]),
        diagnostic_infos: None,
    };
    ExtensionObject::from_encodable(ObjectId::DataChangeNotification_Encoding_DefaultBinary, &dcn)
}

fn publish_response(request_handle: u32, sub: u32, seq: u32, more: bool, kind: &str) -> PublishResponse {
    PublishResponse {
        response_header: response_header(request_handle, StatusCode::Good),
        subscription_id: sub,
        available_sequence_numbers: None,
        more_notifications: more,
        notification_message: NotificationMessage {
            sequence_number: seq,
            publish_time: DateTime::now(),
            notification_data: match kind {
                "kanone" => None,
                "kaempty" => Some(vec![]),
                _ => Some(vec![data_change(seq)]),
            },
        },
        results: None,
        diagnostic_infos: None,
    }
}

/// makes the request fail the way the op says
fn fail_flight(callback: tokio::sync::oneshot::Sender<Result<SupportedMessage, StatusCode>>, request_handle: u32, how: &[&str]) {
    match how {
        ["timeout"] => {
            let _ = callback.send(Err(StatusCode::BadTimeout));
        }
        ["closed"] => drop(callback),
        ["fault", st] => {
            let st: u32 = st.parse().unwrap();
            let fault = ServiceFault {
                response_header: response_header(request_handle, StatusCode::from_bits_truncate(st)),
            };
            let _ = callback.send(Ok(fault.into()));
        }
        _ => {
            let resp = ReadResponse {
                response_header: response_header(request_handle, StatusCode::Good),
                results: None,
                diagnostic_infos: None,
            };
            let _ = callback.send(Ok(resp.into()));
        }
    }
}

fn noop_waker() -> std::task::Waker {
    use std::task::{RawWaker, RawWakerVTable, Waker};
    fn clone(_: *const ()) -> RawWaker {
        RawWaker::new(std::ptr::null(), &VTABLE)
    }
    fn noop(_: *const ()) {}
    static VTABLE: RawWakerVTable = RawWakerVTable::new(clone, noop, noop, noop);
    unsafe { Waker::from_raw(RawWaker::new(std::ptr::null(), &VTABLE)) }
}

fn response_header(request_handle: u32, status: StatusCode) -> ResponseHeader {
    ResponseHeader {
        timestamp: DateTime::now(),
        request_handle,
        service_result: status,
        service_diagnostics: DiagnosticInfo::null(),
        string_table: None,
        additional_header: ExtensionObject::null(),
    }
}

impl Runner for R {
    fn step(&mut self, toks: &[&str]) -> (String, Verdict) {
        match toks {
            ["reset"] => (format!("ok {}", self.state()), Verdict::Ok),
            ["reset", n] => {
                // a fresh session whose event loop allows `n` publish requests in flight
                *self = R::with_max_publish(n.parse().unwrap());
                (format!("ok {}", self.state()), Verdict::Ok)
            }
            ["start"] => {
                let fut = hk::session_publish(self.session.clone());
                let handle = self.rt.spawn(fut);
                self.settle();
                if handle.is_finished() {
                    // could not be handed to the transport
                    let r = self.rt.block_on(handle).expect("join");
                    let v = self.check_conservation();
                    return match r {
                        Err(e) => (format!("ok err={} {}", e.bits(), self.state()), v),
                        Ok(m) => (
                            format!("ok ret={} {}", b(m), self.state()),
                            Verdict::fail("start_without_response", "-", "publish returned Ok without a response"),
                        ),
                    };
                }
                let msg = self.recv.as_mut().and_then(|r| r.try_recv());
                let Some(msg) = msg else {
                    return ("ok nothing-sent".to_string(), Verdict::fail("request_sent", "-", "publish neither returned nor sent a request"));
                };
                let (acks_txt, acks, request_handle) = match &msg.request {
                    SupportedMessage::PublishRequest(r) => {
                        let acks: Vec<Ack> = r
                            .subscription_acknowledgements
                            .iter()
                            .flatten()
                            .map(|a| (a.subscription_id, a.sequence_number))
                            .collect();
                        let txt = match &r.subscription_acknowledgements {
                            None => "-".to_string(),
                            Some(v) => format!(
                                "[{}]",
                                v.iter().map(|a| format!("{}:{}", a.subscription_id, a.sequence_number)).collect::<Vec<_>>().join(",")
                            ),
                        };
                        (txt, acks, r.request_header.request_handle)
                    }
                    _ => ("?".to_string(), vec![], 0),
                };
                let v = self.check_request(&acks);
                let id = self.next_id;
                self.next_id += 1;
                self.sent_inflight.insert(id, acks);
                self.flights.insert(
                    id,
                    Flight {
                        callback: msg.callback.expect("publish expects a response"),
                        handle: Some(handle),
                        request_handle,
                    },
                );
                let v = match v {
                    Verdict::Ok => self.check_conservation(),
                    f => f,
                };
                (format!("ok sent id={} acks={} {}", id, acks_txt, self.state()), v)
            }
            ["complete", id, sub, seq, more, kind] => {
                let id: u64 = id.parse().unwrap();
                let sub: u32 = sub.parse().unwrap();
                let seq: u32 = seq.parse().unwrap();
                let more = *more == "1";
                if !["data", "kanone", "kaempty"].contains(kind) {
                    return ("bad-op".to_string(), Verdict::Ok);
                }
                if self.flights.get(&id).map(|f| f.handle.is_none()).unwrap_or(true) {
                    return ("bad-op".to_string(), Verdict::Ok);
                }
                let Some((f, acks)) = self.finish(id) else {
                    return ("bad-op".to_string(), Verdict::Ok);
                };
                let resp = PublishResponse {
                    response_header: response_header(f.request_handle, StatusCode::Good),
                    subscription_id: sub,
                    available_sequence_numbers: None,
                    more_notifications: more,
                    notification_message: NotificationMessage {
                        sequence_number: seq,
                        publish_time: DateTime::now(),
                        notification_data: match *kind {
                            "kanone" => None,
                            "kaempty" => Some(vec![]),
                            _ => Some(vec![data_change(seq)]),
                        },
                    },
                    results: None,
                    diagnostic_infos: None,
                };
                let _ = f.callback.send(Ok(resp.into()));
                let r = self.rt.block_on(f.handle.unwrap()).expect("join");
                // the request was answered: what it carried has been delivered; one more is owed
                for a in acks {
                    bump(&mut self.sent_ok, a, 1);
                }
                // ... unless the message is a keep-alive (no notification data): it only announces the
                // sequence number that the next notification message will carry
                if *kind == "data" {
                    bump(&mut self.received, (sub, seq), 1);
                } else {
                    self.any_keepalive = true;
                }
                let v = self.check_conservation();
                match r {
                    Ok(m) => (format!("ok ret={} {}", b(m), self.state()), v),
                    Err(e) => (
                        format!("ok err={} {}", e.bits(), self.state()),
                        Verdict::fail("response_accepted", "-", format!("publish failed on a PublishResponse: {}", e)),
                    ),
                }
            }
            ["fail", id, rest @ ..] => {
                let id: u64 = id.parse().unwrap();
                if self.flights.get(&id).map(|f| f.handle.is_none()).unwrap_or(true) {
                    return ("bad-op".to_string(), Verdict::Ok);
                }
                let Some((f, _acks)) = self.finish(id) else {
                    return ("bad-op".to_string(), Verdict::Ok);
                };
                self.any_failed = true;
                let handle = f.handle.unwrap();
                fail_flight(f.callback, f.request_handle, rest);
                let r = self.rt.block_on(handle).expect("join");
                // the request failed: what it carried is owed again (dropped from sent_inflight above)
                let v = self.check_conservation();
                match r {
                    Err(e) => (format!("ok err={} {}", e.bits(), self.state()), v),
                    Ok(m) => (
                        format!("ok ret={} {}", b(m), self.state()),
                        Verdict::fail("failure_reported", "-", "publish returned Ok for a failed request"),
                    ),
                }
            }
            ["age"] => {
                // time passes: the last publish request is now more than a publishing interval (600 s) ago
                hk::session_age_last_publish(&self.session, 1300);
                ("ok".to_string(), Verdict::Ok)
            }
            ["trigger"] => {
                hk::session_trigger_publish(&self.session);
                let (evs, v) = self.pump_loop();
                (format!("ok ev=[{}] {}", evs.join(","), self.state()), v)
            }
            ["lcomplete", id, sub, seq, more, kind] => {
                let id: u64 = id.parse().unwrap();
                let sub: u32 = sub.parse().unwrap();
                let seq: u32 = seq.parse().unwrap();
                let more = *more == "1";
                if !["data", "kanone", "kaempty"].contains(kind) {
                    return ("bad-op".to_string(), Verdict::Ok);
                }
                if self.flights.get(&id).map(|f| f.handle.is_some()).unwrap_or(true) {
                    return ("bad-op".to_string(), Verdict::Ok);
                }
                let (f, acks) = self.finish(id).unwrap();
                let resp = publish_response(f.request_handle, sub, seq, more, kind);
                let _ = f.callback.send(Ok(resp.into()));
                for a in acks {
                    bump(&mut self.sent_ok, a, 1);
                }
                if *kind == "data" {
                    bump(&mut self.received, (sub, seq), 1);
                } else {
                    self.any_keepalive = true;
                }
                let (evs, v) = self.pump_loop();
                // a response must be reported as a publish
                let v = match v {
                    Verdict::Ok if evs.first().map(|e| e.as_str()) != Some("P") => {
                        Verdict::fail("response_accepted", "-", format!("the loop reported {:?} for a PublishResponse", evs))
                    }
                    v => v,
                };
                (format!("ok ev=[{}] {}", evs.join(","), self.state()), v)
            }
            ["lfail", id, rest @ ..] => {
                let id: u64 = id.parse().unwrap();
                if self.flights.get(&id).map(|f| f.handle.is_some()).unwrap_or(true) {
                    return ("bad-op".to_string(), Verdict::Ok);
                }
                let (f, _acks) = self.finish(id).unwrap();
                self.any_failed = true;
                fail_flight(f.callback, f.request_handle, rest);
                let (evs, v) = self.pump_loop();
                (format!("ok ev=[{}] {}", evs.join(","), self.state()), v)
            }
            ["connected", c] => {
                if *c == "1" {
                    if self.recv.is_none() {
                        self.recv = Some(hk::session_attach_channel(&self.session, 64));
                    }
                } else {
                    hk::session_detach_channel(&self.session);
                    self.recv = None;
                }
                (format!("ok {}", self.state()), self.check_conservation())
            }
            ["addsub", id, rest @ ..] => {
                let id: u32 = id.parse().unwrap();
                let enabled = match rest {
                    [] | ["1"] => true,
                    ["0"] => false,
                    _ => return ("bad-op".to_string(), Verdict::Ok),
                };
                let counter = self.callbacks.clone();
                let sub = Subscription::new(
                    id,
                    Duration::from_secs(600),
                    10,
                    3,
                    0,
                    0,
                    enabled,
                    Box::new(DataChangeCallback::new(move |_, _| {
                        counter.fetch_add(1, std::sync::atomic::Ordering::SeqCst);
                    })),
                );
                hk::session_add_subscription(&self.session, sub);
                (format!("ok {}", self.state()), self.check_conservation())
            }
            ["setpub", id, e] => {
                let id: u32 = id.parse().unwrap();
                hk::session_set_publishing_mode(&self.session, &[id], *e == "1");
                (format!("ok {}", self.state()), self.check_conservation())
            }
            ["additem", id] => {
                let id: u32 = id.parse().unwrap();
                // item id 1, client handle 1: the handle the data notifications of this harness carry
                hk::session_insert_monitored_item(&self.session, id, 1, 1);
                (format!("ok {}", self.state()), self.check_conservation())
            }
            ["delitem", id] => {
                let id: u32 = id.parse().unwrap();
                hk::session_delete_monitored_items(&self.session, id, &[1]);
                (format!("ok {}", self.state()), self.check_conservation())
            }
            ["delsub", id] => {
                let id: u32 = id.parse().unwrap();
                hk::session_delete_subscription(&self.session, id);
                (format!("ok {}", self.state()), self.check_conservation())
            }
            _ => ("bad-op".to_string(), Verdict::Ok),
        }
    }
}

impl Drop for R {
    fn drop(&mut self) {
        // abort publish futures still waiting for a response
        for (_, f) in std::mem::take(&mut self.flights) {
            if let Some(h) = f.handle {
                h.abort();
            }
        }
    }
}
