//! C32 — attribute reads and writes obey access rights and never crash.
use crate::common::*;
use crate::fixtures;
use opcua::server::address_space::types::*;
use opcua::server::address_space::{AccessLevel, AddressSpace, UserAccessLevel};
use opcua::server::prelude::*;
use opcua::server::session::Session;
use opcua::sync::RwLock;
use opcua::verif_hooks::view::VAttributeService;
use std::collections::HashMap;
use std::sync::Arc;

pub struct C32;
pub static P: C32 = C32;

/// HasSubtype edges (parent, child) of the DataType tree used; same table as `parentDT` in the model
const DT_EDGES: [(u32, u32); 26] = [
    (24, 13),
    (24, 14),
    (24, 16),
    (24, 18),
    (24, 19),
    (24, 23),
    (24, 25),
    (24, 17),
    (24, 20),
    (24, 21),
    (24, 1),
    (24, 12),
    (24, 15),
    (24, 26),
    (26, 27),
    (26, 28),
    (26, 10),
    (26, 11),
    (27, 2),
    (27, 4),
    (27, 6),
    (27, 8),
    (28, 3),
    (28, 5),
    (28, 7),
    (28, 9),
];
const DTS: [u32; 28] = [1, 2, 3, 4, 5, 6, 7, 8, 9, 10, 11, 12, 13, 14, 15, 16, 17, 18, 19, 20, 21, 22, 23, 24, 25, 26, 27, 28];

/// reference representation of values (mirrors the token syntax, not the model)
#[derive(Clone, Debug, PartialEq)]
enum E {
    Num(u32, i128),
    Str(Option<Vec<u8>>),
    BStr(Option<Vec<u8>>),
    NodeId(u32),
    QName,
    LText,
    /// every other scalar kind (builtin type id, payload tag)
    Opaque(u32, u32),
}
#[derive(Clone, Debug, PartialEq)]
enum V {
    Empty,
    One(E),
    Arr(u32, Vec<E>),
}

fn e_ty(e: &E) -> u32 {
    match e {
        E::Num(t, _) => *t,
        E::Str(_) => 12,
        E::BStr(_) => 15,
        E::NodeId(_) => 17,
        E::QName => 20,
        E::LText => 21,
        E::Opaque(t, _) => *t,
    }
}

fn parse_bytes(s: &str) -> Option<Option<Vec<u8>>> {
    if s == "n" {
        Some(None)
    } else {
        unhex(s).map(Some)
    }
}

fn parse_e(s: &str) -> Option<E> {
    if let Some(r) = s.strip_prefix('i') {
        let (t, x) = r.split_once(':')?;
        let t: u32 = t.parse().ok()?;
        if !(1..=11).contains(&t) || x.starts_with('+') {
            return None;
        }
        Some(E::Num(t, x.parse().ok()?))
    } else if let Some(r) = s.strip_prefix('s') {
        parse_bytes(r).map(E::Str)
    } else if let Some(r) = s.strip_prefix('x') {
        parse_bytes(r).map(E::BStr)
    } else if let Some(r) = s.strip_prefix('N') {
        if r.starts_with('+') {
            return None;
        }
        r.parse::<u32>().ok().map(E::NodeId)
    } else if let Some(r) = s.strip_prefix('o') {
        let (t, x) = r.split_once(':')?;
        if t.starts_with('+') || x.starts_with('+') {
            return None;
        }
        let (t, x): (u32, u32) = (t.parse().ok()?, x.parse().ok()?);
        if ![13, 14, 16, 18, 19, 22, 23, 24, 25].contains(&t) || x >= 1000 {
            return None;
        }
        Some(E::Opaque(t, x))
    } else if s == "Q" {
        Some(E::QName)
    } else if s == "L" {
        Some(E::LText)
    } else {
        None
    }
}

fn parse_v(s: &str) -> Option<V> {
    if s == "n" {
        return Some(V::Empty);
    }
    if let Some(r) = s.strip_prefix('a') {
        let (t, body) = r.split_once(":[")?;
        let inner = body.strip_suffix(']')?;
        let t: u32 = t.parse().ok()?;
        if inner.is_empty() {
            return Some(V::Arr(t, vec![]));
        }
        let es: Option<Vec<E>> = inner.split(',').map(parse_e).collect();
        return es.map(|es| V::Arr(t, es));
    }
    parse_e(s).map(V::One)
}

fn show_bytes(b: &Option<Vec<u8>>) -> String {
    match b {
        None => "n".to_string(),
        Some(b) => hex(b),
    }
}

fn show_e(e: &E) -> String {
    match e {
        E::Num(t, x) => format!("i{}:{}", t, x),
        E::Str(b) => format!("s{}", show_bytes(b)),
        E::BStr(b) => format!("x{}", show_bytes(b)),
        E::NodeId(n) => format!("N{}", n),
        E::QName => "Q".to_string(),
        E::LText => "L".to_string(),
        E::Opaque(t, x) => format!("o{}:{}", t, x),
    }
}

fn show_v(v: &V) -> String {
    match v {
        V::Empty => "n".to_string(),
        V::One(e) => show_e(e),
        V::Arr(t, es) => format!("a{}:[{}]", t, es.iter().map(show_e).collect::<Vec<_>>().join(",")),
    }
}

fn to_scalar(e: &E) -> Option<Variant> {
    Some(match e {
        E::Num(1, x) => Variant::Boolean(*x != 0),
        E::Num(2, x) => Variant::SByte(i8::try_from(*x).ok()?),
        E::Num(3, x) => Variant::Byte(u8::try_from(*x).ok()?),
        E::Num(4, x) => Variant::Int16(i16::try_from(*x).ok()?),
        E::Num(5, x) => Variant::UInt16(u16::try_from(*x).ok()?),
        E::Num(6, x) => Variant::Int32(i32::try_from(*x).ok()?),
        E::Num(7, x) => Variant::UInt32(u32::try_from(*x).ok()?),
        E::Num(8, x) => Variant::Int64(i64::try_from(*x).ok()?),
        E::Num(9, x) => Variant::UInt64(u64::try_from(*x).ok()?),
        E::Num(10, x) => Variant::Float(f32::from_bits(u32::try_from(*x).ok()?)),
        E::Num(11, x) => Variant::Double(f64::from_bits(u64::try_from(*x).ok()?)),
        E::Num(_, _) => return None,
        E::Str(None) => Variant::String(UAString::null()),
        E::Str(Some(b)) => Variant::String(UAString::from(String::from_utf8(b.clone()).ok()?)),
        E::BStr(None) => Variant::ByteString(ByteString::null()),
        E::BStr(Some(b)) => Variant::ByteString(ByteString::from(b.clone())),
        E::NodeId(n) => Variant::NodeId(Box::new(NodeId::new(0, *n))),
        E::QName => Variant::QualifiedName(Box::new(QualifiedName::new(0, "q"))),
        E::LText => Variant::LocalizedText(Box::new(LocalizedText::new("", "l"))),
        E::Opaque(13, x) => Variant::DateTime(Box::new(DateTime::from(*x as i64 * 10_000_000 + 131_000_000_000_000_000))),
        E::Opaque(14, x) => {
            let mut bytes = [7u8; 16];
            bytes[0] = *x as u8;
            bytes[1] = (*x >> 8) as u8;
            Variant::Guid(Box::new(Guid::from_bytes(bytes)))
        }
        E::Opaque(16, x) => Variant::XmlElement(XmlElement::from(format!("<x>{}</x>", x))),
        E::Opaque(18, x) => Variant::ExpandedNodeId(Box::new(ExpandedNodeId::new(NodeId::new(0, *x)))),
        E::Opaque(19, x) => Variant::StatusCode(StatusCode::from_bits_truncate(if *x == 0 { 0 } else { 0x8000_0000 | (*x << 16) })),
        E::Opaque(22, x) => Variant::ExtensionObject(Box::new(ExtensionObject { node_id: NodeId::new(0, *x), body: ExtensionObjectEncoding::None })),
        E::Opaque(23, x) => Variant::DataValue(Box::new(DataValue::value_only(Variant::UInt32(*x)))),
        E::Opaque(24, x) => Variant::Variant(Box::new(Variant::UInt32(*x))),
        E::Opaque(25, x) => Variant::DiagnosticInfo(Box::new(DiagnosticInfo { symbolic_id: Some(*x as i32), ..Default::default() })),
        E::Opaque(_, _) => return None,
    })
}

fn vtype(t: u32) -> Option<VariantTypeId> {
    Some(match t {
        1 => VariantTypeId::Boolean,
        2 => VariantTypeId::SByte,
        3 => VariantTypeId::Byte,
        4 => VariantTypeId::Int16,
        5 => VariantTypeId::UInt16,
        6 => VariantTypeId::Int32,
        7 => VariantTypeId::UInt32,
        8 => VariantTypeId::Int64,
        9 => VariantTypeId::UInt64,
        10 => VariantTypeId::Float,
        11 => VariantTypeId::Double,
        12 => VariantTypeId::String,
        15 => VariantTypeId::ByteString,
        17 => VariantTypeId::NodeId,
        20 => VariantTypeId::QualifiedName,
        21 => VariantTypeId::LocalizedText,
        13 => VariantTypeId::DateTime,
        14 => VariantTypeId::Guid,
        16 => VariantTypeId::XmlElement,
        18 => VariantTypeId::ExpandedNodeId,
        19 => VariantTypeId::StatusCode,
        22 => VariantTypeId::ExtensionObject,
        23 => VariantTypeId::DataValue,
        24 => VariantTypeId::Variant,
        25 => VariantTypeId::DiagnosticInfo,
        _ => return None,
    })
}

/// token → real Variant; None when the token does not denote a well-formed Variant (array whose
/// elements are not all of the declared type, payload out of the type's range, invalid UTF-8)
fn to_variant(v: &V) -> Option<Variant> {
    match v {
        V::Empty => Some(Variant::Empty),
        V::One(e) => to_scalar(e),
        V::Arr(t, es) => {
            if es.iter().any(|e| e_ty(e) != *t) {
                return None;
            }
            let vals: Option<Vec<Variant>> = es.iter().map(to_scalar).collect();
            Array::new(vtype(*t)?, vals?).ok().map(Variant::from)
        }
    }
}

fn from_scalar(v: &Variant) -> Option<E> {
    Some(match v {
        Variant::Boolean(x) => E::Num(1, *x as i128),
        Variant::SByte(x) => E::Num(2, *x as i128),
        Variant::Byte(x) => E::Num(3, *x as i128),
        Variant::Int16(x) => E::Num(4, *x as i128),
        Variant::UInt16(x) => E::Num(5, *x as i128),
        Variant::Int32(x) => E::Num(6, *x as i128),
        Variant::UInt32(x) => E::Num(7, *x as i128),
        Variant::Int64(x) => E::Num(8, *x as i128),
        Variant::UInt64(x) => E::Num(9, *x as i128),
        Variant::Float(x) => E::Num(10, x.to_bits() as i128),
        Variant::Double(x) => E::Num(11, x.to_bits() as i128),
        Variant::String(s) => E::Str(s.value().as_ref().map(|s| s.as_bytes().to_vec())),
        Variant::ByteString(b) => E::BStr(b.value.clone()),
        Variant::NodeId(n) => match n.identifier {
            Identifier::Numeric(x) if n.namespace == 0 => E::NodeId(x),
            _ => return None,
        },
        Variant::QualifiedName(_) => E::QName,
        Variant::LocalizedText(_) => E::LText,
        Variant::DateTime(d) => E::Opaque(13, ((d.ticks() - 131_000_000_000_000_000) / 10_000_000) as u32),
        Variant::Guid(g) => E::Opaque(14, g.as_bytes()[0] as u32 | (g.as_bytes()[1] as u32) << 8),
        Variant::XmlElement(x) => E::Opaque(16, x.as_ref().trim_start_matches("<x>").trim_end_matches("</x>").parse().ok()?),
        Variant::ExpandedNodeId(n) => match n.node_id.identifier {
            Identifier::Numeric(x) => E::Opaque(18, x),
            _ => return None,
        },
        Variant::StatusCode(c) => E::Opaque(19, (c.bits() & 0x7fff_ffff) >> 16),
        Variant::ExtensionObject(o) => match o.node_id.identifier {
            Identifier::Numeric(x) => E::Opaque(22, x),
            _ => return None,
        },
        Variant::DataValue(d) => match d.value {
            Some(Variant::UInt32(x)) => E::Opaque(23, x),
            _ => return None,
        },
        Variant::Variant(v) => match **v {
            Variant::UInt32(x) => E::Opaque(24, x),
            _ => return None,
        },
        Variant::DiagnosticInfo(d) => E::Opaque(25, d.symbolic_id? as u32),
        _ => return None,
    })
}

fn type_num(t: VariantTypeId) -> u32 {
    match t {
        VariantTypeId::Boolean => 1,
        VariantTypeId::SByte => 2,
        VariantTypeId::Byte => 3,
        VariantTypeId::Int16 => 4,
        VariantTypeId::UInt16 => 5,
        VariantTypeId::Int32 => 6,
        VariantTypeId::UInt32 => 7,
        VariantTypeId::Int64 => 8,
        VariantTypeId::UInt64 => 9,
        VariantTypeId::Float => 10,
        VariantTypeId::Double => 11,
        VariantTypeId::String => 12,
        VariantTypeId::ByteString => 15,
        VariantTypeId::NodeId => 17,
        VariantTypeId::QualifiedName => 20,
        VariantTypeId::LocalizedText => 21,
        VariantTypeId::DateTime => 13,
        VariantTypeId::Guid => 14,
        VariantTypeId::XmlElement => 16,
        VariantTypeId::ExpandedNodeId => 18,
        VariantTypeId::StatusCode => 19,
        VariantTypeId::ExtensionObject => 22,
        VariantTypeId::DataValue => 23,
        VariantTypeId::Variant => 24,
        VariantTypeId::DiagnosticInfo => 25,
        _ => 999,
    }
}

fn from_variant(v: &Variant) -> Option<V> {
    match v {
        Variant::Empty => Some(V::Empty),
        Variant::Array(a) => {
            let es: Option<Vec<E>> = a.values.iter().map(from_scalar).collect();
            Some(V::Arr(type_num(a.value_type), es?))
        }
        s => from_scalar(s).map(V::One),
    }
}

fn rand_bytes_str(rng: &mut Rng) -> Vec<u8> {
    // strings with 1-, 2-, 3- and 4-byte characters
    let pool = ["a", "b", "z", "é", "ß", "€", "漢", "😀", "0", ":"];
    let n = rng.range(0, 6);
    let mut s = String::new();
    for _ in 0..n {
        s.push_str(*rng.pick(&pool[..]));
    }
    s.into_bytes()
}

fn rand_e(rng: &mut Rng, t: u32) -> String {
    match t {
        1 => format!("i1:{}", rng.below(2)),
        2 => format!("i2:{}", rng.range(-128, 127)),
        3 => format!("i3:{}", rng.range(0, 255)),
        4 => format!("i4:{}", rng.range(-32768, 32767)),
        5 => format!("i5:{}", rng.range(0, 65535)),
        6 => format!("i6:{}", *rng.pick(&[i32::MIN as i64, -1, 0, 1, 7, i32::MAX as i64])),
        7 => format!("i7:{}", *rng.pick(&[0u64, 1, 9, u32::MAX as u64])),
        8 => format!("i8:{}", *rng.pick(&[i64::MIN, -1, 0, 5, i64::MAX])),
        9 => format!("i9:{}", *rng.pick(&[0u64, 3, u64::MAX])),
        10 => format!("i10:{}", *rng.pick(&[0u32, 0x3f800000, 0x7fc00000, 0xff800000])),
        11 => format!("i11:{}", *rng.pick(&[0u64, 0x3ff0000000000000, 0x7ff8000000000000, 0xfff0000000000000])),
        12 => {
            if rng.chance(1, 10) {
                "sn".to_string()
            } else {
                format!("s{}", hex(&rand_bytes_str(rng)))
            }
        }
        _ => {
            if rng.chance(1, 10) {
                "xn".to_string()
            } else {
                let n = rng.range(0, 6) as usize;
                format!("x{}", hex(&rng.bytes(n)))
            }
        }
    }
}

const ELEM_TYPES: [u32; 13] = [1, 2, 3, 4, 5, 6, 7, 8, 9, 10, 11, 12, 15];

fn rand_value(rng: &mut Rng, prefer: u32) -> String {
    let t = if ELEM_TYPES.contains(&prefer) && rng.chance(3, 4) { prefer } else { *rng.pick(&ELEM_TYPES) };
    match rng.weighted(&[6, 6, 1, 1]) {
        0 => rand_e(rng, t),
        1 => {
            let n = rng.range(0, 6);
            let es: Vec<String> = (0..n).map(|_| rand_e(rng, t)).collect();
            format!("a{}:[{}]", t, es.join(","))
        }
        2 => "n".to_string(),
        _ => {
            // ill-typed array (elements of two types): not a well-formed Variant → bad-op on both sides? no:
            // keep well-formed, but of a type unrelated to `prefer`
            let t2 = *rng.pick(&ELEM_TYPES);
            rand_e(rng, t2)
        }
    }
}

fn rand_range(rng: &mut Rng) -> String {
    let s: String = match rng.weighted(&[6, 6, 8, 2, 2, 1, 1, 1, 1, 1]) {
        0 => return if rng.chance(1, 2) { "sn".to_string() } else { "s".to_string() },
        1 => format!("{}", rng.range(0, 7)),
        2 => {
            let a = rng.range(0, 6);
            format!("{}:{}", a, a + rng.range(1, 6))
        }
        3 => {
            let a = rng.range(0, 6);
            format!("{}:{}", a, a - rng.range(0, a.max(1)).min(a)) // min >= max: invalid
        }
        4 => (*rng.pick(&["4294967295", "4294967296", "0:4294967295", "0:4294967296", "00000000001", "0000000001", "0000000001:0000000002", "99999999999"])).to_string(),
        5 => (*rng.pick(&["1,2", "1:2,3:4", "0,0,0,0,0,0,0,0,0,0", "0,0,0,0,0,0,0,0,0,0,0", "1,", ",", ",1", "1,2:1"])).to_string(),
        6 => (*rng.pick(&[":", "1:", ":1", "1:2:3", " 1", "1 ", "-1", "+1", "1:-2", "a", "0x1", "1.5", "1\n"])).to_string(),
        7 => (*rng.pick(&["١", "1٢", "é", "１"])).to_string(),
        8 => format!("{}:{}", rng.range(0, 3), *rng.pick(&[100u64, 1000000, 4294967295])),
        _ => format!("{}", *rng.pick(&[100u64, 4294967295])),
    };
    format!("s{}", hex(s.as_bytes()))
}

fn hexs(t: &str) -> String {
    format!("s{}", hex(t.as_bytes()))
}

/// every node class × write mask configuration × attribute id × index-range shape (Read) and
/// × index-range shape × value type (Write)
fn surface_cases(out: &mut Vec<String>) {
    let read_ranges = ["sn".to_string(), "s".to_string(), hexs("1"), hexs("0:1"), hexs("1,2"), hexs(":")];
    let values = ["i1:1", "i3:7", "i6:5", "i7:3", "i11:0", "N6", "Q", "L", "a7:[i7:1,i7:2]", "a7:[]", "a6:[i6:1]", "s61", "n", "-"];
    for cls in [2u32, 1, 4, 8, 16, 32, 64, 128] {
        for mask in [None, Some(0x3ff_ffffu32), Some(0x155_5555u32), Some(0x2aa_aaaau32)] {
            out.push("reset".to_string());
            if cls == 2 {
                out.push("var 1 6 1 3 a6:[i6:1,i6:2,i6:3]".to_string());
            } else {
                out.push(format!("node 1 {}", cls));
            }
            if let Some(m) = mask {
                out.push(format!("wmask 1 {}", m));
            }
            for attr in (0u32..=28).chain([255u32, u32::MAX]) {
                for r in &read_ranges {
                    out.push(format!("read 1 {} {}", attr, r));
                }
                for v in values {
                    out.push(format!("write 1 {} sn {}", attr, v));
                    // a write may have changed what is writable / readable: restore, and look again
                    if attr == 6 {
                        if let Some(m) = mask {
                            out.push(format!("wmask 1 {}", m));
                        }
                    }
                    if attr == 18 {
                        out.push("read 1 13 sn".to_string());
                        out.push("write 1 13 sn a6:[i6:4,i6:5,i6:6]".to_string());
                        out.push("write 1 18 sn i3:3".to_string());
                    }
                    if attr == 14 || attr == 15 {
                        out.push("write 1 13 sn a6:[i6:7]".to_string());
                        out.push("write 1 13 sn x0102".to_string());
                        out.push("write 1 14 sn N6".to_string());
                        out.push("write 1 15 sn i6:1".to_string());
                    }
                }
                for r in ["s".to_string(), hexs("1"), hexs(":")] {
                    out.push(format!("write 1 {} {} i6:5", attr, r));
                    out.push(format!("write 1 {} {} -", attr, r));
                }
                out.push(format!("read 1 {} sn", attr));
            }
        }
    }
    // access level × read / write of the value, and a change of the access level in between
    for access in 0u32..=4 {
        out.push("reset".to_string());
        out.push(format!("var 1 6 -1 {} i6:1", access));
        out.push("wmask 1 65536".to_string()); // UserAccessLevel writable
        for a2 in [0u32, 1, 2, 3, 255] {
            out.push("read 1 13 sn".to_string());
            out.push("write 1 13 sn i6:2".to_string());
            out.push("read 1 18 sn".to_string());
            out.push(format!("write 1 18 sn i3:{}", a2));
            out.push("read 1 13 sn".to_string());
            out.push("write 1 13 sn i6:3".to_string());
        }
    }
}

/// every value shape × every index-range shape at its boundaries, Read and range Write
fn value_cases(out: &mut Vec<String>) {
    // (data type, rank, value token, length of the addressed sequence)
    let vals: [(u32, i32, &str, usize); 19] = [
        (24, -1, "n", 0),
        (6, -1, "i6:5", 0),
        (12, -1, "s68c3a96c6c6f", 6), // héllo
        (12, -1, "se282ac61f09f9880", 8), // €a😀
        (12, -1, "sn", 0),
        (12, -1, "s", 0),
        (15, -1, "x0a0b0c0d", 4),
        (15, -1, "xn", 0),
        (15, -1, "x", 0),
        (6, 1, "a6:[i6:1,i6:2,i6:3,i6:4]", 4),
        (6, 1, "a6:[]", 0),
        (12, 1, "a12:[s61,sn,sc3a9]", 3),
        (3, 1, "a3:[i3:1,i3:2,i3:3]", 3),
        (27, 1, "a4:[i4:1,i4:2,i4:3]", 3),
        (24, -1, "N6", 0),
        (24, 1, "a17:[N1,N2]", 2),
        (3, 1, "x7c966a", 3),  // ByteString given to a Byte array variable: stored as the array
        (3, -2, "xn", 0),
        (3, -1, "x7c966a", 3), // scalar Byte variable: stays a ByteString
    ];
    for (dt, rank, v, len) in vals {
        out.push("reset".to_string());
        out.push(format!("var 1 {} {} 3 {}", dt, rank, v));
        let l = len as i64;
        let mut ranges: Vec<String> = vec!["sn".into(), "s".into()];
        for i in [0, 1, 2, l - 1, l, l + 1] {
            if i >= 0 {
                ranges.push(hexs(&i.to_string()));
            }
        }
        for (a, bb) in [(0, 1), (1, 2), (1, 3), (2, 3), (0, l - 1), (0, l), (l - 2, l - 1), (l - 1, l), (l, l + 1), (l + 1, l + 2), (0, 99), (2, 2), (3, 1)] {
            if a >= 0 && bb >= 0 {
                ranges.push(hexs(&format!("{}:{}", a, bb)));
            }
        }
        ranges.push(hexs("0,1"));
        ranges.push(hexs("x"));
        ranges.sort();
        ranges.dedup();
        for r in &ranges {
            out.push(format!("read 1 13 {}", r));
        }
        // range writes with sources of length 0, 1, 2, 5 of the same / another type, scalars, byte strings
        let elem = v.strip_prefix('a').and_then(|x| x.split(':').next()).unwrap_or("6");
        let same = |k: usize| -> String {
            let e = match elem {
                "12" => "s7a",
                "17" => "N9",
                "3" => "i3:9",
                "4" => "i4:9",
                _ => "i6:9",
            };
            format!("a{}:[{}]", elem, vec![e; k].join(","))
        };
        let others = [same(1), same(2), same(5), same(0), "a7:[i7:1,i7:2]".to_string(), "i6:9".to_string(), "x0909".to_string(), "n".to_string()];
        for r in &ranges {
            if r == "s" || r == "sn" {
                continue; // whole-value writes would replace the value under test (covered by surface_cases)
            }
            for o in &others {
                out.push(format!("write 1 13 {} {}", r, o));
            }
            out.push(format!("read 1 13 {}", r));
            out.push("read 1 13 sn".to_string());
        }
        if dt == 3 {
            // null / empty ByteString written to a Byte array (whole value and range)
            for r in ["sn".to_string(), hexs("0"), hexs("0:1")] {
                out.push(format!("write 1 13 {} xn", r));
                out.push(format!("write 1 13 {} x", r));
                out.push("read 1 13 sn".to_string());
            }
            out.push(format!("write 1 13 sn {}", same(3)));
        }
        // the length changes through whole-value writes; the same ranges then hit other boundaries
        for k in [5usize, 1, 2] {
            out.push(format!("write 1 13 sn {}", same(k)));
            for r in &ranges {
                out.push(format!("read 1 13 {}", r));
                if r != "s" && r != "sn" {
                    out.push(format!("write 1 13 {} {}", r, same(2)));
                    out.push(format!("write 1 13 {} x0708", r));
                    out.push(format!("write 1 13 {} a7:[i7:1]", r));
                }
            }
            out.push("read 1 13 sn".to_string());
        }
    }
}

/// a sample scalar token of each of the 25 Variant scalar kinds
fn kind_token(t: u32, k: u32) -> String {
    match t {
        1 => format!("i1:{}", k % 2),
        2..=9 => format!("i{}:{}", t, k + 1),
        10 => "i10:1065353216".to_string(),
        11 => "i11:4607182418800017408".to_string(),
        12 => format!("s{}", hex(format!("é{}", k).as_bytes())),
        15 => format!("x0{}0a", k % 10),
        17 => format!("N{}", k + 1),
        20 => "Q".to_string(),
        21 => "L".to_string(),
        _ => format!("o{}:{}", t, k + 1),
    }
}

/// EVERY Variant scalar kind (Boolean … DiagnosticInfo) and arrays of each, as stored value and as
/// written value, × every index-range shape
fn kind_cases(out: &mut Vec<String>) {
    let ranges = ["sn".to_string(), "s".to_string(), hexs("0"), hexs("1"), hexs("5"), hexs("0:2"), hexs("1:9"), hexs("0,1"), hexs("x")];
    for t in 1u32..=25 {
        // scalar stored in a BaseDataType variable and in a variable of its own type
        for dt in [24u32, t] {
            out.push("reset".to_string());
            out.push(format!("var 1 {} -1 3 {}", dt, kind_token(t, 0)));
            out.push(format!("var 2 {} 1 3 a{}:[{},{},{}]", dt, t, kind_token(t, 0), kind_token(t, 1), kind_token(t, 2)));
            out.push(format!("var 3 {} 1 3 a{}:[]", dt, t));
            for id in 1..=3 {
                for r in &ranges {
                    out.push(format!("read {} 13 {}", id, r));
                }
            }
            for id in 1..=3 {
                for r in &ranges {
                    out.push(format!("write {} 13 {} {}", id, r, kind_token(t, 3)));
                    out.push(format!("write {} 13 {} a{}:[{},{}]", id, r, t, kind_token(t, 4), kind_token(t, 5)));
                    out.push(format!("write {} 13 {} a{}:[]", id, r, t));
                    out.push(format!("read {} 13 {}", id, r));
                    out.push(format!("read {} 13 sn", id));
                }
            }
        }
        // written into variables of unrelated types (type check), and every kind into an array of another kind
        out.push("reset".to_string());
        out.push("var 1 6 -1 3 i6:1".to_string());
        out.push("var 2 12 1 3 a12:[s61,s62]".to_string());
        out.push("var 3 26 -1 3 i11:0".to_string());
        for id in 1..=3 {
            for r in ["sn".to_string(), hexs("0"), hexs("0:1")] {
                out.push(format!("write {} 13 {} {}", id, r, kind_token(t, 0)));
                out.push(format!("write {} 13 {} a{}:[{}]", id, r, t, kind_token(t, 1)));
            }
            out.push(format!("read {} 13 sn", id));
        }
    }
}

impl Prop for C32 {
    fn id(&self) -> &'static str {
        "C32"
    }

    fn gen(&self, rng: &mut Rng, n: usize, _tier: Tier, out: &mut Vec<String>) {
        // systematic part (independent of n and of the seed): the whole API surface once
        surface_cases(out);
        value_cases(out);
        kind_cases(out);
        for _ in 0..n {
            out.push("reset".to_string());
            let nv = rng.range(1, 4) as u32;
            let mut dts = Vec::new();
            for id in 1..=nv {
                let dt = *rng.pick(&DTS);
                let rank = *rng.pick(&[-1i64, -1, 1, 1, -2, -3, 0, 2]);
                let access = match rng.weighted(&[6, 2, 2, 1, 1]) {
                    0 => 3,
                    1 => 1,
                    2 => 2,
                    3 => 0,
                    _ => rng.below(256),
                };
                let v = rand_value(rng, dt);
                out.push(format!("var {} {} {} {} {}", id, dt, rank, access, v));
                dts.push(dt);
            }
            let len = rng.range(4, 30);
            for _ in 0..len {
                let id = if rng.chance(1, 20) { rng.range(0, nv as i64 + 1) as u32 } else { rng.range(1, nv as i64) as u32 };
                let attr = match rng.weighted(&[12, 3, 1]) {
                    0 => 13,
                    1 => rng.range(0, 30) as u64,
                    _ => *rng.pick(&[28u64, 255, 256, u32::MAX as u64]),
                };
                if rng.chance(1, 2) {
                    out.push(format!("read {} {} {}", id, attr, rand_range(rng)));
                } else {
                    let dt = if id >= 1 && id <= nv { dts[id as usize - 1] } else { 6 };
                    let v = if rng.chance(1, 25) { "-".to_string() } else { rand_value(rng, dt) };
                    out.push(format!("write {} {} {} {}", id, attr, rand_range(rng), v));
                }
            }
        }
    }

    fn runner(&self) -> Box<dyn Runner> {
        Box::new(R::new())
    }
}

struct RefVar {
    dt: u32,
    rank: i64,
    access: u32,
    value: V,
    mask: Option<u32>,
}

struct R {
    address_space: Arc<RwLock<AddressSpace>>,
    session: Arc<RwLock<Session>>,
    /// reference store, written from the property text
    vars: HashMap<u32, RefVar>,
    /// nodes of other classes: class and write mask
    others: HashMap<u32, (u32, Option<u32>)>,
}

fn node_id(n: u32) -> NodeId {
    NodeId::new(1, n)
}

fn parent_dt(t: u32) -> Option<u32> {
    DT_EDGES.iter().find(|(_, c)| *c == t).map(|(p, _)| *p)
}

/// "the value's type is compatible" — reference reading of the property: the value's (element)
/// type is the variable's data type or a subtype of it; Empty is always acceptable; a ByteString
/// may be written to a one-dimensional Byte array
fn compatible(var: &RefVar, v: &V) -> bool {
    let sub = |mut t: u32| loop {
        if t == var.dt {
            return true;
        }
        match parent_dt(t) {
            Some(p) => t = p,
            None => return false,
        }
    };
    match v {
        V::Empty => true,
        V::One(e) => sub(e_ty(e)) || (matches!(e, E::BStr(_)) && var.dt == 3 && [-2, -3, 1].contains(&var.rank)),
        V::Arr(t, es) => match es.first() {
            Some(e) => sub(e_ty(e)),
            None => sub(*t),
        },
    }
}

/// bytes of a Byte array / ByteString (for comparing what was written with what is read)
fn as_bytes(v: &V) -> Option<Vec<u8>> {
    match v {
        V::One(E::BStr(b)) => Some(b.clone().unwrap_or_default()),
        V::Arr(3, es) => es.iter().map(|e| if let E::Num(3, x) = e { u8::try_from(*x).ok() } else { None }).collect(),
        _ => None,
    }
}

fn same_value(a: &V, b: &V) -> bool {
    a == b || (as_bytes(a).is_some() && as_bytes(a) == as_bytes(b))
}

enum Rg {
    None,
    Index(usize),
    Range(usize, usize),
    Other,
}

/// the index-range grammar of Part 4 (reference parser of the oracle, decimal digits only)
fn ref_range(s: &str) -> Option<Rg> {
    if s.is_empty() {
        return Some(Rg::None);
    }
    if s.contains(',') {
        return Some(Rg::Other);
    }
    let num = |t: &str| -> Option<usize> {
        if t.is_empty() || !t.bytes().all(|b| b.is_ascii_digit()) {
            None
        } else {
            t.parse::<u64>().ok().map(|x| x as usize)
        }
    };
    match s.split_once(':') {
        None => num(s).map(Rg::Index),
        Some((a, b)) => {
            let (a, b) = (num(a)?, num(b)?);
            if a < b {
                Some(Rg::Range(a, b))
            } else {
                None
            }
        }
    }
}

impl R {
    fn new() -> R {
        let fx = fixtures::server();
        let mut a = AddressSpace::default();
        let _ = a.register_namespace("urn:verif:c32");
        for (p, c) in DT_EDGES {
            a.insert_reference(&NodeId::new(0, p), &NodeId::new(0, c), ReferenceTypeId::HasSubtype);
        }
        R {
            address_space: Arc::new(RwLock::new(a)),
            session: Arc::new(RwLock::new(Session::new(fx.server_state.clone()))),
            vars: HashMap::new(),
            others: HashMap::new(),
        }
    }

    /// the stored value as the implementation holds it (direct look, no access checks)
    fn stored(&self, id: u32) -> Option<V> {
        let a = self.address_space.read();
        let v = a.find_variable(node_id(id))?;
        let dv = v.value(TimestampsToReturn::Neither, NumericRange::None, &QualifiedName::null(), 0.0);
        match dv.value {
            None => Some(V::Empty),
            Some(v) => from_variant(&v),
        }
    }

    fn check_stored(&self, id: u32, sub: &str, class: &str) -> Verdict {
        if let Some(rv) = self.vars.get(&id) {
            match self.stored(id) {
                Some(got) if same_value(&got, &rv.value) => Verdict::Ok,
                got => Verdict::fail(sub, class, format!("stored value {:?}, expected {}", got.map(|g| show_v(&g)), show_v(&rv.value))),
            }
        } else {
            Verdict::Ok
        }
    }
}

/// WriteMask bit of an attribute id (OPC UA Part 3, table "Bit mask for WriteMask")
fn mask_bit(attr: u32) -> Option<u32> {
    Some(match attr {
        17 => 0,
        16 => 1,
        3 => 2,
        11 => 3,
        14 => 4,
        5 => 5,
        4 => 6,
        12 => 7,
        21 => 8,
        20 => 9,
        10 => 10,
        8 => 11,
        19 => 12,
        2 => 13,
        1 => 14,
        9 => 15,
        18 => 16,
        22 => 17,
        7 => 18,
        15 => 19,
        6 => 20,
        13 => 21,
        23 => 22,
        24 => 23,
        26 => 24,
        27 => 25,
        _ => return None,
    })
}

fn range_str(tok: &str) -> Option<UAString> {
    let r = tok.strip_prefix('s')?;
    match parse_bytes(r)? {
        None => Some(UAString::null()),
        Some(b) => String::from_utf8(b).ok().map(UAString::from),
    }
}

impl Runner for R {
    fn step(&mut self, toks: &[&str]) -> (String, Verdict) {
        let fx = fixtures::server();
        let bad = || ("bad-op".to_string(), Verdict::Ok);
        match toks {
            ["reset"] => ("ok".to_string(), Verdict::Ok),
            ["var", id, dt, rank, access, v] => {
                let (Ok(id), Ok(dt), Ok(rank), Ok(access)) = (id.parse::<u32>(), dt.parse::<u32>(), rank.parse::<i64>(), access.parse::<u32>()) else { return bad() };
                let Some(v) = parse_v(v) else { return bad() };
                if id == 0 || !DTS.contains(&dt) || !(-3..=3).contains(&rank) || access > 255 {
                    return bad();
                }
                let Some(variant) = to_variant(&v) else { return bad() };
                if self.vars.contains_key(&id) || self.others.contains_key(&id) {
                    return ("ok 0".to_string(), Verdict::Ok);
                }
                let name = format!("v{}", id);
                let var = VariableBuilder::new(&node_id(id), name.as_str(), name.as_str())
                    .data_type(NodeId::new(0, dt))
                    .value_rank(rank as i32)
                    .user_access_level(UserAccessLevel::from_bits_truncate(access as u8))
                    .access_level(AccessLevel::from_bits_truncate(access as u8))
                    .value(variant)
                    .build();
                let ok = self.address_space.write().insert(var, None::<&[(&NodeId, &NodeId, ReferenceDirection)]>);
                let v = match (&v, as_bytes(&v)) {
                    (V::One(E::BStr(_)), Some(bs)) if dt == 3 && [-2, -3, 1].contains(&rank) => V::Arr(3, bs.iter().map(|x| E::Num(3, *x as i128)).collect()),
                    _ => v,
                };
                self.vars.insert(id, RefVar { dt, rank, access, value: v, mask: None });
                (format!("ok {}", b(ok)), self.check_stored(id, "read_after_write", "create"))
            }
            ["node", id, cls] => {
                let (Ok(id), Ok(cls)) = (id.parse::<u32>(), cls.parse::<u32>()) else { return bad() };
                if id == 0 || ![1, 4, 8, 16, 32, 64, 128].contains(&cls) {
                    return bad();
                }
                if self.vars.contains_key(&id) || self.others.contains_key(&id) {
                    return ("ok 0".to_string(), Verdict::Ok);
                }
                let nid = node_id(id);
                let name = format!("n{}", id);
                let node: NodeType = match cls {
                    1 => Object::new(&nid, name.as_str(), name.as_str(), EventNotifier::empty()).into(),
                    4 => Method::new(&nid, name.as_str(), name.as_str(), true, true).into(),
                    8 => ObjectType::new(&nid, name.as_str(), name.as_str(), false).into(),
                    16 => VariableType::new(&nid, name.as_str(), name.as_str(), DataTypeId::Int32.into(), false, -1).into(),
                    32 => ReferenceType::new(&nid, name.as_str(), name.as_str(), None, false, false).into(),
                    64 => DataType::new(&nid, name.as_str(), name.as_str(), false).into(),
                    _ => View::new(&nid, name.as_str(), name.as_str(), EventNotifier::empty(), true).into(),
                };
                let ok = self.address_space.write().insert(node, None::<&[(&NodeId, &NodeId, ReferenceDirection)]>);
                self.others.insert(id, (cls, None));
                (format!("ok {}", b(ok)), Verdict::Ok)
            }
            ["wmask", id, m] => {
                let (Ok(id), Ok(m)) = (id.parse::<u32>(), m.parse::<u32>()) else { return bad() };
                let found = {
                    let mut a = self.address_space.write();
                    match a.find_node_mut(&node_id(id)) {
                        Some(n) => {
                            n.as_mut_node().set_write_mask(WriteMask::from_bits_truncate(m));
                            true
                        }
                        None => false,
                    }
                };
                if let Some(v) = self.vars.get_mut(&id) {
                    v.mask = Some(m);
                }
                if let Some(o) = self.others.get_mut(&id) {
                    o.1 = Some(m);
                }
                (format!("ok {}", b(found)), Verdict::Ok)
            }
            ["read", id, attr, range] => {
                let (Ok(id), Ok(attr)) = (id.parse::<u32>(), attr.parse::<u32>()) else { return bad() };
                let Some(range_ua) = range_str(range) else { return bad() };
                let req = ReadRequest {
                    request_header: RequestHeader::dummy(),
                    max_age: 0.0,
                    timestamps_to_return: TimestampsToReturn::Neither,
                    nodes_to_read: Some(vec![ReadValueId {
                        node_id: node_id(id),
                        attribute_id: attr,
                        index_range: range_ua.clone(),
                        data_encoding: QualifiedName::null(),
                    }]),
                };
                let resp = VAttributeService::new().read(fx.server_state.clone(), self.session.clone(), self.address_space.clone(), &req);
                let dv = match resp {
                    SupportedMessage::ReadResponse(r) => r.results.unwrap_or_default().into_iter().next(),
                    SupportedMessage::ServiceFault(f) => return (format!("err {}", f.response_header.service_result.name()), Verdict::fail("status_for_all", "read", "service fault")),
                    _ => None,
                };
                let Some(dv) = dv else { return ("err no-result".into(), Verdict::fail("status_for_all", "read", "no result")) };
                let status = dv.status.unwrap_or(StatusCode::Good);
                let mut verdict = Verdict::Ok;
                let line = if status.is_good() && attr == 13 {
                    let got = dv.value.as_ref().map(from_variant).unwrap_or(Some(V::Empty));
                    // oracle: a good read returns what the reference store holds (whole value, or
                    // the addressed elements of an array / bytes of a string)
                    if let (Some(rv), Some(got)) = (self.vars.get(&id), got.as_ref()) {
                        let class = "read";
                        if rv.access & 1 == 0 {
                            verdict = Verdict::fail("read_requires_access", class, "read succeeded without CurrentRead");
                        } else {
                            let rs = String::from(range_ua.as_ref());
                            let expect: Option<V> = match (ref_range(&rs), &rv.value) {
                                (Some(Rg::None), v) => Some(v.clone()),
                                (Some(Rg::Index(i)), V::Arr(t, es)) => es.get(i).map(|e| V::Arr(*t, vec![e.clone()])),
                                (Some(Rg::Range(a, bb)), V::Arr(t, es)) if a < es.len() => Some(V::Arr(*t, es[a..=bb.min(es.len() - 1)].to_vec())),
                                (Some(Rg::Index(i)), V::One(E::BStr(Some(bs)))) if i < bs.len() => Some(V::One(E::BStr(Some(bs[i..=i].to_vec())))),
                                (Some(Rg::Range(a, bb)), V::One(E::BStr(Some(bs)))) if a < bs.len() => Some(V::One(E::BStr(Some(bs[a..=bb.min(bs.len() - 1)].to_vec())))),
                                (Some(Rg::Index(i)), V::One(E::Str(Some(bs)))) if i < bs.len() => Some(V::One(E::Str(Some(bs[i..=i].to_vec())))),
                                (Some(Rg::Range(a, bb)), V::One(E::Str(Some(bs)))) if a < bs.len() => Some(V::One(E::Str(Some(bs[a..=bb.min(bs.len() - 1)].to_vec())))),
                                _ => None,
                            };
                            match expect {
                                Some(e) if same_value(&e, got) => {}
                                e => verdict = Verdict::fail("read_after_write", class, format!("read {} but the store holds {} (expected {:?})", show_v(got), show_v(&rv.value), e.map(|e| show_v(&e)))),
                            }
                        }
                    }
                    match got {
                        Some(g) => format!("ok Good {}", show_v(&g)),
                        None => "ok Good ?".to_string(),
                    }
                } else {
                    format!("ok {}", status.name())
                };
                (line, verdict)
            }
            ["write", id, attr, range, v] => {
                let (Ok(id), Ok(attr)) = (id.parse::<u32>(), attr.parse::<u32>()) else { return bad() };
                let Some(range_ua) = range_str(range) else { return bad() };
                let val: Option<V> = if *v == "-" { None } else { Some(match parse_v(v) { Some(v) => v, None => return bad() }) };
                let variant = match &val {
                    None => None,
                    Some(v) => Some(match to_variant(v) { Some(x) => x, None => return bad() }),
                };
                let req = WriteRequest {
                    request_header: RequestHeader::dummy(),
                    nodes_to_write: Some(vec![WriteValue {
                        node_id: node_id(id),
                        attribute_id: attr,
                        index_range: range_ua.clone(),
                        value: DataValue {
                            value: variant,
                            status: None,
                            source_timestamp: None,
                            source_picoseconds: None,
                            server_timestamp: None,
                            server_picoseconds: None,
                        },
                    }]),
                };
                let resp = VAttributeService::new().write(fx.server_state.clone(), self.session.clone(), self.address_space.clone(), &req);
                let status = match resp {
                    SupportedMessage::WriteResponse(r) => r.results.unwrap_or_default().into_iter().next(),
                    SupportedMessage::ServiceFault(f) => return (format!("err {}", f.response_header.service_result.name()), Verdict::fail("status_for_all", "write", "service fault")),
                    _ => None,
                };
                let Some(status) = status else { return ("err no-result".into(), Verdict::fail("status_for_all", "write", "no result")) };
                let mut verdict = Verdict::Ok;
                let rs = String::from(range_ua.as_ref());
                let class = match ref_range(&rs) {
                    Some(Rg::None) => "write-whole",
                    Some(Rg::Index(_)) => "write-index",
                    Some(Rg::Range(_, _)) => "write-range",
                    _ => "write-other",
                };
                if status.is_good() && attr == 13 {
                    if let (Some(rv), Some(v)) = (self.vars.get_mut(&id), val.as_ref()) {
                        if rv.access & 2 == 0 {
                            verdict = Verdict::fail("write_requires_access", class, "write succeeded without CurrentWrite");
                        } else if !compatible(rv, v) {
                            verdict = Verdict::fail("write_requires_type", class, format!("{} accepted by a variable of data type {} rank {}", show_v(v), rv.dt, rv.rank));
                        }
                        // a successful write is observed: update the reference store
                        let byte_array = rv.dt == 3 && [-2, -3, 1].contains(&rv.rank);
                        // Part 4: a ByteString written to a one-dimensional Byte array is that array
                        let norm: V = match (v, as_bytes(v)) {
                            (V::One(E::BStr(_)), Some(bs)) if byte_array => V::Arr(3, bs.iter().map(|x| E::Num(3, *x as i128)).collect()),
                            _ => v.clone(),
                        };
                        let v = &norm;
                        match (ref_range(&rs), &mut rv.value, v) {
                            (Some(Rg::None), cur, v) => *cur = v.clone(),
                            (Some(Rg::Index(i)), V::Arr(_, es), V::Arr(_, os)) if i < es.len() && !os.is_empty() => es[i] = os[0].clone(),
                            (Some(Rg::Range(a, bb)), V::Arr(_, es), V::Arr(_, os)) if a < es.len() => {
                                for (k, o) in os.iter().enumerate() {
                                    if a + k <= bb && a + k < es.len() {
                                        es[a + k] = o.clone();
                                    }
                                }
                            }
                            _ => {
                                if matches!(verdict, Verdict::Ok) {
                                    verdict = Verdict::fail("read_after_write", class, "write reported Good for a range the value does not have");
                                }
                            }
                        }
                    } else if matches!(verdict, Verdict::Ok) {
                        verdict = Verdict::fail("write_requires_type", class, "write without a value (or to an unknown node) reported Good");
                    }
                    if matches!(verdict, Verdict::Ok) {
                        verdict = self.check_stored(id, "read_after_write", class);
                    }
                } else if status.is_good() {
                    // any other attribute: writable only through the node's write mask (Part 3, 5.2.7)
                    let mask = self.vars.get(&id).map(|v| v.mask).or(self.others.get(&id).map(|o| o.1)).flatten();
                    let allowed = match (mask, mask_bit(attr)) {
                        (Some(m), Some(bit)) => m >> bit & 1 == 1,
                        _ => false,
                    };
                    if !allowed || attr == 13 {
                        verdict = Verdict::fail("write_requires_access", class, format!("attribute {} written although the write mask {:?} does not allow it", attr, mask));
                    } else {
                        // writes that change what later reads / writes are allowed to do
                        if let (Some(rv), Some(V::One(e))) = (self.vars.get_mut(&id), val.as_ref()) {
                            match (attr, e) {
                                (18, E::Num(3, x)) => rv.access = *x as u32,
                                (14, E::NodeId(n)) => rv.dt = *n,
                                (15, E::Num(6, x)) => rv.rank = *x as i64,
                                _ => {}
                            }
                        }
                        if let Some(V::One(E::Num(7, x))) = val.as_ref() {
                            if attr == 6 {
                                if let Some(rv) = self.vars.get_mut(&id) {
                                    rv.mask = Some(*x as u32);
                                }
                                if let Some(o) = self.others.get_mut(&id) {
                                    o.1 = Some(*x as u32);
                                }
                            }
                        }
                        verdict = self.check_stored(id, "rejected_write_is_noop", class);
                    }
                } else {
                    // a rejected write leaves the value unchanged
                    verdict = self.check_stored(id, "rejected_write_is_noop", class);
                }
                (format!("ok {}", status.name()), verdict)
            }
            _ => bad(),
        }
    }

    fn on_panic(&self, toks: &[&str]) -> Verdict {
        Verdict::fail("no_panic", toks.first().copied().unwrap_or("-"), "implementation panicked")
    }
}
