//! C27 — higher-priority subscriptions are served first.
//!
//! Several real `Subscription`s (each with a monitored item on the same variable, or none) in one
//! real `Subscriptions`; timer ticks, writes and a scarce supply of publish requests.
use crate::common::*;
use crate::fixtures;
use crate::subs_util::*;
use std::collections::BTreeMap;
use opcua::server::prelude::*;
use opcua::server::subscriptions::subscription::Subscription;

pub struct C27;
pub static P: C27 = C27;

const INTERVAL_MS: f64 = 100_000.0;

impl Prop for C27 {
    fn id(&self) -> &'static str {
        "C27"
    }

    fn gen(&self, rng: &mut Rng, n: usize, tier: Tier, out: &mut Vec<String>) {
        for _ in 0..n {
            let k = match rng.weighted(&[1, 4, 4, 3, 2]) {
                0 => 1,
                1 => 2,
                2 => 3,
                3 => 4,
                _ => rng.range(5, if tier == Tier::Thorough { 9 } else { 6 }) as usize,
            };
            // distinct ids in random order, so that id order cannot explain the service order
            let mut ids: Vec<u64> = Vec::new();
            while ids.len() < k {
                let c = rng.range(1, 40) as u64;
                if !ids.contains(&c) {
                    ids.push(c);
                }
            }
            // priorities: distinct (the property's case), sometimes with ties, boundary values
            let ties = rng.chance(1, 5);
            let mut prios: Vec<u64> = Vec::new();
            while prios.len() < k {
                let c = match rng.weighted(&[2, 1, 1, 4]) {
                    0 => rng.below(4),
                    1 => 255,
                    2 => 254 - rng.below(2),
                    _ => rng.below(256),
                };
                if ties || !prios.contains(&c) {
                    prios.push(c);
                }
            }
            let items: Vec<u64> = (0..k).map(|_| if rng.chance(5, 6) { 1 } else { 0 }).collect();
            let ka = *rng.pick(&[1u64, 2, 3, 5]);
            // sometimes a lifetime so short that starved subscriptions expire within the case
            let (ka, life) = if rng.chance(1, 6) { (1, 3 + rng.below(2)) } else { (ka, 3 * ka + rng.below(20) + 1) };
            let l = |v: &Vec<u64>| format!("[{}]", v.iter().map(|x| x.to_string()).collect::<Vec<_>>().join(","));
            out.push(format!("reset {} {} {} {} {}", l(&ids), l(&prios), l(&items), ka, life));
            let rounds = rng.range(3, 14);
            let mut rid = 1u64;
            // supply of requests per round: scarce (< number of subscriptions) most of the time
            let supply_mode = rng.weighted(&[5, 2, 1]);
            let mut live: Vec<u64> = ids.clone();       // subscriptions the generator believes present
            let mut cur: Vec<u64> = prios.clone();
            let mut next_id = 41u64;
            let mut force_elapsed = 0;                   // after `add`: its first two ticks must count as elapsed
            for _ in 0..rounds {
                // between ticks: ModifySubscription changes a priority (often: two priorities are
                // flipped), DeleteSubscriptions removes one, CreateSubscription adds one
                match rng.weighted(&[6, 3, 2, 1, 1]) {
                    1 if live.len() >= 2 => {
                        let a = rng.below(live.len() as u64) as usize;
                        let mut b_ = rng.below(live.len() as u64) as usize;
                        if b_ == a {
                            b_ = (a + 1) % live.len();
                        }
                        let (ia, ib) = (ids.iter().position(|x| *x == live[a]).unwrap(), ids.iter().position(|x| *x == live[b_]).unwrap());
                        let (pa, pb) = (cur[ia], cur[ib]);
                        out.push(format!("setprio {} {}", live[a], pb));
                        out.push(format!("setprio {} {}", live[b_], pa));
                        cur[ia] = pb;
                        cur[ib] = pa;
                    }
                    2 if !live.is_empty() => {
                        let a = rng.below(live.len() as u64) as usize;
                        let ia = ids.iter().position(|x| *x == live[a]).unwrap();
                        let p = match rng.weighted(&[2, 1, 1]) {
                            0 => rng.below(256),
                            1 => 0,
                            _ => 255,
                        };
                        out.push(format!("setprio {} {}", live[a], p));
                        cur[ia] = p;
                    }
                    3 if live.len() >= 2 => {
                        let a = rng.below(live.len() as u64) as usize;
                        out.push(format!("remove {}", live[a]));
                        live.remove(a);
                    }
                    4 if ids.len() < 8 => {
                        let p = rng.below(256);
                        out.push(format!("add {} {} {} {} {}", next_id, p, b(rng.chance(5, 6)), ka, life));
                        ids.push(next_id);
                        cur.push(p);
                        live.push(next_id);
                        next_id += 1;
                        force_elapsed = 2;
                    }
                    _ => {}
                }
                let pubs = match supply_mode {
                    0 => rng.below(k as u64),
                    1 => rng.below(2 * k as u64 + 2),
                    _ => 1,
                };
                for _ in 0..pubs {
                    out.push(format!("pub {}", rid));
                    rid += 1;
                }
                let mut e = !rng.chance(1, 8);
                if force_elapsed > 0 {
                    force_elapsed -= 1;
                    e = true;
                }
                let w = rng.chance(2, 3);
                out.push(format!("timer {} {}", b(e), b(w)));
            }
        }
    }

    fn runner(&self) -> Box<dyn Runner> {
        Box::new(R { w: None, prio: BTreeMap::new(), item: BTreeMap::new() })
    }
}

struct R {
    w: Option<World>,
    prio: BTreeMap<u32, u8>,
    item: BTreeMap<u32, bool>,
}

/// what the oracle may look at before a tick: the observable situation of a subscription
#[derive(PartialEq, Clone, Debug)]
struct Situation {
    state: u8,
    life: u32,
    ka: u32,
    sent: bool,
    nq: usize,
    item: bool,
}

impl R {
    fn show(&self, resps: &[Resp]) -> String {
        let w = self.w.as_ref().unwrap();
        let subs: Vec<String> = w
            .subs
            .ids()
            .iter()
            .map(|id| {
                let s = w.subs.get(*id).unwrap();
                format!("{}:p{}:{}:{}:{}:{}", id, s.priority(), s.verif_state(), s.lifetime_counter(), s.keep_alive_counter(), s.verif_notifications_len())
            })
            .collect();
        let rq: Vec<String> = w.subs.publish_request_ids().iter().map(|r| r.to_string()).collect();
        format!("subs=[{}] rq=[{}] resp={}", subs.join(","), rq.join(","), render_resps(resps, true))
    }

    fn situations(&self) -> BTreeMap<u32, Situation> {
        let w = self.w.as_ref().unwrap();
        w.subs
            .ids()
            .iter()
            .map(|id| {
                let s = w.subs.get(*id).unwrap();
                (
                    *id,
                    Situation {
                        state: s.verif_state(),
                        life: s.lifetime_counter(),
                        ka: s.keep_alive_counter(),
                        sent: s.message_sent(),
                        nq: s.verif_notifications_len(),
                        item: *self.item.get(id).unwrap_or(&false),
                    },
                )
            })
            .collect()
    }

    /// The property on the responses of ONE `Subscriptions::tick`:
    ///  * responses leave in non-increasing priority order;
    ///  * among subscriptions that were in the same observable situation before the tick, a
    ///    lower-priority one is not answered unless every higher-priority one is answered too.
    fn oracle(&self, before: &BTreeMap<u32, Situation>, resps: &[Resp], single_tick: bool) -> Verdict {
        let distinct = {
            let mut p: Vec<u8> = before.keys().map(|id| self.prio[id]).collect();
            p.sort();
            p.windows(2).all(|w| w[0] != w[1])
        };
        let class = if distinct { "distinct-priorities" } else { "tied-priorities" };
        let notif: Vec<&Resp> = resps.iter().filter(|r| r.sub != 0).collect();
        if single_tick {
            for w in notif.windows(2) {
                let (p0, p1) = (self.prio[&w[0].sub], self.prio[&w[1].sub]);
                if p0 < p1 {
                    return Verdict::fail(
                        "order",
                        class,
                        format!("subscription {} (priority {}) answered before subscription {} (priority {})", w[0].sub, p0, w[1].sub, p1),
                    );
                }
            }
        }
        for r in &notif {
            let j = r.sub;
            let Some(sj) = before.get(&j) else { continue };
            for (i, si) in before {
                if self.prio[i] > self.prio[&j] && si == sj && !notif.iter().any(|x| x.sub == *i) {
                    return Verdict::fail(
                        "higher_priority_first",
                        class,
                        format!(
                            "subscription {} (priority {}) was answered, subscription {} (priority {}) in the same situation {:?} was not",
                            j, self.prio[&j], i, self.prio[i], si
                        ),
                    );
                }
            }
        }
        Verdict::Ok
    }
}

fn parse_list(s: &str) -> Vec<u64> {
    let inner = &s[1..s.len() - 1];
    if inner.is_empty() {
        vec![]
    } else {
        inner.split(',').map(|x| x.parse().unwrap()).collect()
    }
}

impl Runner for R {
    fn step(&mut self, toks: &[&str]) -> (String, Verdict) {
        let fx = fixtures::server();
        match toks {
            ["reset", ids, prios, items, ka, life] => {
                let (ids, prios, items) = (parse_list(ids), parse_list(prios), parse_list(items));
                if ids.len() != prios.len() || ids.len() != items.len() {
                    return ("bad-op".to_string(), Verdict::Ok);
                }
                let ka: u32 = ka.parse().unwrap();
                let life: u32 = life.parse().unwrap();
                let mut w = World::new(fx, 30_000);
                for k in 0..ids.len() {
                    w.add_subscription(fx, ids[k] as u32, true, INTERVAL_MS, life, ka, prios[k] as u8, items[k] != 0);
                    self.prio.insert(ids[k] as u32, prios[k] as u8);
                    self.item.insert(ids[k] as u32, items[k] != 0);
                }
                self.w = Some(w);
                (format!("ok {}", self.show(&[])), Verdict::Ok)
            }
            ["timer", e, wr] => {
                let e = *e == "1";
                let before = self.situations();
                let w = self.w.as_mut().unwrap();
                if *wr == "1" {
                    w.write_variable(fx);
                }
                let now = w.time_for_tick(e, INTERVAL_MS);
                w.tick(fx, &now);
                let resps = w.take_responses();
                let v = self.oracle(&before, &resps, true);
                (format!("ok {}", self.show(&resps)), v)
            }
            ["pub", r] => {
                let rid: u32 = r.parse().unwrap();
                let before = self.situations();
                let w = self.w.as_mut().unwrap();
                let full = w.subs.publish_request_ids().len() >= 2 * w.subs.len();
                let now = w.time_for_tick(false, INTERVAL_MS);
                let res = w.publish(fx, &now, rid);
                let resps = w.take_responses();
                // a full queue makes enqueue_publish_request tick twice: the responses of two ticks
                // are concatenated, and the situations change in between
                let v = if full { Verdict::Ok } else { self.oracle(&before, &resps, true) };
                (format!("ok res={} {}", if res.is_ok() { "ok" } else { "toomany" }, self.show(&resps)), v)
            }
            ["setprio", i, p] => {
                // ModifySubscription. The priority that the REAL service leaves on a subscription is
                // taken from a call of SubscriptionService::modify_subscription on a scratch
                // subscription (same id, same current priority) in a scratch session — so a service
                // that ignores, clamps or remaps the requested priority is seen (seed C27c: priority 0
                // not applied) — and is then put on the world's subscription, whose counters the
                // model's `setprio` leaves alone. The oracle keeps the REQUESTED priority.
                let id: u32 = i.parse().unwrap();
                let p: u8 = p.parse::<u64>().unwrap() as u8;
                let w = self.w.as_mut().unwrap();
                let eff = match w.subs.get(id) {
                    Some(sub) => {
                        use opcua::verif_hooks::subs as hooks;
                        let scratch = Subscription::new(w.diagnostics.clone(), id, true, INTERVAL_MS, 30, 10, sub.priority());
                        let session = std::sync::Arc::new(opcua::sync::RwLock::new(opcua::server::session::Session::new(fx.server_state.clone())));
                        hooks::session_insert_subscription(&mut session.write(), id, scratch);
                        let req = ModifySubscriptionRequest {
                            request_header: RequestHeader::new(&NodeId::null(), &DateTime::now(), 1),
                            subscription_id: id,
                            requested_publishing_interval: INTERVAL_MS,
                            requested_lifetime_count: 30,
                            requested_max_keep_alive_count: 10,
                            max_notifications_per_publish: 0,
                            priority: p,
                        };
                        if !matches!(hooks::modify_subscription(fx.server_state.clone(), session.clone(), &req), SupportedMessage::ModifySubscriptionResponse(_)) {
                            return ("err modify-refused".to_string(), Verdict::fail("service_ok", "setprio", "ModifySubscription refused a valid request"));
                        }
                        let e = hooks::session_subscription_params(&session.read(), id).map(|x| x.3);
                        e.unwrap_or(p)
                    }
                    None => p,
                };
                match w.subs.get_mut(id) {
                    Some(sub) => {
                        opcua::verif_hooks::subs::subscription_set_priority(sub, eff);
                        self.prio.insert(id, p);
                        (format!("ok {}", self.show(&[])), Verdict::Ok)
                    }
                    None => ("err nosub".to_string(), Verdict::Ok),
                }
            }
            ["remove", i] => {
                // what DeleteSubscriptions does
                let id: u32 = i.parse().unwrap();
                let w = self.w.as_mut().unwrap();
                let was = w.subs.remove(id).is_some();
                (format!("ok res={} {}", if was { "removed" } else { "none" }, self.show(&[])), Verdict::Ok)
            }
            ["add", i, p, t, ka, life] => {
                let id: u32 = i.parse().unwrap();
                let p: u8 = p.parse::<u64>().unwrap() as u8;
                let item = *t != "0";
                let w = self.w.as_mut().unwrap();
                let keep_now = w.last_now;
                w.add_subscription(fx, id, true, INTERVAL_MS, life.parse().unwrap(), ka.parse().unwrap(), p, item);
                w.last_now = keep_now;
                self.prio.insert(id, p);
                self.item.insert(id, item);
                (format!("ok {}", self.show(&[])), Verdict::Ok)
            }
            _ => ("bad-op".to_string(), Verdict::Ok),
        }
    }
}
