//! C26 — client timestamps and wall-clock jumps cannot crash subscription processing.
//!
//! One real `Subscriptions` + `Subscription` and one stand-alone real `MonitoredItem`, driven the way
//! the subscription timer task does (expire stale requests, tick, take responses) at arbitrary —
//! also decreasing — times, with publish requests carrying arbitrary header timestamps / hints.
use crate::common::*;
use crate::fixtures;
use crate::subs_util::*;
use chrono::Duration as CDuration;
use opcua::server::prelude::*;
use opcua::verif_hooks::subs::VMonitoredItem;
use std::collections::BTreeMap;

pub struct C26;
pub static P: C26 = C26;

impl Prop for C26 {
    fn id(&self) -> &'static str {
        "C26"
    }

    fn gen(&self, rng: &mut Rng, n: usize, tier: Tier, out: &mut Vec<String>) {
        // (1) deterministic boundary part: every comparison of the three computations below, at and
        // above its threshold (1 µs apart), every arm of the hint rule
        // (0 = everything queued is stale at once; a negative timeout becomes a huge u64: never stale)
        for timeout in [1i64, 100, 5000, 0, -1] {
            for hint in [0i64, 1, timeout - 1, timeout, timeout + 1, 4_000_000_000] {
                if hint < 0 {
                    continue;
                }
                let eff = if hint > 0 && hint < timeout { hint } else { timeout } * 1000;
                for ts in [0i64, -7, 1_000_000] {
                    out.push(format!("reset {} 1000 1000", timeout));
                    out.push("pub 9 0 0 0".to_string()); // answered at once by the Late subscription
                    out.push(format!("pub 1 {} {} 0", ts, hint));
                    for d in [-1i64, 0, 1] {
                        out.push(format!("expire {}", ts + eff + d));
                    }
                    out.push(format!("expire {}", ts - 1)); // the clock behind the timestamp
                }
            }
        }
        for interval_ms in [100i64, 250, 1000] {
            for samp_ms in [-1i64, 100, 250, 1000] {
                let (iu, su) = (interval_ms * 1000, samp_ms * 1000);
                out.push(format!("reset 30000 {} {}", interval_ms, samp_ms));
                let mut c = 0i64;
                for d in [iu - 1, 1, 1, iu - 1, iu, iu + 1, -1, iu - 1, 1, -iu, iu, 0, 3 * iu] {
                    c += d;
                    out.push(format!("cycle {}", c));
                }
                out.push(format!("reset 30000 {} {}", interval_ms, samp_ms));
                if su > 0 {
                    let mut c = 0i64;
                    for d in [su - 1, 1, 1, su - 1, su, su + 1, -1, su - 1, 1, -su, su, 0, 3 * su] {
                        c += d;
                        out.push(format!("itick {} {}", c, b(d % 2 == 0)));
                    }
                } else {
                    for (k, c) in [0i64, -5, 7, 7, -1_000_000].iter().enumerate() {
                        out.push(format!("itick {} {}", c, b(k % 2 == 0)));
                    }
                }
            }
        }
        // interval changed by ModifySubscription: ticks just below / at / above the NEW and the OLD interval
        for (old_ms, new_ms) in [(1000i64, 100i64), (100, 1000), (250, 100), (100, 250), (1000, 1000)] {
            let (ou, nu) = (old_ms * 1000, new_ms * 1000);
            out.push(format!("reset 30000 {} -1", old_ms));
            out.push(format!("setinterval {}", new_ms));
            let mut last = 0i64; // the model's last_time: moves only when a tick counts as elapsed under the NEW interval
            for d in [nu - 1, nu, nu + 1, ou - 1, ou, ou + 1, nu - 1, nu, ou, 2 * ou + nu] {
                let c = last + d;
                out.push(format!("cycle {}", c));
                if d >= nu {
                    last = c;
                }
            }
            // change it back and again look at both boundaries
            out.push(format!("setinterval {}", old_ms));
            for d in [nu - 1, nu, nu + 1, ou - 1, ou, ou + 1] {
                let c = last + d;
                out.push(format!("cycle {}", c));
                if d >= ou {
                    last = c;
                }
            }
        }
        // (2) random part
        for _ in 0..n {
            let timeout: i64 = *rng.pick(&[30_000i64, 30_000, 5_000, 100, 1, 0, -1]);
            let interval_ms: i64 = *rng.pick(&[100i64, 250, 1000]);
            let samp_ms: i64 = *rng.pick(&[-1i64, 100, 250, 1000]);
            out.push(format!("reset {} {} {}", timeout, interval_ms, samp_ms));
            let mut iu = interval_ms * 1000;
            let mut old_iu = iu;
            let tu = timeout * 1000;
            let mut c: i64 = 0; // the server clock, µs from the origin
            let mut rid = 1u64;
            let mut target: Option<i64> = None; // a time at which a queued request is exactly at its limit
            let len = rng.range(10, if tier == Tier::Thorough { 80 } else { 40 });
            for _ in 0..len {
                // move the clock: mostly forwards, sometimes backwards or far ahead
                let step = match rng.weighted(&[10, 3, 1, 2]) {
                    0 => {
                        let r = rng.range(0, 3 * iu);
                        let su = if samp_ms > 0 { samp_ms * 1000 } else { iu };
                        *rng.pick(&[0, 1, 999, 1000, iu - 1, iu, iu + 1, 2 * iu, r, su - 1, su, su + 1, old_iu - 1, old_iu, old_iu + 1])
                    }
                    1 => -*rng.pick(&[1, 1000, iu, 60_000_000, 86_400_000_000i64]),
                    2 => 86_400_000_000,
                    _ => match target.take() {
                        Some(t) => t + rng.range(-1, 1) - c,
                        None => iu,
                    },
                };
                c += step;
                if rng.chance(1, 12) {
                    let new_ms = *rng.pick(&[100i64, 250, 1000, 500]);
                    out.push(format!("setinterval {}", new_ms));
                    old_iu = iu;
                    iu = new_ms * 1000;
                }
                match rng.weighted(&[10, 5, 2, 3]) {
                    0 => out.push(format!("cycle {}", c)),
                    1 => {
                        let hint: i64 = *rng.pick(&[0, 0, 1, timeout - 1, timeout, timeout + 1, 500, 4_000_000_000]);
                        let hint = hint.max(0);
                        let eff = if hint > 0 && hint < timeout { hint } else { timeout } * 1000;
                        let ts = match rng.weighted(&[5, 4, 4, 1, 1]) {
                            0 => (c + *rng.pick(&[0, -1, -1000, -1_000_000])).to_string(),
                            1 => (c + *rng.pick(&[1, 1000, 60_000_000, 3_600_000_000i64])).to_string(),
                            2 => (c - eff + rng.range(-2, 2)).to_string(),
                            3 => "null".to_string(),
                            _ => "end".to_string(),
                        };
                        if let Ok(t) = ts.parse::<i64>() {
                            target = Some(t + eff);
                        }
                        let _ = tu;
                        out.push(format!("pub {} {} {} {}", rid, ts, hint, c));
                        rid += 1;
                    }
                    2 => out.push(format!("expire {}", c)),
                    _ => out.push(format!("itick {} {}", c, b(rng.chance(1, 2)))),
                }
            }
        }
    }

    fn runner(&self) -> Box<dyn Runner> {
        Box::new(R { w: None, item: None, t0: chrono::Utc::now(), timeout: 30_000, reqs: BTreeMap::new(), last_time: 0 })
    }
}

struct R {
    w: Option<World>,
    item: Option<VMonitoredItem>,
    t0: Time,
    timeout: i64,
    /// what the client put into each request: (timestamp, timeout hint)
    reqs: BTreeMap<u32, (DateTime, u32)>,
    last_time: i64,
}

impl R {
    fn at(&self, off: i64) -> Time {
        self.t0 + CDuration::microseconds(off)
    }

    fn show(&self, resps: &[Resp]) -> String {
        let w = self.w.as_ref().unwrap();
        let last = match w.subs.get(1) {
            Some(s) => (s.verif_last_time_publishing_interval_elapsed() - self.t0).num_microseconds().unwrap().to_string(),
            None => "-".to_string(),
        };
        let (faults, normal): (Vec<&Resp>, Vec<&Resp>) = resps.iter().partition(|r| r.sub == 0);
        let to: Vec<String> = faults.iter().map(|r| if r.kind == "to" { r.rid.to_string() } else { format!("{}?", r.rid) }).collect();
        let normal: Vec<Resp> = normal.iter().map(|r| Resp { rid: r.rid, sub: r.sub, kind: r.kind.clone(), seq: r.seq }).collect();
        format!("ok last={} {} to=[{}]", last, w.show_single(&normal), to.join(","))
    }

    /// "A queued publish request is answered with BadTimeout only after its timeout has elapsed
    /// since its timestamp" — on the responses of this op
    fn oracle(&self, now: &Time, resps: &[Resp], class: &str) -> Verdict {
        for r in resps.iter().filter(|r| r.sub == 0) {
            if r.kind != "to" {
                return Verdict::fail("fault_kind", class, format!("request {} answered with an unexpected fault", r.rid));
            }
            let Some((ts, hint)) = self.reqs.get(&r.rid) else {
                return Verdict::fail("timeout_known_request", class, format!("BadTimeout for unknown request {}", r.rid));
            };
            let elapsed_us: i128 = match now.signed_duration_since(ts.as_chrono()).num_microseconds() {
                Some(us) => us as i128,
                None => i128::MAX,
            };
            let hint = *hint as i64;
            // (a negative server timeout is used as a u64: practically never)
            let eff_ms: i128 = if hint > 0 && hint < self.timeout {
                hint as i128
            } else if self.timeout >= 0 {
                self.timeout as i128
            } else {
                u64::MAX as i128 + 1 + self.timeout as i128
            };
            if !(elapsed_us > eff_ms * 1000) {
                return Verdict::fail(
                    "timeout_only_after",
                    class,
                    format!("request {} timed out after {} us, its timeout is {} ms", r.rid, elapsed_us, eff_ms),
                );
            }
        }
        Verdict::Ok
    }

    fn class(&self, now_off: i64) -> &'static str {
        let now = self.at(now_off);
        let w = self.w.as_ref().unwrap();
        let future = w.subs.publish_request_ids().iter().any(|r| self.reqs.get(r).map(|(ts, _)| ts.as_chrono() > now).unwrap_or(false));
        let behind_interval_start = w.subs.get(1).map(|s| now < s.verif_last_time_publishing_interval_elapsed()).unwrap_or(false);
        if future {
            "future-timestamp"
        } else if now_off < self.last_time || behind_interval_start {
            "clock-backwards"
        } else {
            "monotonic"
        }
    }
}

impl Runner for R {
    fn step(&mut self, toks: &[&str]) -> (String, Verdict) {
        let fx = fixtures::server();
        match toks {
            ["reset", t, i, sm] => {
                let timeout: i64 = t.parse().unwrap();
                let interval_ms: i64 = i.parse().unwrap();
                let samp_ms: i64 = sm.parse().unwrap();
                {
                    let mut ss = fx.server_state.write();
                    ss.min_sampling_interval_ms = 100.0;
                    ss.max_monitored_item_queue_size = 10;
                }
                let mut w = World::new(fx, timeout);
                w.add_subscription(fx, 1, true, interval_ms as f64, 60, 5, 0, false);
                // origin: 100 ns aligned, two publishing intervals after the subscription's creation time
                let ctime = w.subs.get(1).unwrap().verif_last_time_publishing_interval_elapsed();
                let ns = ctime.timestamp_subsec_nanos() as i64;
                let t0 = ctime - CDuration::nanoseconds(ns % 100) + CDuration::milliseconds(2 * interval_ms);
                // the tick that leaves Creating, then one that makes `t0` the start of the interval
                w.tick(fx, &t0);
                w.tick(fx, &t0);
                assert_eq!(w.subs.get(1).unwrap().verif_last_time_publishing_interval_elapsed(), t0);
                let _ = w.take_responses();
                // the stand-alone monitored item, sampled once at the origin
                let req = MonitoredItemCreateRequest {
                    item_to_monitor: ReadValueId {
                        node_id: var_id(),
                        attribute_id: AttributeId::Value as u32,
                        index_range: UAString::null(),
                        data_encoding: QualifiedName::null(),
                    },
                    monitoring_mode: MonitoringMode::Reporting,
                    requested_parameters: MonitoringParameters {
                        client_handle: 1,
                        sampling_interval: samp_ms as f64,
                        filter: ExtensionObject::null(),
                        queue_size: 1,
                        discard_oldest: true,
                    },
                };
                let mut item = {
                    let ss = fx.server_state.read();
                    VMonitoredItem::new(&t0, 1, TimestampsToReturn::Both, &ss, &req).expect("item")
                };
                {
                    let asp = fx.address_space.read();
                    let r = item.tick(&t0, &asp, true, true);
                    assert_eq!(r, 2);
                }
                assert_eq!(item.last_sample_time(), t0);
                self.item = Some(item);
                self.t0 = t0;
                self.timeout = timeout;
                self.last_time = 0;
                self.reqs.clear();
                self.w = Some(w);
                (self.show(&[]), Verdict::Ok)
            }
            ["cycle", n] => {
                let off: i64 = n.parse().unwrap();
                let now = self.at(off);
                let class = self.class(off);
                let w = self.w.as_mut().unwrap();
                // the body of the subscription timer task (tcp_transport.rs)
                w.subs.expire_stale_publish_requests(&now);
                w.tick(fx, &now);
                let resps = w.take_responses();
                self.last_time = off;
                (self.show(&resps), self.oracle(&now, &resps, class))
            }
            ["expire", n] => {
                let off: i64 = n.parse().unwrap();
                let now = self.at(off);
                let class = self.class(off);
                let w = self.w.as_mut().unwrap();
                w.subs.expire_stale_publish_requests(&now);
                let resps = w.take_responses();
                self.last_time = off;
                (self.show(&resps), self.oracle(&now, &resps, class))
            }
            ["pub", r, ts, h, n] => {
                let rid: u32 = r.parse().unwrap();
                let hint: u64 = h.parse().unwrap();
                let off: i64 = n.parse().unwrap();
                let now = self.at(off);
                let ts = match *ts {
                    "null" => DateTime::null(),
                    "end" => DateTime::endtimes(),
                    x => DateTime::from(self.at(x.parse().unwrap())),
                };
                let w = self.w.as_mut().unwrap();
                let req = World::publish_request(rid, ts, hint as u32);
                let res = {
                    let asp = fx.address_space.read();
                    w.subs.enqueue_publish_request(&now, rid, req, &asp)
                };
                if res.is_ok() {
                    self.reqs.insert(rid, (ts, hint as u32));
                }
                let resps = w.take_responses();
                let s = self.show(&resps);
                (format!("ok res={} {}", if res.is_ok() { "ok" } else { "toomany" }, &s[3..]), self.oracle(&now, &resps, "pub"))
            }
            ["setinterval", ms] => {
                // the REAL ModifySubscription service with a new publishing interval and the current counts
                // (the only caller of Subscription::set_publishing_interval); the subscription is moved
                // into a session for the call and back
                use opcua::verif_hooks::subs as hooks;
                let w = self.w.as_mut().unwrap();
                let Some(sub) = w.subs.remove(1) else {
                    return ("err nosub".to_string(), Verdict::Ok);
                };
                let (k, l) = (sub.max_keep_alive_count(), sub.max_lifetime_count());
                let session = std::sync::Arc::new(opcua::sync::RwLock::new(opcua::server::session::Session::new(fx.server_state.clone())));
                hooks::session_insert_subscription(&mut session.write(), 1, sub);
                let req = ModifySubscriptionRequest {
                    request_header: RequestHeader::new(&NodeId::null(), &DateTime::now(), 1),
                    subscription_id: 1,
                    requested_publishing_interval: ms.parse::<u64>().unwrap() as f64,
                    requested_lifetime_count: l,
                    requested_max_keep_alive_count: k,
                    max_notifications_per_publish: 0,
                    priority: 0,
                };
                let good = matches!(hooks::modify_subscription(fx.server_state.clone(), session.clone(), &req), SupportedMessage::ModifySubscriptionResponse(_));
                let sub = hooks::session_remove_subscription(&mut session.write(), 1).expect("subscription");
                w.subs.insert(1, sub);
                let v = if good { Verdict::Ok } else { Verdict::fail("service_ok", "setinterval", "ModifySubscription refused a valid request") };
                (self.show(&[]), v)
            }
            ["itick", n, e] => {
                let off: i64 = n.parse().unwrap();
                let now = self.at(off);
                let item = self.item.as_mut().unwrap();
                let r = {
                    let asp = fx.address_space.read();
                    item.tick(&now, &asp, *e == "1", false)
                };
                let last = (item.last_sample_time() - self.t0).num_microseconds().unwrap();
                (format!("ok r={} last={}", r, last), Verdict::Ok)
            }
            _ => ("bad-op".to_string(), Verdict::Ok),
        }
    }

    fn on_panic(&self, toks: &[&str]) -> Verdict {
        let class = match toks {
            ["cycle", n] | ["expire", n] => self.class(n.parse().unwrap_or(0)),
            ["itick", ..] => "item-clock",
            _ => "-",
        };
        Verdict::fail("no_panic", class, "implementation panicked")
    }
}
