//! C41 — saved configurations load back unchanged.
//!
//! `cfg <server|client> <doc>`: the document (term notation of C42: n | t | f | i<int> | d<f64 bits> |
//! s<hex> | a(…) | o(s<key>,v,…)) is loaded into the configuration struct (`serde_yaml::from_value`) and
//! written back as a document (`serde_yaml::to_value`) — this is what the Lean model predicts.  The
//! oracle then does what the property says with the REAL file functions: a valid configuration is saved
//! with `Config::save`, loaded with `Config::load`, and must be equal to the original and valid.
use super::c04::{shex, sunhex};
use super::c42::{tree_of, tree_out, T};
use crate::common::*;
use crate::fixtures;
use opcua::client::ClientConfig;
use opcua::core::config::Config;
use opcua::server::prelude::*;
use serde::{de::DeserializeOwned, Serialize};
use serde_yaml::Value;
use std::collections::{BTreeMap, BTreeSet};
use std::panic::{catch_unwind, AssertUnwindSafe};
use std::path::PathBuf;

pub struct C41;
pub static P: C41 = C41;

fn leaf(s: impl Into<String>) -> T {
    T(s.into(), vec![])
}

fn doc_of(t: &T) -> Option<Value> {
    if t.0 == "a" {
        return t.1.iter().map(doc_of).collect::<Option<Vec<_>>>().map(Value::Sequence);
    }
    if t.0 == "o" {
        if t.1.len() % 2 != 0 {
            return None;
        }
        let mut m = serde_yaml::Mapping::new();
        for kv in t.1.chunks(2) {
            m.insert(Value::String(sunhex(&kv[0].0)?), doc_of(&kv[1])?);
        }
        return Some(Value::Mapping(m));
    }
    if !t.1.is_empty() {
        return None;
    }
    match t.0.as_str() {
        "n" => Some(Value::Null),
        "t" => Some(Value::Bool(true)),
        "f" => Some(Value::Bool(false)),
        n => {
            if let Some(r) = n.strip_prefix('i') {
                let z: i128 = r.parse().ok()?;
                if z >= 0 {
                    Some(Value::Number(u64::try_from(z).ok()?.into()))
                } else {
                    Some(Value::Number(i64::try_from(z).ok()?.into()))
                }
            } else if let Some(r) = n.strip_prefix('d') {
                Some(Value::Number(f64::from_bits(u64::from_str_radix(r, 16).ok()?).into()))
            } else if n.starts_with('s') {
                sunhex(n).map(Value::String)
            } else {
                None
            }
        }
    }
}

fn doc_tree(v: &Value) -> T {
    match v {
        Value::Null => leaf("n"),
        Value::Bool(true) => leaf("t"),
        Value::Bool(false) => leaf("f"),
        Value::Number(n) => {
            if let Some(u) = n.as_u64() {
                leaf(format!("i{}", u))
            } else if let Some(i) = n.as_i64() {
                leaf(format!("i{}", i))
            } else {
                leaf(format!("d{:016x}", n.as_f64().unwrap_or(0.0).to_bits()))
            }
        }
        Value::String(s) => leaf(shex(s)),
        Value::Sequence(a) => T("a".into(), a.iter().map(doc_tree).collect()),
        Value::Mapping(m) => {
            let mut kids = vec![];
            for (k, v) in m {
                kids.push(match k {
                    Value::String(s) => leaf(shex(s)),
                    other => doc_tree(other),
                });
                kids.push(doc_tree(v));
            }
            T("o".into(), kids)
        }
        Value::Tagged(t) => doc_tree(&t.value),
    }
}

/// the property on the real file functions
fn save_load<C: Config + Serialize + DeserializeOwned + PartialEq>(c: &C, class: &str) -> Verdict {
    if !c.is_valid() {
        return Verdict::Ok; // the property quantifies over valid configurations; `save` refuses the others
    }
    if std::env::var("VERIF_C41_STATS").is_ok() {
        eprintln!("valid {}", class);
    }
    let path = fixtures::scratch_dir().join("c41.conf");
    let r = catch_unwind(AssertUnwindSafe(|| {
        if c.save(&path).is_err() {
            return Err("save failed".to_string());
        }
        let text = std::fs::read_to_string(&path).unwrap_or_default();
        match <C as Config>::load::<C>(&path) {
            Err(_) => Err(format!("saved file does not load: {:?}", text)),
            Ok(d) => {
                if d != *c {
                    Err(format!("loaded configuration differs; file: {:?}", text))
                } else if !d.is_valid() {
                    Err("loaded configuration is not valid".to_string())
                } else {
                    Ok(())
                }
            }
        }
    }));
    match r {
        Err(_) => Verdict::fail("no_panic", class, "save/load panicked"),
        Ok(Err(e)) => Verdict::fail("roundtrip", class, e),
        Ok(Ok(())) => Verdict::Ok,
    }
}

fn run<C: Config + Serialize + DeserializeOwned + PartialEq>(doc: Value, class: &str) -> (String, Verdict) {
    match catch_unwind(AssertUnwindSafe(|| serde_yaml::from_value::<C>(doc))) {
        Err(_) => ("panic".into(), Verdict::fail("no_panic", class, "from_value panicked")),
        Ok(Err(_)) => ("err".into(), Verdict::Ok),
        Ok(Ok(c)) => match serde_yaml::to_value(&c) {
            Err(e) => ("err-ser".into(), Verdict::fail("roundtrip", class, format!("does not serialise: {}", e))),
            Ok(v) => (format!("ok {}", tree_out(&doc_tree(&v))), save_load(&c, class)),
        },
    }
}

// ------------------------------------------------------------------------------------------------
// generator
// ------------------------------------------------------------------------------------------------

pub const YAML_STRINGS: &[&str] = &[
    "~", "null", "Null", "NULL", "true", "True", "yes", "no", "on", "off", "y", "n", "123", "-5", "+1", "1.5", "1e3", "0x1F", "0o17", "1_000", ".inf",
    "-.inf", ".nan", "-", "- a", "-a", ": ", "a: b", "a:b", ":", "#", "a #b", "a#b", " lead", "trail ", " ", "'", "\"", "'quoted'", "\"dq\"", "a\nb",
    "a\tb", "\n", "a\n", "\na", "é", "€", "😀", "[a]", "[", "]", "{a: b}", "{", "}", ",", "&anchor", "*alias", "!tag", "!!str x", "|", ">", "|-", "%", "@",
    "`", "?", "? a", "---", "...", "--- a", "2001-01-01", "2001-01-01T00:00:00Z", "12:30", "12:30:45", "0.", ".5", "-0", "0", "00", "\u{feff}x",
    "\u{85}", "\u{2028}", "\u{2029}", "a\r\nb", "\r", "\\", "\\n", "\u{0}", "\u{7f}", "\u{1b}[0m", "a'b\"c", "''", "\"\"", "=", "<<", "<<: x", "a, b",
    "opc.tcp://127.0.0.1:4855/", "C:\\Users\\x\\pki", "/tmp/pki dir/own", "ANONYMOUS", "None", "Basic256Sha256",
];

fn y_string(rng: &mut Rng) -> String {
    match rng.weighted(&[12, 4, 4, 1, 1, 1, 1]) {
        0 => rng.pick(YAML_STRINGS).to_string(),
        1 => format!("{}{}", rng.pick(YAML_STRINGS), rng.pick(YAML_STRINGS)),
        2 => format!("name{}", rng.below(1000)),
        // very long: beyond any line-folding width, with and without blanks / line breaks / non-BMP characters
        3 => "x".repeat(*rng.pick(&[79usize, 80, 81, 300, 5000])),
        4 => "ab cd ".repeat(*rng.pick(&[20usize, 200, 2000])),
        5 => format!("{}\n{}\n\n  {}\n", rng.pick(YAML_STRINGS), "long line ".repeat(30), rng.pick(YAML_STRINGS)),
        _ => format!("{}😀𝒳{}\u{10ffff}", rng.pick(YAML_STRINGS), "é€".repeat(50)),
    }
}

/// the small alphabet of the exhaustive block: strings that look like other YAML scalars or syntax
pub const SPECIAL: &[&str] = &[
    "", "~", "null", "Null", "true", "yes", "no", "on", "off", "123", "-5", "1.5", "1e3", "0x10", "0o17", ".inf", ".nan", "-", "- a", ": ", "a: b", "a:",
    "#", "a #b", " lead", "trail ", " ", "'", "\"", "'q'", "a\nb", "\n", "a\n", "\na", "a\n\nb", "a\tb", "é", "😀", "[a]", "{a: b}", "&a", "*a", "!t", "|",
    ">", "%", "@", "`", "? a", "---", "...", "2001-01-01", "12:30", "\u{85}", "\u{2028}", "\r", "a\r\nb", "\u{0}", "\u{feff}x", "\\", "\\n", "a, b",
];

fn nonempty(rng: &mut Rng) -> String {
    loop {
        let s = y_string(rng);
        if !s.is_empty() {
            return s;
        }
    }
}

fn g_usize(rng: &mut Rng) -> usize {
    *rng.pick(&[1usize, 2, 100, 65535, 65536, u32::MAX as usize, u32::MAX as usize + 1, usize::MAX, 327675])
}

fn g_f64(rng: &mut Rng) -> f64 {
    *rng.pick(&[0.0f64, -0.0, 0.1, 1.0, 100.0, 1e-3, 1e300, f64::MAX, f64::MIN_POSITIVE, 5e-324, f64::INFINITY, f64::NEG_INFINITY, 123.456, 1e15, 1e16, 1e17, 0.30000000000000004])
}

const POLICY_MODE: &[(&str, &str)] = &[
    ("None", "None"), ("Basic128Rsa15", "Sign"), ("Basic128Rsa15", "SignAndEncrypt"), ("Basic256", "Sign"), ("Basic256Sha256", "SignAndEncrypt"),
    ("Aes128-Sha256-RsaOaep", "Sign"), ("Aes256-Sha256-RsaPss", "SignAndEncrypt"), ("http://opcfoundation.org/UA/SecurityPolicy#Basic256", "Sign"),
];

fn gen_server(rng: &mut Rng) -> ServerConfig {
    let mut user_tokens = BTreeMap::new();
    let n_tok = rng.below(4);
    for _ in 0..n_tok {
        let id = nonempty(rng);
        if id == "ANONYMOUS" {
            continue;
        }
        let tok = if rng.chance(2, 3) {
            ServerUserToken { user: nonempty(rng), pass: Some(y_string(rng)), x509: None, thumbprint: None }
        } else {
            ServerUserToken { user: nonempty(rng), pass: None, x509: Some(y_string(rng)), thumbprint: None }
        };
        user_tokens.insert(id, tok);
    }
    let ids: Vec<String> = user_tokens.keys().cloned().collect();
    let mut endpoints = BTreeMap::new();
    let n_ep = rng.range(1, 3);
    for _ in 0..n_ep {
        let (pol, mode) = *rng.pick(POLICY_MODE);
        let mut toks = BTreeSet::new();
        if rng.chance(1, 2) {
            toks.insert("ANONYMOUS".to_string());
        }
        for id in &ids {
            if rng.chance(1, 2) {
                toks.insert(id.clone());
            }
        }
        endpoints.insert(
            y_string(rng),
            ServerEndpoint {
                path: y_string(rng),
                security_policy: pol.to_string(),
                security_mode: mode.to_string(),
                security_level: rng.below(256) as u8,
                password_security_policy: if rng.chance(1, 3) { Some(rng.pick(POLICY_MODE).0.to_string()) } else { None },
                user_token_ids: toks,
            },
        );
    }
    let default_endpoint = if rng.chance(1, 2) { endpoints.keys().next().cloned() } else { None };
    let mut c = ServerConfig::default();
    c.application_name = y_string(rng);
    c.application_uri = y_string(rng);
    c.product_uri = y_string(rng);
    c.create_sample_keypair = rng.chance(1, 2);
    c.certificate_path = if rng.chance(1, 2) { Some(PathBuf::from(y_string(rng))) } else { None };
    c.private_key_path = if rng.chance(1, 2) { Some(PathBuf::from(y_string(rng))) } else { None };
    c.certificate_validation = CertificateValidation { trust_client_certs: rng.chance(1, 2), check_time: rng.chance(1, 2) };
    c.pki_dir = PathBuf::from(y_string(rng));
    c.discovery_server_url = if rng.chance(1, 2) { Some(y_string(rng)) } else { None };
    c.tcp_config = TcpConfig { hello_timeout: rng.next() as u32, host: y_string(rng), port: rng.next() as u16 };
    c.limits.clients_can_modify_address_space = rng.chance(1, 2);
    c.limits.max_subscriptions = g_usize(rng);
    c.limits.max_monitored_items_per_sub = g_usize(rng);
    c.limits.max_monitored_item_queue_size = g_usize(rng);
    c.limits.max_array_length = g_usize(rng);
    c.limits.max_string_length = g_usize(rng);
    c.limits.max_byte_string_length = g_usize(rng);
    c.limits.min_sampling_interval = g_f64(rng);
    c.limits.min_publishing_interval = g_f64(rng);
    c.limits.max_message_size = g_usize(rng);
    c.limits.max_chunk_count = g_usize(rng);
    c.limits.send_buffer_size = g_usize(rng);
    c.limits.receive_buffer_size = g_usize(rng);
    c.performance = Performance { single_threaded_executor: rng.chance(1, 2) };
    c.locale_ids = (0..rng.below(3)).map(|_| y_string(rng)).collect();
    c.user_tokens = user_tokens;
    c.discovery_urls = (0..rng.range(1, 2)).map(|_| y_string(rng)).collect();
    c.default_endpoint = default_endpoint;
    c.endpoints = endpoints;
    c
}

fn s(v: &str) -> Value {
    Value::String(v.to_string())
}

fn map(kv: Vec<(&str, Value)>) -> Value {
    let mut m = serde_yaml::Mapping::new();
    for (k, v) in kv {
        m.insert(s(k), v);
    }
    Value::Mapping(m)
}

fn dur(rng: &mut Rng) -> Value {
    let (secs, nanos): (u64, u32) = *rng.pick(&[(0, 0), (1, 0), (30, 500_000_000), (0, 999_999_999), (u64::MAX, 999_999_999), (86400, 1), (5, 0)]);
    map(vec![("secs", Value::Number(secs.into())), ("nanos", Value::Number(nanos.into()))])
}

/// a client configuration as a document (its fields are crate-private)
fn gen_client_doc(rng: &mut Rng) -> Value {
    let mut toks = serde_yaml::Mapping::new();
    let mut ids = vec![];
    for _ in 0..rng.below(3) {
        let id = nonempty(rng);
        if id == "ANONYMOUS" {
            continue;
        }
        let t = if rng.chance(1, 2) {
            map(vec![("user", s(&nonempty(rng))), ("password", s(&y_string(rng)))])
        } else {
            map(vec![("user", s(&nonempty(rng))), ("cert_path", s(&y_string(rng))), ("private_key_path", s(&y_string(rng)))])
        };
        toks.insert(s(&id), t);
        ids.push(id);
    }
    let mut eps = serde_yaml::Mapping::new();
    let mut ep_ids = vec![];
    for _ in 0..rng.below(3) {
        let id = nonempty(rng);
        let (pol, mode) = *rng.pick(POLICY_MODE);
        let mut kv = vec![("url", s(&y_string(rng))), ("security_policy", s(pol)), ("security_mode", s(mode))];
        if rng.chance(2, 3) {
            let tid = if ids.is_empty() || rng.chance(1, 2) { "ANONYMOUS".to_string() } else { rng.pick(&ids).clone() };
            kv.push(("user_token_id", s(&tid)));
        }
        eps.insert(s(&id), map(kv));
        ep_ids.push(id);
    }
    let default_endpoint = if ep_ids.is_empty() || rng.chance(1, 2) { String::new() } else { rng.pick(&ep_ids).clone() };
    let u = |rng: &mut Rng| Value::Number((g_usize(rng) as u64).into());
    let opt_s = |rng: &mut Rng| if rng.chance(1, 2) { s(&y_string(rng)) } else { Value::Null };
    map(vec![
        ("application_name", s(&nonempty(rng))),
        ("application_uri", s(&nonempty(rng))),
        ("product_uri", s(&y_string(rng))),
        ("create_sample_keypair", Value::Bool(rng.chance(1, 2))),
        ("certificate_path", opt_s(rng)),
        ("private_key_path", opt_s(rng)),
        ("trust_server_certs", Value::Bool(rng.chance(1, 2))),
        ("verify_server_certs", Value::Bool(rng.chance(1, 2))),
        ("pki_dir", s(&y_string(rng))),
        ("preferred_locales", Value::Sequence((0..rng.below(3)).map(|_| s(&y_string(rng))).collect())),
        ("default_endpoint", s(&default_endpoint)),
        ("user_tokens", Value::Mapping(toks)),
        ("endpoints", Value::Mapping(eps)),
        (
            "decoding_options",
            map(vec![
                ("max_message_size", u(rng)),
                ("max_chunk_count", u(rng)),
                ("max_chunk_size", u(rng)),
                ("max_incoming_chunk_size", u(rng)),
                ("max_string_length", u(rng)),
                ("max_byte_string_length", u(rng)),
                ("max_array_length", u(rng)),
            ]),
        ),
        ("session_retry_limit", Value::Number((*rng.pick(&[-1i64, 0, 1, 10, i32::MAX as i64])).into())),
        ("session_retry_initial", dur(rng)),
        ("session_retry_max", dur(rng)),
        ("keep_alive_interval", dur(rng)),
        ("request_timeout", dur(rng)),
        ("publish_timeout", dur(rng)),
        ("min_publish_interval", dur(rng)),
        ("max_inflight_publish", u(rng)),
        ("session_timeout", Value::Number((rng.next() as u32 as u64).into())),
        (
            "performance",
            map(vec![("ignore_clock_skew", Value::Bool(rng.chance(1, 2))), ("recreate_monitored_items_chunk", u(rng)), ("max_inflight_messages", u(rng))]),
        ),
        ("session_name", s(&y_string(rng))),
    ])
}

fn random_scalar(rng: &mut Rng) -> T {
    match rng.below(9) {
        0 => leaf("n"),
        1 => leaf("t"),
        2 => leaf("f"),
        3 => leaf(format!("i{}", *rng.pick(&[0i128, 1, -1, 255, 256, 65535, 65536, u32::MAX as i128, u32::MAX as i128 + 1, i32::MIN as i128, u64::MAX as i128, i64::MIN as i128]))),
        4 => leaf(format!("d{:016x}", g_f64(rng).to_bits())),
        5 => T("o".into(), vec![]),
        6 => T("o".into(), vec![leaf(shex("secs")), leaf("i1"), leaf(shex("nanos")), leaf(format!("i{}", *rng.pick(&[0u64, 999_999_999, 1_000_000_000, 4_294_967_295])))]),
        7 => T("a".into(), vec![leaf(shex(&y_string(rng))), leaf(shex("b")), leaf(shex("a")), leaf(shex("b"))]),
        _ => leaf(shex(&y_string(rng))),
    }
}

fn paths(t: &T, cur: &mut Vec<usize>, out: &mut Vec<Vec<usize>>) {
    out.push(cur.clone());
    let (first, step) = if t.0 == "o" { (1, 2) } else { (0, 1) };
    let mut i = first;
    while i < t.1.len() {
        cur.push(i);
        paths(&t.1[i], cur, out);
        cur.pop();
        i += step;
    }
}

fn at<'a>(t: &'a mut T, p: &[usize]) -> &'a mut T {
    let mut x = t;
    for i in p {
        x = &mut x.1[*i];
    }
    x
}

/// type-breaking / structure-breaking edits of a document (arrays are never put where a struct is read:
/// they only replace scalars that the schema reads as scalars or sequences)
fn mutate_doc(rng: &mut Rng, t: &mut T) {
    let mut ps = vec![];
    paths(t, &mut vec![], &mut ps);
    let p = rng.pick(&ps).clone();
    let node = at(t, &p);
    match rng.below(6) {
        0 => {
            if node.0 == "o" && node.1.len() >= 2 {
                let k = (rng.below(node.1.len() as u64 / 2) * 2) as usize;
                node.1.drain(k..k + 2); // drop a key
            } else if node.0 == "a" && !node.1.is_empty() {
                let k = rng.below(node.1.len() as u64) as usize;
                node.1.remove(k);
            } else {
                *node = leaf("n");
            }
        }
        1 => {
            if node.0 == "o" {
                // an unknown key, or a `null` for everything
                let new = shex(*rng.pick(&["extra", "thumbprint", "secs", "user", "x"]));
                if !node.1.iter().step_by(2).any(|x| x.0 == new) {
                    node.1.push(leaf(new));
                    node.1.push(random_scalar(rng));
                }
            } else if node.0 != "a" {
                *node = random_scalar(rng);
            }
        }
        2 => {
            if node.0 != "o" && node.0 != "a" {
                *node = random_scalar(rng);
            } else {
                *node = leaf("n");
            }
        }
        3 => {
            if node.0 == "o" && node.1.len() >= 2 {
                // rename a key
                let k = (rng.below(node.1.len() as u64 / 2) * 2) as usize;
                let new = shex(&y_string(rng));
                if !node.1.iter().step_by(2).any(|x| x.0 == new) {
                    node.1[k] = leaf(new);
                }
            }
        }
        4 => {
            if node.0 == "a" {
                // unsorted / duplicated elements
                if let Some(x) = node.1.first().cloned() {
                    node.1.push(x);
                }
                node.1.reverse();
            } else if node.0 == "o" && node.1.len() >= 4 {
                // reorder keys
                let n = node.1.len();
                let last = node.1.split_off(n - 2);
                let mut new = last;
                new.append(&mut node.1);
                node.1 = new;
            }
        }
        _ => {
            if let Some(r) = node.0.strip_prefix('i') {
                if let Ok(z) = r.parse::<i128>() {
                    let z2 = (*rng.pick(&[z + 1, z - 1, -z, z * 256, 0])).clamp(i64::MIN as i128, u64::MAX as i128);
                    *node = leaf(format!("i{}", z2));
                }
            }
        }
    }
}


// ------------------------------------------------------------------------------------------------
// exhaustive block: every string site of a fully populated valid configuration x every SPECIAL string
// ------------------------------------------------------------------------------------------------

fn base_server_doc() -> Value {
    let mut c = ServerConfig::default();
    c.application_name = "app".into();
    c.application_uri = "urn:app".into();
    c.product_uri = "urn:product".into();
    c.certificate_path = Some(PathBuf::from("own/cert.der"));
    c.private_key_path = Some(PathBuf::from("private/key.pem"));
    c.pki_dir = PathBuf::from("pki");
    c.discovery_server_url = Some("opc.tcp://localhost:4840/".into());
    c.tcp_config.host = "localhost".into();
    c.locale_ids = vec!["en".into(), "de".into()];
    c.discovery_urls = vec!["opc.tcp://localhost:4855/".into()];
    c.user_tokens.insert("tokA".into(), ServerUserToken { user: "alice".into(), pass: Some("secret".into()), x509: None, thumbprint: None });
    c.user_tokens.insert("tokB".into(), ServerUserToken { user: "bob".into(), pass: None, x509: Some("users/bob.der".into()), thumbprint: None });
    let ids: BTreeSet<String> = ["ANONYMOUS", "tokA", "tokB"].iter().map(|s| s.to_string()).collect();
    c.endpoints.insert(
        "ep1".into(),
        ServerEndpoint {
            path: "/".into(),
            security_policy: "Basic256Sha256".into(),
            security_mode: "SignAndEncrypt".into(),
            security_level: 3,
            password_security_policy: Some("Basic256Sha256".into()),
            user_token_ids: ids,
        },
    );
    c.default_endpoint = Some("ep1".into());
    serde_yaml::to_value(c).unwrap()
}

fn base_client_doc() -> Value {
    let u = |n: u64| Value::Number(n.into());
    let d = |secs: u64| map(vec![("secs", u(secs)), ("nanos", u(0))]);
    let mut toks = serde_yaml::Mapping::new();
    toks.insert(s("tokA"), map(vec![("user", s("alice")), ("password", s("secret"))]));
    toks.insert(s("tokB"), map(vec![("user", s("bob")), ("cert_path", s("bob.der")), ("private_key_path", s("bob.pem"))]));
    let mut eps = serde_yaml::Mapping::new();
    eps.insert(s("ep1"), map(vec![("url", s("opc.tcp://localhost:4855/")), ("security_policy", s("None")), ("security_mode", s("None")), ("user_token_id", s("tokA"))]));
    map(vec![
        ("application_name", s("app")),
        ("application_uri", s("urn:app")),
        ("product_uri", s("urn:product")),
        ("create_sample_keypair", Value::Bool(true)),
        ("certificate_path", s("own/cert.der")),
        ("private_key_path", s("private/key.pem")),
        ("trust_server_certs", Value::Bool(false)),
        ("verify_server_certs", Value::Bool(true)),
        ("pki_dir", s("pki")),
        ("preferred_locales", Value::Sequence(vec![s("en"), s("de")])),
        ("default_endpoint", s("ep1")),
        ("user_tokens", Value::Mapping(toks)),
        ("endpoints", Value::Mapping(eps)),
        (
            "decoding_options",
            map(vec![
                ("max_message_size", u(327675)),
                ("max_chunk_count", u(5)),
                ("max_chunk_size", u(65535)),
                ("max_incoming_chunk_size", u(65535)),
                ("max_string_length", u(65535)),
                ("max_byte_string_length", u(65535)),
                ("max_array_length", u(1000)),
            ]),
        ),
        ("session_retry_limit", u(10)),
        ("session_retry_initial", d(1)),
        ("session_retry_max", d(30)),
        ("keep_alive_interval", d(10)),
        ("request_timeout", d(60)),
        ("publish_timeout", d(60)),
        ("min_publish_interval", d(1)),
        ("max_inflight_publish", u(2)),
        ("session_timeout", u(60000)),
        ("performance", map(vec![("ignore_clock_skew", Value::Bool(false)), ("recreate_monitored_items_chunk", u(1000)), ("max_inflight_messages", u(20))])),
        ("session_name", s("Rust OPC UA Client")),
    ])
}

/// a string site: a string leaf (path of keys / indices), or a key of the `user_tokens` / `endpoints` maps
#[derive(Clone, Debug)]
enum Site {
    Leaf(Vec<Value>),
    Key(Vec<Value>, String),
}

fn sites(v: &Value, path: &mut Vec<Value>, out: &mut Vec<Site>) {
    match v {
        Value::String(_) => out.push(Site::Leaf(path.clone())),
        Value::Sequence(a) => {
            for (i, x) in a.iter().enumerate() {
                path.push(Value::Number((i as u64).into()));
                sites(x, path, out);
                path.pop();
            }
        }
        Value::Mapping(m) => {
            let keyed = matches!(path.last(), Some(Value::String(k)) if k == "user_tokens" || k == "endpoints");
            for (k, x) in m {
                if keyed {
                    out.push(Site::Key(path.clone(), k.as_str().unwrap_or("").to_string()));
                }
                path.push(k.clone());
                sites(x, path, out);
                path.pop();
            }
        }
        _ => {}
    }
}

fn at_path<'a>(v: &'a mut Value, path: &[Value]) -> Option<&'a mut Value> {
    let mut x = v;
    for p in path {
        x = match (x, p) {
            (Value::Mapping(m), k) => m.get_mut(k)?,
            (Value::Sequence(a), Value::Number(n)) => a.get_mut(n.as_u64()? as usize)?,
            _ => return None,
        };
    }
    Some(x)
}

/// every string equal to `old` at a reference position (default endpoint, token ids) becomes `new`
fn rename_refs(v: &mut Value, old: &str, new: &str, under_ref: bool) {
    match v {
        Value::String(x) if under_ref && x == old => *x = new.to_string(),
        Value::Sequence(a) => a.iter_mut().for_each(|x| rename_refs(x, old, new, under_ref)),
        Value::Mapping(m) => {
            for (k, x) in m.iter_mut() {
                let r = matches!(k.as_str(), Some("default_endpoint") | Some("user_token_ids") | Some("user_token_id"));
                rename_refs(x, old, new, r);
            }
        }
        _ => {}
    }
}

fn apply_site(base: &Value, site: &Site, text: &str) -> Option<Value> {
    let mut v = base.clone();
    match site {
        Site::Leaf(p) => *at_path(&mut v, p)? = Value::String(text.to_string()),
        Site::Key(p, old) => {
            let which = p.last()?.as_str()?.to_string();
            if let Value::Mapping(m) = at_path(&mut v, p)? {
                if m.contains_key(&Value::String(text.to_string())) {
                    return None;
                }
                // keep the position of the entry
                let entries: Vec<(Value, Value)> = m.iter().map(|(k, x)| (k.clone(), x.clone())).collect();
                m.clear();
                for (k, x) in entries {
                    let k2 = if k.as_str() == Some(old.as_str()) { Value::String(text.to_string()) } else { k };
                    m.insert(k2, x);
                }
            }
            // references follow the renamed key (token ids for `user_tokens`, default endpoint for `endpoints`)
            let _ = which;
            rename_refs(&mut v, old, text, false);
        }
    }
    Some(v)
}

fn exhaustive_ops() -> Vec<String> {
    let mut out = vec![];
    for (side, base) in [("server", base_server_doc()), ("client", base_client_doc())] {
        let mut ss = vec![];
        sites(&base, &mut vec![], &mut ss);
        for site in &ss {
            for text in SPECIAL {
                if let Some(v) = apply_site(&base, site, text) {
                    out.push(format!("cfg {} {}", side, tree_out(&doc_tree(&v))));
                }
            }
        }
    }
    out
}

/// all Option fields None / all Some, empty maps and lists
fn shape_ops() -> Vec<String> {
    let mut out = vec![];
    for (side, base) in [("server", base_server_doc()), ("client", base_client_doc())] {
        out.push(format!("cfg {} {}", side, tree_out(&doc_tree(&base))));
        // every Option<String>/Option<PathBuf> None (as `null`) and (for skip_serializing_if fields) absent
        let mut v = base.clone();
        for k in ["certificate_path", "private_key_path", "discovery_server_url", "default_endpoint"] {
            if let Value::Mapping(m) = &mut v {
                if m.contains_key(&s(k)) && !(side == "client" && k == "default_endpoint") {
                    m.insert(s(k), Value::Null);
                }
            }
        }
        if let Some(Value::Mapping(eps)) = at_path(&mut v, &[s("endpoints")]) {
            for (_, e) in eps.iter_mut() {
                if let Value::Mapping(e) = e {
                    if e.contains_key(&s("password_security_policy")) {
                        e.insert(s("password_security_policy"), Value::Null);
                    }
                    e.remove(&s("user_token_id"));
                }
            }
        }
        out.push(format!("cfg {} {}", side, tree_out(&doc_tree(&v))));
        // empty maps and lists wherever the configuration stays loadable
        let mut v = base.clone();
        for k in ["user_tokens", "locale_ids", "preferred_locales"] {
            if let Value::Mapping(m) = &mut v {
                if let Some(x) = m.get_mut(&s(k)) {
                    *x = if x.is_mapping() { Value::Mapping(Default::default()) } else { Value::Sequence(vec![]) };
                }
            }
        }
        rename_refs(&mut v, "tokA", "ANONYMOUS", false);
        rename_refs(&mut v, "tokB", "ANONYMOUS", false);
        out.push(format!("cfg {} {}", side, tree_out(&doc_tree(&v))));
        let mut v2 = v.clone();
        if let Value::Mapping(m) = &mut v2 {
            m.insert(s("endpoints"), Value::Mapping(Default::default()));
            m.insert(s("default_endpoint"), if side == "client" { s("") } else { Value::Null });
            if side == "server" {
                m.insert(s("discovery_urls"), Value::Sequence(vec![]));
            }
        }
        out.push(format!("cfg {} {}", side, tree_out(&doc_tree(&v2))));
    }
    out
}


/// strings put at EVERY string site in the quick tier too: one of every class the model tags
/// (empty, blank, YAML-looking, multi-line, non-BMP, long) and a few more YAML look-alikes
fn quick_special() -> Vec<String> {
    let mut v: Vec<String> = ["", " ", "~", "null", "a\nb", "😀", " lead", "- a", "123", ": "].iter().map(|s| s.to_string()).collect();
    v.push("x".repeat(300));
    v
}

/// every optional field on its own: `null`, and (where the key may be left out) absent
fn option_ops() -> Vec<String> {
    let opt_keys = [
        "certificate_path", "private_key_path", "discovery_server_url", "default_endpoint", "password_security_policy", "pass", "x509", "password",
        "cert_path", "user_token_id",
    ];
    fn walk(v: &Value, path: &mut Vec<Value>, keys: &[&str], out: &mut Vec<Vec<Value>>) {
        match v {
            Value::Mapping(m) => {
                for (k, x) in m {
                    path.push(k.clone());
                    if k.as_str().map(|k| keys.contains(&k)).unwrap_or(false) {
                        out.push(path.clone());
                    }
                    walk(x, path, keys, out);
                    path.pop();
                }
            }
            Value::Sequence(a) => {
                for (i, x) in a.iter().enumerate() {
                    path.push(Value::Number((i as u64).into()));
                    walk(x, path, keys, out);
                    path.pop();
                }
            }
            _ => {}
        }
    }
    let mut out = vec![];
    for (side, base) in [("server", base_server_doc()), ("client", base_client_doc())] {
        let mut ps = vec![];
        walk(&base, &mut vec![], &opt_keys, &mut ps);
        // the client token's private_key_path goes with its cert_path
        for p in ps {
            let mut v = base.clone();
            if let Some(x) = at_path(&mut v, &p) {
                *x = Value::Null;
            }
            out.push(format!("cfg {} {}", side, tree_out(&doc_tree(&v))));
            let mut v = base.clone();
            let (last, parent) = p.split_last().unwrap();
            if let Some(Value::Mapping(m)) = at_path(&mut v, parent) {
                m.remove(last);
                if last.as_str() == Some("cert_path") {
                    m.remove(&s("private_key_path"));
                    m.insert(s("password"), s(""));
                }
            }
            out.push(format!("cfg {} {}", side, tree_out(&doc_tree(&v))));
        }
    }
    out
}

/// documents of every kind, with the integer limits of every width and their neighbours
fn kind_docs() -> Vec<T> {
    let mut v = vec![leaf("n"), leaf("t"), leaf("f")];
    for z in [
        0i128, 1, -1, 255, 256, 65535, 65536, 4294967295, 4294967296, 2147483647, 2147483648, -2147483648, -2147483649, u64::MAX as i128,
        i64::MIN as i128,
    ] {
        v.push(leaf(format!("i{}", z)));
    }
    for f in [1.5f64, 0.0, f64::NAN, f64::INFINITY, 3.0] {
        v.push(leaf(format!("d{:016x}", f.to_bits())));
    }
    v.push(leaf(shex("")));
    v.push(leaf(shex("x")));
    v.push(T("a".into(), vec![]));
    v.push(T("a".into(), vec![leaf(shex("b")), leaf(shex("a")), leaf(shex("b"))]));
    v.push(T("a".into(), vec![leaf("i1")]));
    v.push(T("o".into(), vec![]));
    let dur = |secs: &str, nanos: &str| T("o".into(), vec![leaf(shex("secs")), leaf(secs), leaf(shex("nanos")), leaf(nanos)]);
    v.push(dur("i1", "i0"));
    v.push(dur("i1", "i999999999"));
    v.push(dur("i1", "i2000000001"));
    v.push(dur("i18446744073709551615", "i1000000000"));
    v.push(dur("i18446744073709551615", "i999999999"));
    v.push(dur("i1", "i4294967295"));
    v.push(dur("i1", "i4294967296"));
    v.push(dur("i0", "i1000000000"));
    v.push(dur("i18446744073709551614", "i1999999999"));
    v.push(dur("i-1", "i0"));
    v.push(dur(&shex("1"), "i0"));
    v.push(T("o".into(), vec![leaf(shex("secs")), leaf("i1")]));
    v.push(T("o".into(), vec![leaf(shex("nanos")), leaf("i1")]));
    v.push(T("o".into(), vec![leaf(shex("secs")), leaf("i1"), leaf(shex("nanos")), leaf("i1"), leaf(shex("x")), leaf("i1")]));
    v
}

/// every node of the base documents (thorough) / one field of every type (quick) replaced by every `kind_docs` document
fn kind_matrix_ops(all: bool) -> Vec<String> {
    let quick_fields = [
        "port", "security_level", "hello_timeout", "session_timeout", "max_array_length", "session_retry_limit", "min_sampling_interval",
        "create_sample_keypair", "application_name", "certificate_path", "locale_ids", "preferred_locales", "user_token_ids", "user_tokens",
        "endpoints", "ep1", "tokA", "session_retry_initial", "tcp_config", "limits", "decoding_options", "performance", "discovery_urls",
    ];
    let mut out = vec![];
    for (side, base) in [("server", base_server_doc()), ("client", base_client_doc())] {
        let t = doc_tree(&base);
        let mut ps = vec![];
        paths(&t, &mut vec![], &mut ps);
        for p in ps {
            if p.is_empty() {
                continue;
            }
            // name of the key leading to this node
            let mut key = String::new();
            {
                let mut x = &t;
                for i in &p {
                    if x.0 == "o" {
                        key = sunhex(&x.1[*i - 1].0).unwrap_or_default();
                    }
                    x = &x.1[*i];
                }
            }
            if !all && !quick_fields.contains(&key.as_str()) {
                continue;
            }
            for d in kind_docs() {
                let mut t2 = t.clone();
                let nan = d.0 == format!("d{:016x}", f64::NAN.to_bits());
                *at(&mut t2, &p) = d;
                if nan {
                    // NaN != NaN under the derived PartialEq: keep such a configuration invalid (never saved)
                    if let Some(i) = t2.1.iter().position(|k| k.0 == shex("endpoints")) {
                        t2.1[i + 1] = T("o".into(), vec![]);
                    }
                    if let Some(i) = t2.1.iter().position(|k| k.0 == shex("application_name")) {
                        t2.1[i + 1] = leaf(shex(""));
                    }
                }
                out.push(format!("cfg {} {}", side, tree_out(&t2)));
            }
        }
        // the top level itself
        for d in [leaf("n"), T("a".into(), vec![]), T("o".into(), vec![]), leaf(shex("x"))] {
            out.push(format!("cfg {} {}", side, tree_out(&d)));
        }
    }
    out
}

impl Prop for C41 {
    fn id(&self) -> &'static str {
        "C41"
    }

    fn gen(&self, rng: &mut Rng, n: usize, tier: Tier, out: &mut Vec<String>) {
        for op in shape_ops() {
            out.push("reset".into());
            out.push(op);
        }
        for op in option_ops() {
            out.push("reset".into());
            out.push(op);
        }
        for op in kind_matrix_ops(tier == Tier::Thorough) {
            out.push("reset".into());
            out.push(op);
        }
        // every string site x the quick specials (every tier); thorough: x EVERY special string; quick: plus a random
        // twentieth of the rest
        let quick: Vec<String> = quick_special();
        for (side, base) in [("server", base_server_doc()), ("client", base_client_doc())] {
            let mut ss = vec![];
            sites(&base, &mut vec![], &mut ss);
            for site in &ss {
                for text in &quick {
                    if let Some(v) = apply_site(&base, site, text) {
                        out.push("reset".into());
                        out.push(format!("cfg {} {}", side, tree_out(&doc_tree(&v))));
                    }
                }
            }
        }
        for op in exhaustive_ops() {
            if tier == Tier::Thorough || rng.chance(1, 20) {
                out.push("reset".into());
                out.push(op);
            }
        }
        for _ in 0..n {
            out.push("reset".into());
            let (side, v) = if rng.chance(1, 2) {
                ("server", serde_yaml::to_value(gen_server(rng)).unwrap())
            } else {
                ("client", gen_client_doc(rng))
            };
            let mut t = doc_tree(&v);
            // two thirds stay valid configurations (the property); the rest exercises the loader's error paths
            if rng.chance(1, 3) {
                for _ in 0..rng.range(1, 2) {
                    mutate_doc(rng, &mut t);
                }
            } else if rng.chance(1, 4) {
                // harmless: reorder the top-level keys (a file edited by hand)
                let n = t.1.len();
                if n >= 4 {
                    let last = t.1.split_off(n - 2);
                    let mut new = last;
                    new.append(&mut t.1);
                    t.1 = new;
                }
            }
            out.push(format!("cfg {} {}", side, tree_out(&t)));
        }
    }

    fn runner(&self) -> Box<dyn Runner> {
        Box::new(R)
    }
}

struct R;

impl Runner for R {
    fn step(&mut self, toks: &[&str]) -> (String, Verdict) {
        let bad = || ("bad-op".to_string(), Verdict::Ok);
        match toks {
            ["reset"] => ("ok".into(), Verdict::Ok),
            ["cfg", side, d] => {
                let Some(doc) = tree_of(d).and_then(|t| doc_of(&t)) else { return bad() };
                match *side {
                    "server" => run::<ServerConfig>(doc, "server"),
                    "client" => run::<ClientConfig>(doc, "client"),
                    _ => bad(),
                }
            }
            _ => bad(),
        }
    }
}
