//! C16 — encrypted user passwords round-trip, bind to the nonce, and never crash.
//!
//! Real code: `user_identity::legacy_password_encrypt` / `legacy_password_decrypt`,
//! `PublicKey::public_encrypt` (for crafted plaintexts), real RSA keys of 1024/2048/4096 bits from
//! `X509::cert_and_pkey` (generated once per process), all three encryption paddings.
//! Oracle: the property's three sentences on the implementation's results alone.
use crate::common::*;
use opcua::crypto::user_identity::{
    decrypt_user_identity_token_password, legacy_password_decrypt, legacy_password_encrypt, make_user_name_identity_token,
};
use opcua::crypto::SecurityPolicy;
use opcua::types::service_types::UserTokenPolicy;
use opcua::types::{UAString, UserTokenType};
use opcua::crypto::x509::{X509Data, X509};
use opcua::crypto::{KeySize, PrivateKey, RsaPadding};
use opcua::types::ByteString;
use std::sync::OnceLock;

pub struct C16;
pub static P: C16 = C16;

struct KeyPair {
    cert: X509,
    pkey: PrivateKey,
}
unsafe impl Sync for KeyPair {}
unsafe impl Send for KeyPair {}

fn make_key(bits: u32) -> KeyPair {
    let data = X509Data {
        key_size: bits,
        common_name: "verif".to_string(),
        organization: "verif".to_string(),
        organizational_unit: "verif".to_string(),
        country: "IE".to_string(),
        state: "Dublin".to_string(),
        alt_host_names: vec!["urn:verif".to_string(), "localhost".to_string()],
        certificate_duration_days: 60,
    };
    let (cert, pkey) = X509::cert_and_pkey(&data).expect("key generation");
    KeyPair { cert, pkey }
}

/// one key pair per size, generated on first use and kept for the life of the process
fn key(bits: u32) -> Option<&'static KeyPair> {
    static K1: OnceLock<KeyPair> = OnceLock::new();
    static K2: OnceLock<KeyPair> = OnceLock::new();
    static K4: OnceLock<KeyPair> = OnceLock::new();
    match bits {
        1024 => Some(K1.get_or_init(|| make_key(1024))),
        2048 => Some(K2.get_or_init(|| make_key(2048))),
        4096 => Some(K4.get_or_init(|| make_key(4096))),
        _ => None,
    }
}

fn padding(s: &str) -> Option<RsaPadding> {
    Some(match s {
        "pkcs1" => RsaPadding::Pkcs1,
        "oaep" => RsaPadding::OaepSha1,
        "oaep256" => RsaPadding::OaepSha256,
        "pss" => RsaPadding::Pkcs1Pss,
        _ => return None,
    })
}

const TOKEN_POLICIES: [&str; 6] = ["none", "basic128rsa15", "basic256", "basic256sha256", "aes128sha256rsaoaep", "aes256sha256rsapss"];

fn sec_policy(s: &str) -> Option<SecurityPolicy> {
    Some(match s {
        "none" => SecurityPolicy::None,
        "basic128rsa15" => SecurityPolicy::Basic128Rsa15,
        "basic256" => SecurityPolicy::Basic256,
        "basic256sha256" => SecurityPolicy::Basic256Sha256,
        "aes128sha256rsaoaep" => SecurityPolicy::Aes128Sha256RsaOaep,
        "aes256sha256rsapss" => SecurityPolicy::Aes256Sha256RsaPss,
        "unknown" => SecurityPolicy::Unknown,
        _ => return None,
    })
}

fn alg_uri(a: &str) -> Option<UAString> {
    Some(match a {
        "-" => UAString::null(),
        "rsa15" => UAString::from("http://www.w3.org/2001/04/xmlenc#rsa-1_5"),
        "rsaoaep" => UAString::from("http://www.w3.org/2001/04/xmlenc#rsa-oaep"),
        "rsaoaep256" => UAString::from("http://opcfoundation.org/UA/security/rsa-oaep-sha2-256"),
        "other" => UAString::from("http://example.org/unknown-algorithm"),
        _ => return None,
    })
}

fn alg_padding(a: &str) -> Option<&'static str> {
    match a {
        "rsa15" => Some("pkcs1"),
        "rsaoaep" => Some("oaep"),
        "rsaoaep256" => Some("oaep256"),
        _ => None,
    }
}

/// byte strings at every boundary of UTF-8 well-formedness (Unicode Table 3-7)
const UTF8_BOUNDARIES: [&[u8]; 34] = [
    &[0x00], &[0x7f], &[0x80], &[0xbf], &[0xc0, 0x80], &[0xc1, 0xbf], &[0xc2, 0x80], &[0xdf, 0xbf], &[0xc2, 0x7f], &[0xc2, 0xc0], &[0xc2],
    &[0xe0, 0x9f, 0xbf], &[0xe0, 0xa0, 0x80], &[0xe0, 0xbf, 0xbf], &[0xe1, 0x80, 0x80], &[0xe1, 0x80, 0x7f], &[0xe1, 0x80], &[0xe1],
    &[0xed, 0x9f, 0xbf], &[0xed, 0xa0, 0x80], &[0xee, 0x80, 0x80], &[0xef, 0xbf, 0xbf], &[0xec, 0xc0, 0x80],
    &[0xf0, 0x8f, 0xbf, 0xbf], &[0xf0, 0x90, 0x80, 0x80], &[0xf1, 0x80, 0x80, 0x80], &[0xf3, 0xbf, 0xbf, 0xbf], &[0xf4, 0x8f, 0xbf, 0xbf],
    &[0xf4, 0x90, 0x80, 0x80], &[0xf5, 0x80, 0x80, 0x80], &[0xff], &[0xf1, 0x80, 0x80], &[0xf1, 0x80, 0x80, 0x7f], &[0xf1, 0x80, 0xc0, 0x80],
];

fn framed(body: &[u8]) -> Vec<u8> {
    let mut p = le32(body.len() as u32);
    p.extend_from_slice(body);
    p
}

/// Deterministic small-scope enumeration: every branch and boundary of the framing / block logic for
/// every padding and key size, every row of the token policy table, every algorithm label.
fn systematic(out: &mut Vec<String>) {
    let n8: Vec<u8> = (1..=8u8).collect();
    for (bi, bits) in [1024usize, 2048, 4096].iter().enumerate() {
        for pad in ["pkcs1", "oaep", "oaep256"] {
            let ks = bits / 8;
            let b = ks - overhead(pad);
            out.push(format!("reset {} {}", bits, pad));
            // block boundaries of the plaintext (4 + |pw| + |nonce| = b-1, b, b+1, 2b-1, 2b, 2b+1, 3b)
            for total in [b - 1, b, b + 1, 2 * b - 1, 2 * b, 2 * b + 1, 3 * b] {
                if *bits == 4096 && total > 2 * b {
                    continue;
                }
                let pw = "a".repeat(total - 4 - n8.len());
                out.push(format!("rt s{} x{} x{}", hex(pw.as_bytes()), hex(&n8), hex(&n8)));
            }
            // nonce relations
            let pw = b"pw";
            out.push(format!("rt s{} x{} x{}", hex(pw), hex(&n8), hex(&[1, 2, 3, 4, 5, 6, 7, 9])));
            out.push(format!("rt s{} x{} x{}", hex(pw), hex(&n8), hex(&n8[4..])));
            out.push(format!("rt s{} x{} x", hex(pw), hex(&n8)));
            out.push(format!("rt s{} x{} x{}", hex(pw), hex(&n8), hex(&[b'w', 1, 2, 3, 4, 5, 6, 7, 8])));
            out.push(format!("rt s{} x{} x{}", hex(pw), hex(&n8), hex(&[0, 0, b'p', b'w', 1, 2, 3, 4, 5, 6, 7, 8])));
            out.push(format!("rt s{} x{} x{}", hex(pw), hex(&n8), hex(&[9u8; 20])));
            out.push(format!("rt s{} x{} x{}", hex(pw), hex(&n8), hex(&[9u8; 3])));
            out.push(format!("rt s x x"));
            out.push(format!("rt s x{} x{}", hex(&n8), hex(&n8)));
            out.push(format!("reset {} {}", bits, pad));
            // framing: declared size vs actual size, nonce length vs declared size
            let body: Vec<u8> = [b"pass".as_ref(), &n8].concat();
            for delta in [-5i64, -1, 1, 5] {
                let mut p = le32((body.len() as i64 + delta) as u32);
                p.extend_from_slice(&body);
                out.push(format!("craft x{} x{}", hex(&p), hex(&n8)));
            }
            for l in 0..=5usize {
                out.push(format!("craft x{} x", hex(&vec![0u8; l])));
            }
            out.push(format!("craft x{} x{}", hex(&framed(&n8)), hex(&n8))); // nonce = whole body
            let n9: Vec<u8> = [&[0u8][..], &n8].concat();
            out.push(format!("craft x{} x{}", hex(&framed(&n8)), hex(&n9))); // one longer
            out.push(format!("craft x{} x{}", hex(&framed(&n8)), hex(&[7u8; 30])));
            out.push(format!("craft x{} x", hex(&framed(&[]))));
            out.push(format!("craft x{} x{}", hex(&framed(&[])), hex(&[0u8]))); // overlaps the prefix
            out.push(format!("craft x{} x{}", hex(&framed(&[7, 8])), hex(&[0, 0, 7, 8])));
            // raw: block counts and lengths around the key size
            out.push(format!("reset {} {}", bits, pad));
            for l in [0usize, 1, ks - 1, ks, ks + 1, 2 * ks, 2 * ks + 1, 3 * ks] {
                out.push(format!("raw x{} x{}", hex(&vec![0x5au8; l]), hex(&n8)));
            }
            out.push(format!("raw - x{}", hex(&n8)));
            for kind in ["trunc", "extend", "flip", "dropblock", "dupblock", "swap"] {
                let pw = "b".repeat(b + 10); // two blocks
                out.push(format!("mut {} 5 s{} x{}", kind, hex(pw.as_bytes()), hex(&n8)));
            }
            if bi == 0 && pad == "pkcs1" {
                // UTF-8 boundaries, as the password of a well-formed plaintext and as a plain-text token
                out.push(format!("reset {} {}", bits, pad));
                for u in UTF8_BOUNDARIES {
                    for (pre, post) in [(&b""[..], &b""[..]), (&b"a"[..], &b"z"[..])] {
                        let body: Vec<u8> = [pre, u, post, &n8].concat();
                        out.push(format!("craft x{} x{}", hex(&framed(&body)), hex(&n8)));
                        let field: Vec<u8> = [pre, u, post].concat();
                        out.push(format!("dtok - plain x{} x", hex(&field)));
                    }
                }
            }
        }
    }
    // the token layer: every channel policy × every user token policy
    let pols = ["none", "basic128rsa15", "basic256", "basic256sha256", "aes128sha256rsaoaep", "aes256sha256rsapss"];
    out.push("reset 2048 oaep".to_string());
    for chan in pols {
        for tp in ["-", "none", "basic128rsa15", "basic256", "basic256sha256", "aes128sha256rsaoaep", "aes256sha256rsapss", "bogus"] {
            out.push(format!("tok {} {} s70c3a4737377c3b67264 x{}", chan, tp, hex(&n8)));
        }
    }
    // the server side on its own: every algorithm label × how the password was really encrypted
    for bits in [1024, 2048] {
        out.push(format!("reset {} oaep", bits));
        for alg in ["rsa15", "rsaoaep", "rsaoaep256", "other"] {
            for epad in ["pkcs1", "oaep", "oaep256"] {
                out.push(format!("dtok {} enc {} s70617373 x{}", alg, epad, hex(&n8)));
            }
            out.push(format!("dtok {} plain - x{}", alg, hex(&n8)));
            out.push(format!("dtok {} plain x x{}", alg, hex(&n8)));
            out.push(format!("dtok {} plain x{} x{}", alg, hex(&vec![0x11u8; bits / 8]), hex(&n8)));
            out.push(format!("dtok {} plain x{} x{}", alg, hex(&vec![0x11u8; bits / 8 - 1]), hex(&n8)));
        }
        out.push("dtok - plain - x".to_string());
        out.push("dtok - plain x x0102".to_string());
        out.push("dtok - plain x70617373 x0102".to_string());
        out.push("dtok - plain xff x0102".to_string());
    }
    // by-design panics (outside the property): signature padding, Unknown channel policy with an empty token policy
    out.push("reset 2048 pss".to_string());
    out.push("rt s70 x01 x01".to_string());
    out.push("reset 2048 oaep".to_string());
    out.push("tok unknown - s70 x01".to_string());
}

fn overhead(pad: &str) -> usize {
    match pad {
        "pkcs1" => 11,
        "oaep" => 42,
        _ => 66,
    }
}

// ---------------------------------------------------------------------------------------------
// generators

fn rand_char(rng: &mut Rng) -> char {
    let cp = match rng.weighted(&[10, 3, 3, 3, 2]) {
        0 => rng.range(0x20, 0x7e) as u32,
        1 => *rng.pick(&[0u32, 1, 0x7f, 0x80, 0x7ff, 0x800, 0xffff, 0x10000, 0x10ffff, 0xd7ff, 0xe000, 0xfffd]),
        2 => rng.range(0x80, 0x7ff) as u32,
        3 => rng.range(0x800, 0xffff) as u32,
        _ => rng.range(0x10000, 0x10ffff) as u32,
    };
    char::from_u32(cp).unwrap_or('\u{fffd}')
}

fn password(rng: &mut Rng, tier: Tier, block: usize) -> String {
    let target = match rng.weighted(&[2, 6, 3, 2, 1]) {
        0 => 0,
        1 => rng.below(40) as usize,
        // around one RSA block (4-byte prefix + 32-byte nonce + password ≈ block)
        2 => (block as i64 - 36 + rng.range(-3, 3)).max(0) as usize,
        3 => rng.below(if tier == Tier::Thorough { 513 } else { 300 }) as usize,
        _ => 512,
    };
    let mut s = String::new();
    let ascii_only = rng.chance(1, 3);
    while s.len() < target {
        let c = if ascii_only { rng.range(0x20, 0x7e) as u8 as char } else { rand_char(rng) };
        if s.len() + c.len_utf8() > target {
            if s.len() + 1 <= target {
                s.push('x');
            }
            continue;
        }
        s.push(c);
    }
    s
}

fn nonce(rng: &mut Rng) -> Vec<u8> {
    let len = match rng.weighted(&[6, 2, 2]) {
        0 => 32,
        1 => *rng.pick(&[0usize, 1, 4, 8, 16, 31, 33, 63, 64]),
        _ => rng.below(65) as usize,
    };
    match rng.weighted(&[6, 1, 1]) {
        0 => rng.bytes(len),
        1 => vec![0u8; len],
        _ => {
            let b = rng.next() as u8;
            vec![b; len]
        }
    }
}

fn le32(n: u32) -> Vec<u8> {
    n.to_le_bytes().to_vec()
}

impl Prop for C16 {
    fn id(&self) -> &'static str {
        "C16"
    }

    fn gen(&self, rng: &mut Rng, n: usize, tier: Tier, out: &mut Vec<String>) {
        systematic(out);
        for _ in 0..n {
            // 4096-bit keys are slow to generate and to use: rarer in the quick tier
            let bits = match rng.weighted(&if tier == Tier::Thorough { [3, 4, 3] } else { [5, 4, 1] }) {
                0 => 1024usize,
                1 => 2048,
                _ => 4096,
            };
            let ks = bits / 8;
            let pad = *rng.pick(&["pkcs1", "oaep", "oaep256"]);
            let block = ks - overhead(pad);
            out.push(format!("reset {} {}", bits, pad));
            let k = rng.range(1, 4);
            for _ in 0..k {
                match rng.weighted(&[10, 6, 4, 3, 4]) {
                    0 => {
                        // encrypt with n1, decrypt with n2
                        let pw = password(rng, tier, block);
                        let n1 = nonce(rng);
                        let mut whole = pw.as_bytes().to_vec();
                        whole.extend_from_slice(&n1);
                        let n2 = match rng.weighted(&[10, 4, 3, 2, 2, 2, 1]) {
                            0 => n1.clone(),
                            1 => {
                                // same length, one bit different
                                let mut x = n1.clone();
                                if x.is_empty() {
                                    vec![0]
                                } else {
                                    let i = rng.below(x.len() as u64) as usize;
                                    x[i] ^= 1 << rng.below(8);
                                    x
                                }
                            }
                            2 => {
                                // proper suffix of the nonce (format-inherent ambiguity)
                                if n1.is_empty() {
                                    vec![]
                                } else {
                                    let keep = rng.range(0, n1.len() as i64 - 1) as usize;
                                    n1[n1.len() - keep..].to_vec()
                                }
                            }
                            3 => {
                                // tail of password ‖ nonce reaching into the password
                                let take = (n1.len() + rng.range(1, 6) as usize).min(whole.len());
                                whole[whole.len() - take..].to_vec()
                            }
                            4 => nonce(rng),
                            5 => {
                                // longer than the whole plaintext / reaching into the length prefix
                                let extra = rng.range(1, 8) as usize;
                                let mut x = vec![0u8; extra];
                                x.extend_from_slice(&whole);
                                if rng.chance(1, 2) {
                                    // exactly the bytes that precede: the le32 length prefix
                                    let p = le32(whole.len() as u32);
                                    let l = x.len();
                                    for (i, b) in p.iter().rev().enumerate() {
                                        if i < extra {
                                            x[extra - 1 - i] = *b;
                                        }
                                    }
                                    let _ = l;
                                }
                                x
                            }
                            _ => n1[..n1.len() / 2].to_vec(), // a prefix
                        };
                        out.push(format!("rt s{} x{} x{}", hex(pw.as_bytes()), hex(&n1), hex(&n2)));
                    }
                    1 => {
                        // crafted plaintext, really encrypted with the public key
                        let nn = nonce(rng);
                        let (pt, nn) = match rng.weighted(&[3, 3, 3, 2, 2, 2, 2]) {
                            0 => {
                                // well formed, length field off by delta
                                let pw = password(rng, tier, block);
                                let mut body = pw.as_bytes().to_vec();
                                body.extend_from_slice(&nn);
                                let delta = *rng.pick(&[0i64, 0, 1, -1, 4, -4, 256, 0x7fff_fff0, 0xffff_fffb]);
                                let l = (body.len() as i64 + delta).clamp(0, u32::MAX as i64) as u32;
                                let mut p = le32(l);
                                p.extend(body);
                                (p, nn)
                            }
                            1 => {
                                // tiny plaintexts 0..8 bytes
                                let l = rng.below(9) as usize;
                                let mut p = rng.bytes(l);
                                if l >= 4 && rng.chance(3, 4) {
                                    p[..4].copy_from_slice(&le32((l - 4) as u32));
                                }
                                (p, if rng.chance(1, 2) { nn } else { let k = rng.below(4) as usize; rng.bytes(k) })
                            }
                            2 => {
                                // consistent length, nonce overlapping the length prefix
                                let l = rng.below(6) as usize;
                                let mut p = le32(l as u32);
                                p.extend(rng.bytes(l));
                                let take = (l + rng.range(1, 4) as usize).min(p.len());
                                let nn = p[p.len() - take..].to_vec();
                                (p, nn)
                            }
                            3 => {
                                // consistent length, nonce longer than the whole plaintext
                                let l = rng.below(20) as usize;
                                let mut p = le32(l as u32);
                                p.extend(rng.bytes(l));
                                let extra = rng.range(1, 40) as usize;
                                let nn = rng.bytes(p.len() + extra);
                                (p, nn)
                            }
                            4 => {
                                // invalid UTF-8 password
                                let bad: &[&[u8]] = &[&[0xff], &[0xc0, 0x80], &[0xed, 0xa0, 0x80], &[0xf4, 0x90, 0x80, 0x80], &[0xe2, 0x82], &[0x80], &[0xf0, 0x80, 0x80, 0x80], &[0xc2]];
                                let mut body = b"ab".to_vec();
                                body.extend_from_slice(*rng.pick::<&[u8]>(bad));
                                if rng.chance(1, 2) {
                                    body.extend_from_slice(b"z");
                                }
                                body.extend_from_slice(&nn);
                                let mut p = le32(body.len() as u32);
                                p.extend(body);
                                (p, nn)
                            }
                            5 => {
                                // multi-block boundaries
                                let total = match rng.below(6) {
                                    0 => block - 1,
                                    1 => block,
                                    2 => block + 1,
                                    3 => 2 * block,
                                    4 => 2 * block + 1,
                                    _ => 3 * block - 1,
                                };
                                let body_len = total.saturating_sub(4).max(nn.len());
                                let mut body: Vec<u8> = (0..body_len - nn.len()).map(|_| rng.range(0x20, 0x7e) as u8).collect();
                                body.extend_from_slice(&nn);
                                let mut p = le32(body.len() as u32);
                                p.extend(body);
                                (p, nn)
                            }
                            _ => { let k = rng.below(60) as usize; (rng.bytes(k), nn) }
                        };
                        out.push(format!("craft x{} x{}", hex(&pt), hex(&nn)));
                    }
                    2 => {
                        // raw "ciphertexts"
                        let nn = nonce(rng);
                        if rng.chance(1, 12) {
                            out.push(format!("raw - x{}", hex(&nn)));
                            continue;
                        }
                        let len = match rng.weighted(&[4, 3, 1]) {
                            0 => *rng.pick(&[0usize, 1, 3, 4, 5, ks - 1, ks, ks + 1, 2 * ks - 1, 2 * ks, 2 * ks + 1]),
                            1 => rng.below(3 * ks as u64) as usize,
                            _ => ks * rng.range(1, 3) as usize,
                        };
                        let bytes = match rng.weighted(&[5, 1, 1, 1]) {
                            0 => rng.bytes(len),
                            1 => vec![0u8; len],
                            2 => vec![0xffu8; len],
                            _ => {
                                let mut b = vec![0u8; len];
                                if len > 0 {
                                    b[len - 1] = 1 + rng.below(3) as u8; // tiny numbers: 1, 2, 3
                                }
                                b
                            }
                        };
                        out.push(format!("raw x{} x{}", hex(&bytes), hex(&nn)));
                    }
                    4 => {
                        // the token layer: channel policy × user token policy (empty / a policy / unrecognised)
                        let chan = *rng.pick(&TOKEN_POLICIES);
                        let tp = match rng.weighted(&[3, 6, 1]) {
                            0 => "-",
                            1 => *rng.pick(&TOKEN_POLICIES),
                            _ => "bogus",
                        };
                        let pw = password(rng, tier, block);
                        out.push(format!("tok {} {} s{} x{}", chan, tp, hex(pw.as_bytes()), hex(&nonce(rng))));
                    }
                    _ => {
                        // a real ciphertext, damaged
                        let pw = password(rng, tier, block);
                        let nn = nonce(rng);
                        let (kind, p) = match rng.below(6) {
                            0 => ("trunc", rng.range(1, 20) as u64),
                            1 => ("extend", rng.range(1, 20) as u64),
                            2 => ("flip", rng.below(8 * ks as u64)),
                            3 => ("dropblock", 0),
                            4 => ("dupblock", 0),
                            _ => ("swap", 0),
                        };
                        out.push(format!("mut {} {} s{} x{}", kind, p, hex(pw.as_bytes()), hex(&nn)));
                    }
                }
            }
        }
    }

    fn runner(&self) -> Box<dyn Runner> {
        Box::new(R { bits: 2048, pad: "oaep".to_string() })
    }
}

struct R {
    bits: u32,
    pad: String,
}

fn status_name(e: opcua::types::StatusCode) -> String {
    e.name().to_string()
}

/// canonical result of a decrypt; `detail`: print the status code (deterministic when the RSA layer is known to succeed)
fn show_dec(detail: bool, clen: usize, r: &Result<String, opcua::types::StatusCode>) -> String {
    match r {
        Ok(pw) => format!("ok {} ok s{}", clen, hex(pw.as_bytes())),
        Err(e) if detail => format!("ok {} err {}", clen, status_name(*e)),
        Err(_) => format!("ok {} err", clen),
    }
}

fn mutate(ks: usize, kind: &str, p: usize, c: &[u8]) -> Option<Vec<u8>> {
    let mut c = c.to_vec();
    match kind {
        "trunc" => c.truncate(c.len().saturating_sub(p)),
        "extend" => c.extend(vec![0u8; p]),
        "flip" => {
            let i = p % (8 * c.len());
            c[i / 8] ^= 1 << (i % 8);
        }
        "dropblock" => c.truncate(c.len().saturating_sub(ks)),
        "dupblock" => {
            let tail = c[c.len() - ks..].to_vec();
            c.extend(tail)
        }
        "swap" => c.rotate_left(ks),
        _ => return None,
    }
    Some(c)
}

impl R {
    /// input class of a decrypt (for findings): computed from the inputs only
    fn class_of_plain(pt: &[u8], nonce: &[u8]) -> &'static str {
        if pt.len() >= 4 {
            let l = u32::from_le_bytes([pt[0], pt[1], pt[2], pt[3]]) as usize;
            if l + 4 == pt.len() {
                if nonce.len() > pt.len() {
                    return "nonce-longer-than-plaintext";
                }
                if nonce.len() > l {
                    return "nonce-overlaps-length-prefix";
                }
            }
        }
        "-"
    }
}

impl Runner for R {
    fn step(&mut self, toks: &[&str]) -> (String, Verdict) {
        let bad = || ("bad-op".to_string(), Verdict::Ok);
        match toks {
            ["reset", bits, pad] => {
                let (Ok(bits), Some(_)) = (bits.parse::<u32>(), padding(pad)) else { return bad() };
                if key(bits).is_none() {
                    return bad();
                }
                self.bits = bits;
                self.pad = pad.to_string();
                ("ok".to_string(), Verdict::Ok)
            }
            ["rt", pw, n1, n2] => {
                let (Some(pwb), Some(n1), Some(n2)) = (unhex(&pw[1..]), unhex(n1), unhex(n2)) else { return bad() };
                let Ok(pw) = String::from_utf8(pwb.clone()) else { return bad() };
                let k = key(self.bits).unwrap();
                let pad = padding(&self.pad).unwrap();
                let secret = match legacy_password_encrypt(&pw, &n1, &k.cert, pad) {
                    Ok(s) => s,
                    Err(e) => return (format!("err enc {}", status_name(e)), Verdict::fail("roundtrip", "rt", "encryption failed")),
                };
                let clen = secret.value.as_ref().map(|v| v.len()).unwrap_or(0);
                let dec = legacy_password_decrypt(&secret, &n2, &k.pkey, pad);
                let res = show_dec(true, clen, &dec);
                let v = if n1 == n2 {
                    match &dec {
                        Ok(p) if *p == pw => Verdict::Ok,
                        Ok(_) => Verdict::fail("roundtrip", "rt", "decrypted to a different password"),
                        Err(e) => Verdict::fail("roundtrip", "rt", format!("same nonce, decrypt failed: {}", e)),
                    }
                } else {
                    match &dec {
                        Err(_) => Verdict::Ok,
                        Ok(_) => {
                            let mut whole = pwb.clone();
                            whole.extend_from_slice(&n1);
                            let class = if whole.ends_with(&n2) && n2.len() != n1.len() { "tail-of-password-nonce" } else { "other" };
                            Verdict::fail("nonce_binding", class, "decryption with a different nonce succeeded")
                        }
                    }
                };
                (res, v)
            }
            ["craft", pt, n] => {
                let (Some(pt), Some(n)) = (unhex(pt), unhex(n)) else { return bad() };
                let k = key(self.bits).unwrap();
                let pad = padding(&self.pad).unwrap();
                let public = k.cert.public_key().expect("public key");
                let csize = public.calculate_cipher_text_size(pt.len(), pad);
                let mut dst = vec![0u8; csize];
                let Ok(written) = public.public_encrypt(&pt, &mut dst, pad) else {
                    return ("err enc".to_string(), Verdict::fail("roundtrip", "craft", "public_encrypt failed"));
                };
                dst.truncate(written);
                let secret = ByteString { value: Some(dst) };
                let dec = legacy_password_decrypt(&secret, &n, &k.pkey, pad);
                (show_dec(true, written, &dec), Verdict::Ok)
            }
            ["raw", c, n] => {
                let Some(n) = unhex(n) else { return bad() };
                let k = key(self.bits).unwrap();
                let pad = padding(&self.pad).unwrap();
                let (secret, clen) = if *c == "-" {
                    (ByteString::null(), 0)
                } else {
                    let Some(c) = unhex(c) else { return bad() };
                    let l = c.len();
                    (ByteString { value: Some(c) }, l)
                };
                let dec = legacy_password_decrypt(&secret, &n, &k.pkey, pad);
                (show_dec(false, clen, &dec), Verdict::Ok)
            }
            ["tok", chan, tp, pw, n] => {
                let (Some(chan_pol), Some(pwb), Some(n)) = (sec_policy(chan), unhex(&pw[1..]), unhex(n)) else { return bad() };
                let Ok(pw) = String::from_utf8(pwb) else { return bad() };
                let uri = match *tp {
                    "-" => UAString::null(),
                    "bogus" => UAString::from("http://example.org/not-a-security-policy"),
                    p => match sec_policy(p) {
                        Some(p) => UAString::from(p.to_uri()),
                        None => return bad(),
                    },
                };
                let utp = UserTokenPolicy {
                    policy_id: UAString::from("verif"),
                    token_type: UserTokenType::UserName,
                    issued_token_type: UAString::null(),
                    issuer_endpoint_url: UAString::null(),
                    security_policy_uri: uri,
                };
                let k = key(self.bits).unwrap();
                let token = match make_user_name_identity_token(chan_pol, &utp, &n, &Some(k.cert.clone()), "user", &pw) {
                    Ok(t) => t,
                    Err(e) => return (format!("err enc {}", status_name(e)), Verdict::fail("token_roundtrip", "tok", "token creation failed")),
                };
                let alg = match token.encryption_algorithm.as_ref() {
                    "" => "-",
                    "http://www.w3.org/2001/04/xmlenc#rsa-1_5" => "rsa15",
                    "http://www.w3.org/2001/04/xmlenc#rsa-oaep" => "rsaoaep",
                    "http://opcfoundation.org/UA/security/rsa-oaep-sha2-256" => "rsaoaep256",
                    _ => "other",
                };
                let plen = token.password.value.as_ref().map(|v| v.len()).unwrap_or(0);
                let dec = decrypt_user_identity_token_password(&token, &n, &k.pkey);
                let res = match &dec {
                    Ok(p) => format!("ok {} {} ok s{}", alg, plen, hex(p.as_bytes())),
                    Err(e) => format!("ok {} {} err {}", alg, plen, status_name(*e)),
                };
                // the property at the token level: what the client makes, the server reads back
                let effective = if *tp == "-" { *chan } else if *tp == "bogus" { "none" } else { *tp };
                let v = match &dec {
                    Ok(p) if *p == pw => Verdict::Ok,
                    Ok(_) => Verdict::fail("token_roundtrip", &format!("tok-{}", effective), "decrypted to a different password"),
                    Err(e) => Verdict::fail("token_roundtrip", &format!("tok-{}", effective), format!("the server cannot read the token the client made: {}", e)),
                };
                (res, v)
            }
            ["dtok", alg, "plain", field, n] => {
                let (Some(uri), Some(n)) = (alg_uri(alg), unhex(n)) else { return bad() };
                let field = if *field == "-" { ByteString::null() } else {
                    let Some(f) = unhex(field) else { return bad() };
                    ByteString { value: Some(f) }
                };
                let flen = field.value.as_ref().map(|v| v.len()).unwrap_or(0);
                let token = opcua::types::service_types::UserNameIdentityToken {
                    policy_id: UAString::from("verif"),
                    user_name: UAString::from("user"),
                    password: field,
                    encryption_algorithm: uri,
                };
                let k = key(self.bits).unwrap();
                let dec = decrypt_user_identity_token_password(&token, &n, &k.pkey);
                (show_dec(alg_padding(alg).is_none(), flen, &dec), Verdict::Ok)
            }
            ["dtok", alg, "enc", epad, pw, n] => {
                let (Some(uri), Some(epadding), Some(pwb), Some(n)) = (alg_uri(alg), padding(epad), unhex(&pw[1..]), unhex(n)) else { return bad() };
                let Ok(pw) = String::from_utf8(pwb) else { return bad() };
                let k = key(self.bits).unwrap();
                let Ok(secret) = legacy_password_encrypt(&pw, &n, &k.cert, epadding) else {
                    return ("err enc".to_string(), Verdict::fail("roundtrip", "dtok", "encryption failed"));
                };
                let clen = secret.value.as_ref().map(|v| v.len()).unwrap_or(0);
                let token = opcua::types::service_types::UserNameIdentityToken {
                    policy_id: UAString::from("verif"),
                    user_name: UAString::from("user"),
                    password: secret,
                    encryption_algorithm: uri,
                };
                let dec = decrypt_user_identity_token_password(&token, &n, &k.pkey);
                let matches = alg_padding(alg) == Some(*epad);
                // the label names the padding really used ⇒ the password comes back; any other label ⇒ an error
                let v = match (&dec, matches) {
                    (Ok(p), true) if *p == pw => Verdict::Ok,
                    (_, true) => Verdict::fail("token_roundtrip", "dtok-match", "correctly labelled token was not read back"),
                    (Ok(_), false) => Verdict::fail("token_label", "dtok-mismatch", "a token labelled with another algorithm decrypted"),
                    (Err(_), false) => Verdict::Ok,
                };
                (show_dec(matches || *alg == "other", clen, &dec), v)
            }
            ["mut", kind, p, pw, n] => {
                let (Ok(p), Some(pwb), Some(n)) = (p.parse::<usize>(), unhex(&pw[1..]), unhex(n)) else { return bad() };
                let Ok(pw) = String::from_utf8(pwb) else { return bad() };
                let k = key(self.bits).unwrap();
                let pad = padding(&self.pad).unwrap();
                let Ok(secret) = legacy_password_encrypt(&pw, &n, &k.cert, pad) else {
                    return ("err enc".to_string(), Verdict::fail("roundtrip", "mut", "encryption failed"));
                };
                let Some(c) = mutate(k.pkey.size(), kind, p, secret.value.as_ref().unwrap()) else { return bad() };
                let clen = c.len();
                let dec = legacy_password_decrypt(&ByteString { value: Some(c) }, &n, &k.pkey, pad);
                (show_dec(false, clen, &dec), Verdict::Ok)
            }
            _ => bad(),
        }
    }

    /// "decrypting any byte string returns an error rather than panicking"
    fn on_panic(&self, toks: &[&str]) -> Verdict {
        // by design and outside the property: the signature padding is not an encryption padding
        // (`panic!("Unsupported padding")`); an Unknown channel policy with no token policy
        // (`panic!("Don't know how to make the token for this server")`)
        if self.pad == "pss" || matches!(toks, ["tok", "unknown", "-", ..]) {
            return Verdict::Ok;
        }
        let ks = (self.bits / 8) as usize;
        let class = match toks {
            ["raw", c, _] => {
                if (c.len().saturating_sub(1) / 2) % ks != 0 {
                    "length-not-multiple-of-key-size"
                } else {
                    "-"
                }
            }
            ["mut", "trunc" | "extend", p, ..] if p.parse::<usize>().map(|p| p % ks != 0).unwrap_or(false) => {
                "length-not-multiple-of-key-size"
            }
            ["craft", pt, n] => match (unhex(pt), unhex(n)) {
                (Some(pt), Some(n)) => R::class_of_plain(&pt, &n),
                _ => "-",
            },
            ["rt", pw, n1, n2] => match (unhex(&pw[1..]), unhex(n1), unhex(n2)) {
                (Some(pw), Some(n1), Some(n2)) => {
                    let mut pt = le32((pw.len() + n1.len()) as u32);
                    pt.extend(pw);
                    pt.extend(n1);
                    R::class_of_plain(&pt, &n2)
                }
                _ => "-",
            },
            _ => "-",
        };
        Verdict::fail("no_panic", class, "implementation panicked")
    }
}
