//! C35 — every client request completes exactly once.
//!
//! The REAL `TransportState` (with its `SendBuffer`) and the REAL `Request::send()` futures run on a
//! single-threaded tokio runtime; there is no socket: incoming chunks are built with
//! `MessageChunk::new` and handed to `handle_incoming_message`, `wait_for_outgoing_message` is polled
//! once per `pump`, deadlines pass by overwriting the stored instant (hook).
use crate::common::*;
use opcua::core::comms::message_chunk::{MessageChunk, MessageChunkType, MessageIsFinalType};
use opcua::core::comms::secure_channel::{Role, SecureChannel};
use opcua::crypto::CertificateStore;
use opcua::core::comms::tcp_codec::Message;
use opcua::core::comms::tcp_types::{AcknowledgeMessage, ErrorMessage, HelloMessage, MessageHeader, MessageType};
use opcua::core::supported_message::SupportedMessage;
use opcua::sync::RwLock;
use opcua::types::*;
use opcua::verif_hooks::client::{VSender, VTransport};
use std::collections::BTreeMap;
use std::future::Future;
use std::pin::Pin;
use std::sync::Arc;
use std::task::{Context, Poll, RawWaker, RawWakerVTable, Waker};
use std::time::{Duration, Instant};

pub struct C35;
pub static P: C35 = C35;

/// size of every body piece; the response header + array/variant prefixes take 38 bytes
const PIECE: usize = 48;
const HEADER: usize = 38;
const QUEUE_CAP: usize = 1024;

impl Prop for C35 {
    fn id(&self) -> &'static str {
        "C35"
    }

    fn gen(&self, rng: &mut Rng, n: usize, tier: Tier, out: &mut Vec<String>) {
        for case in 0..n {
            let max_inflight = *rng.pick(&[0u64, 1, 1, 2, 3, 8]);
            let max_pending = *rng.pick(&[0u64, 1, 2, 5]);
            out.push(format!("reset {} {}", max_inflight, max_pending));
            if tier == Tier::Thorough && case % 50 == 0 {
                exhaustive_small(rng, out);
                continue;
            }
            // generator-side picture of the world, only to aim the ops
            let mut queued = 0u64;
            let mut nr_pos: Vec<u64> = Vec::new(); // positions in the channel of no-response messages
            let mut rids: Vec<u64> = Vec::new(); // believed pending
            let mut last_rid = 1000u64;
            let mut seq = 1u64;
            let mut msg = 0u64;
            let len = if tier == Tier::Thorough { rng.range(5, 80) } else { rng.range(3, 40) };
            for _ in 0..len {
                match rng.weighted(&[6, 6, 10, 3, 2, 1, 1, 2]) {
                    0 => {
                        if queued < 40 {
                            if rng.chance(1, 8) {
                                out.push(format!("submitnr {}", b(rng.chance(1, 5))));
                                nr_pos.push(queued);
                            } else {
                                out.push(format!("submit {}", b(rng.chance(1, 5))));
                            }
                            queued += 1;
                        }
                    }
                    1 => {
                        out.push("pump".to_string());
                        if queued > 0 && (rids.len() as u64) < max_inflight {
                            queued -= 1;
                            last_rid += 1;
                            // messages without a callback take an id but are not registered
                            let was_nr = nr_pos.contains(&0);
                            nr_pos.retain(|p| *p != 0);
                            for p in nr_pos.iter_mut() {
                                *p -= 1;
                            }
                            if !was_nr {
                                rids.push(last_rid);
                            }
                        }
                    }
                    2 => {
                        // a response message of 1..4 pieces for a known / unknown / stale request id
                        let rid = match rng.weighted(&[12, 2, 1]) {
                            0 if !rids.is_empty() => *rng.pick(&rids),
                            1 => last_rid + 1 + rng.below(3),
                            _ => 1000 + rng.below(6),
                        };
                        let total = *rng.pick(&[1u64, 1, 2, 3, 4]);
                        msg += 1;
                        let base = match rng.weighted(&[10, 1, 1]) {
                            0 => seq,
                            1 => seq + rng.below(3),         // gap upwards: accepted
                            _ => seq.saturating_sub(1 + rng.below(3)), // replayed numbers: rejected
                        };
                        let mut order: Vec<u64> = (0..total).collect();
                        match rng.weighted(&[8, 2, 2, 1, 1]) {
                            0 => {}
                            1 => {
                                // final chunk overtakes an intermediate one
                                if total > 1 {
                                    order.swap(total as usize - 1, total as usize - 2)
                                }
                            }
                            2 => {
                                // duplicate
                                let d = rng.below(total);
                                order.insert(d as usize, d);
                            }
                            3 => {
                                // one chunk lost
                                let d = rng.below(total);
                                order.retain(|x| *x != d);
                            }
                            _ => {
                                // aborted by the server in the middle
                                let d = rng.below(total) as usize;
                                order.truncate(d);
                                order.push(u64::MAX);
                            }
                        }
                        let mut completes = false;
                        for i in order {
                            if i == u64::MAX {
                                out.push(format!("chunk {} {} A {} 0 {}", rid, base + total, msg, total));
                                completes = true;
                                continue;
                            }
                            let kind = if i == total - 1 { "F" } else { "C" };
                            let kind = if rng.chance(1, 40) { *rng.pick(&["F", "C"]) } else { kind };
                            // the same sequence number twice with different final flags: the stable sort keeps the
                            // arrival order and the first one wins
                            if rng.chance(1, 25) {
                                out.push(format!("chunk {} {} {} {} {} {}", rid, base + i, if kind == "F" { "C" } else { "F" }, msg, i, total));
                            }
                            // the chunk's message type does not matter to the client transport
                            let mt = match rng.weighted(&[10, 1, 1]) {
                                0 => "",
                                1 => " O",
                                _ => " C",
                            };
                            out.push(format!("chunk {} {} {} {} {} {}{}", rid, base + i, kind, msg, i, total, mt));
                            if kind == "F" {
                                completes = true;
                            }
                            // interleave other activity between the chunks of a message
                            if rng.chance(1, 6) {
                                out.push(
                                    rng.pick(&["pump", "sweep", "submit 0"]).to_string(),
                                );
                            }
                        }
                        if completes {
                            rids.retain(|r| *r != rid);
                        }
                        seq = (base + total).max(seq);
                    }
                    3 => {
                        // time passes for one request: its deadline is now past / near / far
                        // few distinct values, so that ties and the boundary `deadline == now` occur
                        let k = *rng.pick(&[-1000i64, -100, 0, 0, 100, 100, 200, 300, 5000, 80000]);
                        if !rids.is_empty() && rng.chance(3, 4) {
                            let rid = *rng.pick(&rids);
                            out.push(format!("deadline {} {}", rid, k));
                        } else {
                            out.push(format!("deadline {} {}", 1000 + rng.below(8), k));
                        }
                    }
                    4 => out.push("sweep".to_string()),
                    5 => {
                        let st = *rng.pick(&[0u32, 0x80AE_0000, 0x8005_0000, 0x800A_0000, 0x4000_0000, 0x00A9_0000]);
                        out.push(format!("close {}", st));
                        queued = 0;
                        nr_pos.clear();
                        rids.clear();
                    }
                    6 => out.push(format!("errmsg {}", *rng.pick(&["2147811328", "2155675648", "2147549184", "0", "ack", "hello"]))),
                    _ => {
                        // the transport sleeps until the instant it asked for and looks again
                        out.push("wake".to_string());
                        if rng.chance(1, 2) {
                            rids.clear(); // most of them are gone now; chunks for them exercise the unknown-id path
                        }
                    }
                }
            }
            // a case ends with the transport closing: every request must have completed by then
            if rng.chance(3, 4) {
                out.push(format!("close {}", *rng.pick(&[0u32, 0x80AE_0000])));
            }
        }
    }

    fn runner(&self) -> Box<dyn Runner> {
        Box::new(R::new())
    }
}

/// all interleavings of: 2 requests submitted and pumped, a 2-chunk response for the first, a
/// 1-chunk response for the second, the first request's deadline passing, and a sweep
fn exhaustive_small(rng: &mut Rng, out: &mut Vec<String>) {
    let events = ["chunk 1001 1 C 1 0 2", "chunk 1001 2 F 1 1 2", "chunk 1002 3 F 2 0 1", "deadline 1001 100", "deadline 1002 200", "wake", "sweep"];
    // one random permutation per call keeps quick runs short; thorough runs call this often
    let mut idx: Vec<usize> = (0..events.len()).collect();
    for i in (1..idx.len()).rev() {
        let j = rng.below(i as u64 + 1) as usize;
        idx.swap(i, j);
    }
    out.push("submit 0".to_string());
    out.push("submit 0".to_string());
    out.push("pump".to_string());
    out.push("pump".to_string());
    for i in idx {
        out.push(events[i].to_string());
    }
    out.push("close 0".to_string());
}

fn noop_waker() -> Waker {
    fn clone(_: *const ()) -> RawWaker {
        RawWaker::new(std::ptr::null(), &VTABLE)
    }
    fn noop(_: *const ()) {}
    static VTABLE: RawWakerVTable = RawWakerVTable::new(clone, noop, noop, noop);
    unsafe { Waker::from_raw(RawWaker::new(std::ptr::null(), &VTABLE)) }
}

#[derive(Clone, Debug, PartialEq)]
enum Outcome {
    Response(u32, String),
    Err(u32),
    /// `send_no_response` returned Ok: the message is queued
    Queued,
}

enum Done {
    Response(Result<SupportedMessage, StatusCode>),
    NoResponse(Result<(), StatusCode>),
}

struct Req {
    handle: Option<tokio::task::JoinHandle<Done>>,
    late: bool,
    /// transport request id once the request has been taken from the channel
    rid: Option<u32>,
    expired: bool,
    outcome: Option<Outcome>,
}

struct R {
    rt: tokio::runtime::Runtime,
    secure_channel: Arc<RwLock<SecureChannel>>,
    transport: Option<VTransport>,
    sender: Option<VSender>,
    // ---- reference bookkeeping written from the property text ----
    reqs: Vec<Req>,
    /// final chunks seen per transport request id: the marker of the message whose piece 0 … whatever
    /// the implementation delivers as a response to request `rid` must have arrived in chunks for `rid`
    seen_for_rid: BTreeMap<u32, Vec<u32>>,
    queued: usize,
    /// what is in the request channel, oldest first: the request waiting for a response, if any
    channel: std::collections::VecDeque<Option<usize>>,
    /// virtual clock in seconds: the deadlines stored in the transport are kept at
    /// `Instant::now() + (deadline - clock)`, so "the clock advances" = every stored deadline moves closer
    clock: i64,
    /// deadline (virtual seconds) of every registered request, by transport request id
    dl: BTreeMap<u32, i64>,
    closed: bool,
    max_inflight: usize,
    /// status the requests must get from the `close` that is being executed
    closing: Option<u32>,
}

impl R {
    fn new() -> R {
        let rt = tokio::runtime::Builder::new_current_thread().enable_all().build().unwrap();
        // CertificateStore::new touches no files
        let cert_store = Arc::new(RwLock::new(CertificateStore::new(&crate::fixtures::scratch_dir().join("c35-pki"))));
        let secure_channel = Arc::new(RwLock::new(SecureChannel::new(cert_store, Role::Client, DecodingOptions::default())));
        R {
            rt,
            secure_channel,
            transport: None,
            sender: None,
            reqs: Vec::new(),
            seen_for_rid: BTreeMap::new(),
            queued: 0,
            channel: std::collections::VecDeque::new(),
            clock: 0,
            dl: BTreeMap::new(),
            closed: false,
            max_inflight: 0,
            closing: None,
        }
    }

    fn settle(&self) {
        self.rt.block_on(async {
            for _ in 0..6 {
                tokio::task::yield_now().await;
            }
        });
    }

    /// collects newly finished requests; the oracle checks each completion as it appears
    fn collect(&mut self, op_class: &str) -> (String, Verdict) {
        let (done, verdict) = self.collect_raw(op_class);
        (self.fmt_state(&done), verdict)
    }

    fn fmt_state(&self, done: &[String]) -> String {
        let mut pend = self.transport.as_ref().map(|t| t.pending()).unwrap_or_default();
        pend.sort();
        let pend: Vec<String> = pend.iter().map(|(r, n)| format!("{}:{}", r, n)).collect();
        let seq = self.transport.as_ref().map(|t| t.last_received_sequence_number()).unwrap_or(0);
        format!("done=[{}] pend=[{}] seq={}", done.join(","), pend.join(","), seq)
    }

    /// stores the (virtual) deadline of a pending request in the transport
    fn store_deadline(&mut self, rid: u32, abs: i64) -> bool {
        let rel = abs - self.clock;
        let at = if rel >= 0 {
            Instant::now() + Duration::from_secs(rel as u64)
        } else {
            Instant::now().checked_sub(Duration::from_secs((-rel) as u64)).unwrap_or_else(Instant::now)
        };
        let ok = self.transport.as_mut().unwrap().set_deadline(rid, at);
        if ok {
            self.dl.insert(rid, abs);
        }
        ok
    }

    /// an instant returned by `next_timeout`, in whole hundreds of seconds from the virtual now
    fn rel(&self, t: Instant) -> i64 {
        let secs = t.saturating_duration_since(Instant::now()).as_secs_f64();
        ((secs / 100.0).round() as i64) * 100
    }

    /// The property on the wake-up the transport asks for: it must not lie after the deadline of any
    /// pending request (else that request is completed late), and after a sweep nothing overdue may
    /// still be pending.
    fn schedule_oracle(&self, next: Option<Instant>, class: &str) -> Verdict {
        let pending: Vec<u32> = self.transport.as_ref().unwrap().pending().iter().map(|x| x.0).collect();
        for rid in &pending {
            if let Some(d) = self.dl.get(rid) {
                if *d <= self.clock {
                    return Verdict::fail("timeout_on_schedule", class, format!("request id {} is overdue by {} s and still pending after a sweep", rid, self.clock - d));
                }
            }
        }
        let earliest = pending.iter().filter_map(|r| self.dl.get(r)).map(|d| d - self.clock).min();
        match (next.map(|t| self.rel(t)), earliest) {
            (Some(n), Some(e)) if n > e => Verdict::fail(
                "wakeup_not_after_deadline",
                class,
                format!("the transport asks to be woken in {} s although a pending request is due in {} s", n, e),
            ),
            (None, Some(e)) => Verdict::fail("wakeup_not_after_deadline", class, format!("no wake-up requested although a request is due in {} s", e)),
            _ => Verdict::Ok,
        }
    }

    fn collect_raw(&mut self, op_class: &str) -> (Vec<String>, Verdict) {
        self.settle();
        let mut done = Vec::new();
        let mut verdict = Verdict::Ok;
        for i in 0..self.reqs.len() {
            let finished = self.reqs[i].handle.as_ref().map(|h| h.is_finished()).unwrap_or(false);
            if !finished {
                continue;
            }
            let h = self.reqs[i].handle.take().unwrap();
            let r = self.rt.block_on(h).expect("join");
            let o = match r {
                Done::NoResponse(Ok(())) => Outcome::Queued,
                Done::NoResponse(Err(e)) => Outcome::Err(e.bits()),
                Done::Response(r) => match r {
                Ok(SupportedMessage::ReadResponse(r)) => {
                    let marker = r.response_header.request_handle;
                    let payload = match r.results.as_ref().and_then(|v| v.first()).and_then(|dv| dv.value.as_ref()) {
                        Some(Variant::ByteString(bs)) => payload_tags(bs.value.as_deref().unwrap_or(&[])),
                        _ => "?".to_string(),
                    };
                    Outcome::Response(marker, payload)
                }
                Ok(_) => Outcome::Response(u32::MAX, "?".to_string()),
                Err(e) => Outcome::Err(e.bits()),
                },
            };
            // ---------------- the property, on this completion ----------------
            let req = &self.reqs[i];
            let v = match &o {
                _ if req.outcome.is_some() => Verdict::fail("at_most_once", op_class, format!("request {} completed twice", i)),
                Outcome::Response(marker, _) => match req.rid {
                    None => Verdict::fail("right_recipient", op_class, format!("request {} got a response before it was sent", i)),
                    Some(rid) => {
                        if self.seen_for_rid.get(&rid).map(|v| v.contains(marker)).unwrap_or(false) {
                            Verdict::Ok
                        } else {
                            Verdict::fail(
                                "right_recipient",
                                op_class,
                                format!("request {} (request id {}) got message {} which was never sent with its id", i, rid, marker),
                            )
                        }
                    }
                },
                // the transport closes: pending and queued requests get the closing status
                // (BadConnectionClosed when the transport closes with a good status)
                Outcome::Err(st) if self.closing.is_some() => {
                    if Some(*st) == self.closing {
                        Verdict::Ok
                    } else {
                        Verdict::fail("close_status", op_class, format!("request {} got {:#x} while closing with {:#x}", i, st, self.closing.unwrap()))
                    }
                }
                Outcome::Err(st) if *st == StatusCode::BadTimeout.bits() => {
                    match req.rid.and_then(|rid| self.dl.get(&rid)) {
                        Some(d) if *d > self.clock => Verdict::fail(
                            "timeout_only_after_deadline",
                            op_class,
                            format!("request {} timed out {} s before its deadline", i, d - self.clock),
                        ),
                        Some(d) if *d < self.clock && op_class == "wake" => Verdict::fail(
                            "timed_out_late",
                            op_class,
                            format!("request {} timed out {} s after its deadline although the transport chose the wake-up itself", i, self.clock - d),
                        ),
                        Some(_) => Verdict::Ok,
                        None => Verdict::fail("timeout_only_after_deadline", op_class, format!("request {} timed out before it was sent", i)),
                    }
                }
                Outcome::Err(_) => Verdict::Ok,
                Outcome::Queued => Verdict::Ok,
            };
            if matches!(verdict, Verdict::Ok) {
                verdict = v;
            }
            self.reqs[i].outcome = Some(o.clone());
            done.push(format!(
                "{}:{}",
                i,
                match o {
                    Outcome::Response(m, p) => format!("r{}/{}", m, p),
                    Outcome::Err(e) => format!("e{}", e),
                    Outcome::Queued => "q".to_string(),
                }
            ));
        }
        // exactly once after close: nothing may be left hanging
        if self.closed && matches!(verdict, Verdict::Ok) {
            if let Some(i) = self.reqs.iter().position(|r| r.outcome.is_none()) {
                verdict = Verdict::fail("exactly_once_after_close", op_class, format!("request {} never completed", i));
            }
        }
        (done, verdict)
    }
}

/// recovers `msg-idx` of every piece from the decoded payload (piece layout: see `piece`)
fn payload_tags(bytes: &[u8]) -> String {
    let mut tags = Vec::new();
    // the payload starts right after the 38 header bytes of piece 0
    let first = PIECE - HEADER;
    if bytes.len() >= 2 {
        tags.push(format!("{}-{}", bytes[0], bytes[1]));
    }
    let mut pos = first;
    while pos + 3 <= bytes.len() {
        let p = &bytes[pos..];
        if p[0] == 0xFF {
            tags.push(format!("{}-{}", p[1], p[2]));
        } else if p.len() > HEADER + 1 {
            // a piece 0 (message header) in the middle of a payload
            tags.push(format!("{}-{}", p[HEADER], p[HEADER + 1]));
        } else {
            tags.push("h".to_string());
        }
        pos += PIECE;
    }
    tags.join(".")
}

/// the bytes of piece `idx` of message `msg` (cut into `total` pieces of PIECE bytes)
fn piece(msg: u32, idx: u32, total: u32) -> Vec<u8> {
    if idx > 0 {
        let mut v = vec![0xFFu8; PIECE];
        v[1] = msg as u8;
        v[2] = idx as u8;
        return v;
    }
    // a real ReadResponse whose only result is a ByteString spanning the rest of the message
    let len = total as usize * PIECE - HEADER - 4;
    let mut payload = vec![0xFFu8; len];
    payload[0] = msg as u8;
    payload[1] = 0;
    let resp = ReadResponse {
        response_header: ResponseHeader {
            timestamp: DateTime::null(),
            request_handle: msg,
            service_result: StatusCode::Good,
            service_diagnostics: DiagnosticInfo::null(),
            string_table: None,
            additional_header: ExtensionObject::null(),
        },
        results: Some(vec![DataValue {
            value: Some(Variant::ByteString(ByteString::from(payload))),
            status: None,
            source_timestamp: None,
            source_picoseconds: None,
            server_timestamp: None,
            server_picoseconds: None,
        }]),
        diagnostic_infos: None,
    };
    let mut out = Vec::new();
    let node_id: NodeId = ObjectId::ReadResponse_Encoding_DefaultBinary.into();
    node_id.encode(&mut out).unwrap();
    resp.encode(&mut out).unwrap();
    assert_eq!(out.len(), total as usize * PIECE, "layout of the encoded response changed");
    out.truncate(PIECE);
    out
}

impl Runner for R {
    fn step(&mut self, toks: &[&str]) -> (String, Verdict) {
        match toks {
            ["reset", mi, mp] => {
                let mi: usize = mi.parse().unwrap();
                let mp: usize = mp.parse().unwrap();
                let (t, s) = {
                    let _g = self.rt.enter();
                    VTransport::new(self.secure_channel.clone(), QUEUE_CAP, mp, mi)
                };
                self.transport = Some(t);
                self.sender = Some(s);
                self.max_inflight = mi;
                self.clock = 0;
                self.dl.clear();
                let (st, v) = self.collect("reset");
                (format!("ok {}", st), v)
            }
            ["submit", late] => {
                let late = *late == "1";
                let sender = self.sender.clone().unwrap();
                // deadline = now + timeout: zero = already reached when the transport looks at it
                let timeout = if late { Duration::ZERO } else { Duration::from_secs(86_400) };
                let request = ReadRequest {
                    request_header: RequestHeader::dummy(),
                    max_age: 0.0,
                    timestamps_to_return: TimestampsToReturn::Neither,
                    nodes_to_read: None,
                };
                let handle = self.rt.spawn(async move { Done::Response(sender.send(request.into(), timeout).await) });
                if !self.closed {
                    self.channel.push_back(Some(self.reqs.len()));
                }
                self.reqs.push(Req {
                    handle: Some(handle),
                    late,
                    rid: None,
                    expired: false,
                    outcome: None,
                });
                if !self.closed {
                    self.queued += 1;
                }
                let (st, v) = self.collect("submit");
                (format!("ok {}", st), v)
            }
            ["submitnr", late] => {
                let late = *late == "1";
                let sender = self.sender.clone().unwrap();
                let timeout = if late { Duration::ZERO } else { Duration::from_secs(86_400) };
                let request = ReadRequest {
                    request_header: RequestHeader::dummy(),
                    max_age: 0.0,
                    timestamps_to_return: TimestampsToReturn::Neither,
                    nodes_to_read: None,
                };
                let handle = self.rt.spawn(async move { Done::NoResponse(sender.send_no_response(request.into(), timeout).await) });
                if !self.closed {
                    self.channel.push_back(None);
                    self.queued += 1;
                }
                self.reqs.push(Req {
                    handle: Some(handle),
                    late,
                    rid: None,
                    expired: false,
                    outcome: None,
                });
                let (st, v) = self.collect("submitnr");
                (format!("ok {}", st), v)
            }
            ["pump"] => {
                // one poll of the real future, as one turn of TcpTransport::poll_inner's select!
                let polled = {
                    let _g = self.rt.enter();
                    let t = self.transport.as_mut().unwrap();
                    let waker = noop_waker();
                    let mut cx = Context::from_waker(&waker);
                    let mut fut: Pin<Box<dyn Future<Output = Option<(SupportedMessage, u32)>> + '_>> =
                        Box::pin(t.wait_for_outgoing_message());
                    fut.as_mut().poll(&mut cx)
                };
                let txt = match polled {
                    Poll::Ready(Some((_msg, rid))) => {
                        // FIFO: the oldest message in the channel got this request id
                        if let Some(Some(i)) = self.channel.pop_front() {
                            self.reqs[i].rid = Some(rid);
                            // the stored deadline is submit time + timeout: a day, or nothing at all
                            let abs = self.clock + if self.reqs[i].late { 0 } else { 86_400 };
                            self.store_deadline(rid, abs);
                        }
                        self.queued = self.queued.saturating_sub(1);
                        format!("sent {}", rid)
                    }
                    Poll::Ready(None) => "none".to_string(),
                    Poll::Pending => {
                        // the property does not care why it waits; the model does
                        if self.transport.as_ref().unwrap().pending().len() >= self.max_inflight {
                            "full".to_string()
                        } else {
                            "idle".to_string()
                        }
                    }
                };
                let (st, v) = self.collect("pump");
                // A request handed to the channel must be taken as soon as a slot is free: after this poll
                // (which first times out what is overdue) a free slot and a waiting message cannot coexist.
                let v = match v {
                    Verdict::Ok
                        if !txt.starts_with("sent")
                            && !self.channel.is_empty()
                            && self.transport.as_ref().unwrap().pending().len() < self.max_inflight =>
                    {
                        Verdict::fail(
                            "queued_request_taken",
                            "pump",
                            format!(
                                "{} message(s) wait in the request channel, {} of {} slots are in use, but the transport took none",
                                self.channel.len(),
                                self.transport.as_ref().unwrap().pending().len(),
                                self.max_inflight
                            ),
                        )
                    }
                    v => v,
                };
                (format!("ok {} {}", txt, st), v)
            }
            ["sweep"] => {
                let next = self.transport.as_mut().unwrap().next_timeout();
                let (st, v) = self.collect("sweep");
                let v = match v {
                    Verdict::Ok => self.schedule_oracle(next, "sweep"),
                    v => v,
                };
                let nx = match next {
                    None => "-".to_string(),
                    Some(t) => format!("{}", self.rel(t)),
                };
                (format!("ok next={} {}", nx, st), v)
            }
            ["wake"] => {
                // what the timeout branch of `wait_for_outgoing_message` does when nothing else happens:
                // next_timeout(), sleep until exactly that instant, next_timeout() again
                let next = self.transport.as_mut().unwrap().next_timeout();
                // what was already overdue when the op started is not the transport's doing
                let (mut done, mut v) = self.collect_raw("wake-presweep");
                if matches!(v, Verdict::Ok) {
                    v = self.schedule_oracle(next, "wake");
                }
                let at = match next {
                    None => "-".to_string(),
                    Some(t) => {
                        let rel = self.rel(t);
                        self.clock += rel;
                        let pending: Vec<u32> = self.transport.as_ref().unwrap().pending().iter().map(|x| x.0).collect();
                        for rid in pending {
                            if let Some(abs) = self.dl.get(&rid).copied() {
                                self.store_deadline(rid, abs);
                            }
                        }
                        let next2 = self.transport.as_mut().unwrap().next_timeout();
                        let (d2, v2) = self.collect_raw("wake");
                        done.extend(d2);
                        if matches!(v, Verdict::Ok) {
                            v = v2;
                        }
                        if matches!(v, Verdict::Ok) {
                            v = self.schedule_oracle(next2, "wake");
                        }
                        format!("{}", rel)
                    }
                };
                // done lists are printed sorted by request number
                done.sort_by_key(|d| d.split(':').next().unwrap().parse::<usize>().unwrap());
                (format!("ok at={} {}", at, self.fmt_state(&done)), v)
            }
            ["deadline", rid, k] => {
                let rid: u32 = rid.parse().unwrap();
                let k: i64 = k.parse().unwrap();
                let abs = self.clock + k;
                let ok = self.store_deadline(rid, abs);
                (format!("ok {}", b(ok)), Verdict::Ok)
            }
            ["chunk", rid, seq, kind, msg, idx, total, rest @ ..] => {
                let mt = match rest {
                    [] | ["M"] => MessageChunkType::Message,
                    ["O"] => MessageChunkType::OpenSecureChannel,
                    ["C"] => MessageChunkType::CloseSecureChannel,
                    _ => return ("bad-op".to_string(), Verdict::Ok),
                };
                let rid: u32 = rid.parse().unwrap();
                let seq: u32 = seq.parse().unwrap();
                let msg: u32 = msg.parse().unwrap();
                let idx: u32 = idx.parse().unwrap();
                let total: u32 = total.parse().unwrap();
                if idx >= total || total > 5 || msg > 250 {
                    return ("bad-op".to_string(), Verdict::Ok);
                }
                let is_final = match *kind {
                    "C" => MessageIsFinalType::Intermediate,
                    "F" => MessageIsFinalType::Final,
                    "A" => MessageIsFinalType::FinalError,
                    _ => return ("bad-op".to_string(), Verdict::Ok),
                };
                let body = piece(msg, idx, total);
                let chunk = {
                    let sc = self.secure_channel.read();
                    MessageChunk::new(seq, rid, mt, is_final, &sc, &body).unwrap()
                };
                if idx == 0 {
                    self.seen_for_rid.entry(rid).or_default().push(msg);
                }
                let known: Vec<u32> = self.transport.as_ref().unwrap().pending().iter().map(|x| x.0).collect();
                let class = if known.contains(&rid) { "chunk-known" } else { "chunk-unknown" };
                let r = self.transport.as_mut().unwrap().handle_incoming_message(Message::Chunk(chunk));
                let (st, v) = self.collect(class);
                // unknown_ignored: a chunk for an id that is not pending completes nothing
                let v = match v {
                    Verdict::Ok if class == "chunk-unknown" && !st.starts_with("done=[]") => {
                        Verdict::fail("unknown_ignored", class, format!("a chunk for unknown request id {} completed a request: {}", rid, st))
                    }
                    Verdict::Ok if class == "chunk-unknown" && r.is_err() => {
                        Verdict::fail("unknown_ignored", class, format!("a chunk for unknown request id {} was an error: {:?}", rid, r))
                    }
                    v => v,
                };
                (format!("{} {}", if r.is_ok() { "ok" } else { "err" }, st), v)
            }
            ["errmsg", code] => {
                let msg = match *code {
                    "ack" => Message::Acknowledge(AcknowledgeMessage {
                        message_header: MessageHeader::new(MessageType::Acknowledge),
                        protocol_version: 0,
                        receive_buffer_size: 8192,
                        send_buffer_size: 8192,
                        max_message_size: 0,
                        max_chunk_count: 0,
                    }),
                    "hello" => Message::Hello(HelloMessage::new("opc.tcp://127.0.0.1:4855/", 8192, 8192, 0, 0)),
                    code => {
                        let code: u32 = code.parse().unwrap();
                        Message::Error(ErrorMessage::from_status_code(StatusCode::from_bits_truncate(code)))
                    }
                };
                let r = self.transport.as_mut().unwrap().handle_incoming_message(msg);
                let (st, v) = self.collect("errmsg");
                (format!("{} {}", if r.is_ok() { "ok" } else { "err" }, st), v)
            }
            ["close", st] => {
                let st: u32 = st.parse().unwrap();
                let status = StatusCode::from_bits_truncate(st);
                let t = self.transport.as_mut().unwrap();
                let _ = self.rt.block_on(t.close(status));
                self.closed = true;
                self.queued = 0;
                self.channel.clear();
                self.closing = Some(if status.is_good() { StatusCode::BadConnectionClosed.bits() } else { st });
                let (s, v) = self.collect("close");
                self.closing = None;
                (format!("ok {}", s), v)
            }
            _ => ("bad-op".to_string(), Verdict::Ok),
        }
    }
}

impl Drop for R {
    fn drop(&mut self) {
        for r in self.reqs.iter_mut() {
            if let Some(h) = r.handle.take() {
                h.abort();
            }
        }
    }
}
