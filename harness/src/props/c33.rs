//! C33 — no well-formed request from an authenticated client crashes the server.
//!
//! Requests go through the real `MessageHandler` on an activated session that may modify the address
//! space.  `addnode` / `addref` (and the `addnodes`/`addrefs` list variants) are the modelled
//! node-management handlers: the Lean model predicts the per-item status.  `evf` installs an event
//! monitored item with a given where-clause, raises an event and ticks (the model predicts whether a
//! panic site of `events/operator.rs` is reached).  `rq <service> <seed>` is generated-request testing
//! of every service (the model only says "no panic"); `tick` runs the subscription timer.
use super::c19::{activate_request, anonymous_token, create_session_request, header, Conn};
use crate::common::*;
use crate::fixtures;
use opcua::core::supported_message::SupportedMessage;
use opcua::server::events::event::{BaseEventType, Event};
use opcua::server::prelude::*;
use opcua::server::session::Session;
use opcua::sync::RwLock;
use opcua::verif_hooks::services::tick_session_subscriptions;
use std::sync::atomic::{AtomicU64, Ordering};
use std::sync::{Arc, OnceLock};
use std::time::{SystemTime, UNIX_EPOCH};

pub struct C33;
pub static P: C33 = C33;

// ------------------------------------------------------------------------------------------------
// watchdog: a request that does not return (infinite loop) must not hang the run
// ------------------------------------------------------------------------------------------------
static DEADLINE_MS: AtomicU64 = AtomicU64::new(0);

fn now_ms() -> u64 {
    SystemTime::now().duration_since(UNIX_EPOCH).map(|d| d.as_millis() as u64).unwrap_or(0)
}

fn watchdog_arm(ms: u64) {
    static STARTED: OnceLock<()> = OnceLock::new();
    STARTED.get_or_init(|| {
        std::thread::spawn(|| loop {
            std::thread::sleep(std::time::Duration::from_millis(50));
            let d = DEADLINE_MS.load(Ordering::SeqCst);
            if d != 0 && now_ms() > d {
                // the op in progress never returned: die so that check.py records `abort`
                std::process::abort();
            }
        });
    });
    DEADLINE_MS.store(now_ms() + ms, Ordering::SeqCst);
}

fn watchdog_disarm() {
    DEADLINE_MS.store(0, Ordering::SeqCst);
}

// ------------------------------------------------------------------------------------------------
// fixture pieces of this property
// ------------------------------------------------------------------------------------------------
struct Fx {
    /// a registered application namespace
    ns_r: u16,
    /// number of registered namespaces
    ns_len: u16,
    /// an object that lets clients subscribe to events
    evt_obj: NodeId,
    /// a writable variable
    var: NodeId,
}

struct NullHistory;
impl opcua::server::historical::HistoricalDataProvider for NullHistory {}
impl opcua::server::historical::HistoricalEventProvider for NullHistory {}

fn fx33() -> &'static Fx {
    static F: OnceLock<Fx> = OnceLock::new();
    F.get_or_init(|| {
        let fx = fixtures::server();
        // server configuration of this property: a minimum sampling interval of 1 µs, so that a
        // monitored item is sampled at every timer tick without the harness having to sleep
        {
            let mut ss = fx.server_state.write();
            ss.min_sampling_interval_ms = 0.001;
            // history providers with the default (unsupported) answers, so that the history services
            // decode their details and dispatch
            ss.set_historical_data_provider(Box::new(NullHistory));
            ss.set_historical_event_provider(Box::new(NullHistory));
        }
        let mut a = fx.address_space.write();
        let ns_r = a.register_namespace("urn:verif:c33").expect("namespace");
        let evt_obj = NodeId::new(ns_r, "verif_c33_events");
        ObjectBuilder::new(&evt_obj, "verif_c33_events", "verif_c33_events")
            .event_notifier(EventNotifier::SUBSCRIBE_TO_EVENTS)
            .organized_by(ObjectId::ObjectsFolder)
            .insert(&mut a);
        let var = NodeId::new(ns_r, "verif_c33_var");
        VariableBuilder::new(&var, "verif_c33_var", "verif_c33_var")
            .data_type(DataTypeId::Int32)
            .value(0i32)
            .writable()
            .organized_by(ObjectId::ObjectsFolder)
            .insert(&mut a);
        let mut ns_len = 0u16;
        while a.namespace_exists(ns_len) {
            ns_len += 1;
        }
        Fx { ns_r, ns_len, evt_obj, var }
    })
}

/// browse-name table: 0..2 are names that exist in the standard address space, the others are
/// distinct fresh names, some with characters that are reserved in relative-path text
fn name_of(idx: u64) -> String {
    match idx {
        0 => "Server".to_string(),
        1 => "Objects".to_string(),
        2 => "ServerStatus".to_string(),
        3..=5 => format!("c33_o{}", idx - 3),
        _ => {
            let special = match idx % 8 {
                0 => "<x",
                1 => "a/b",
                2 => "é€",
                3 => "x:y",
                4 => "&",
                5 => "#!",
                6 => ".",
                _ => "",
            };
            format!("v{}{}", idx, special)
        }
    }
}

fn class_of(n: u32) -> NodeClass {
    match n {
        1 => NodeClass::Object,
        2 => NodeClass::Variable,
        4 => NodeClass::Method,
        8 => NodeClass::ObjectType,
        16 => NodeClass::VariableType,
        32 => NodeClass::ReferenceType,
        64 => NodeClass::DataType,
        128 => NodeClass::View,
        _ => NodeClass::Unspecified,
    }
}

/// VariableAttributes with every mandatory field; `dims_bit_without_dims`: the ArrayDimensions bit
/// is set in specified_attributes but the array itself is null
fn variable_attrs(dims_bit_without_dims: bool) -> ExtensionObject {
    let mut mask = AttributesMask::DISPLAY_NAME
        | AttributesMask::ACCESS_LEVEL
        | AttributesMask::USER_ACCESS_LEVEL
        | AttributesMask::DATA_TYPE
        | AttributesMask::HISTORIZING
        | AttributesMask::VALUE
        | AttributesMask::VALUE_RANK;
    if dims_bit_without_dims {
        mask |= AttributesMask::ARRAY_DIMENSIONS;
    }
    ExtensionObject::from_encodable(
        ObjectId::VariableAttributes_Encoding_DefaultBinary,
        &VariableAttributes {
            specified_attributes: mask.bits(),
            display_name: LocalizedText::from("d"),
            description: LocalizedText::null(),
            write_mask: 0,
            user_write_mask: 0,
            value: Variant::Int32(1),
            data_type: DataTypeId::Int32.into(),
            value_rank: -1,
            array_dimensions: None,
            access_level: 1,
            user_access_level: 1,
            minimum_sampling_interval: 0.0,
            historizing: false,
        },
    )
}

fn variable_type_attrs(dims_bit_without_dims: bool) -> ExtensionObject {
    let mut mask = AttributesMask::DISPLAY_NAME | AttributesMask::IS_ABSTRACT | AttributesMask::DATA_TYPE | AttributesMask::VALUE_RANK;
    if dims_bit_without_dims {
        mask |= AttributesMask::ARRAY_DIMENSIONS;
    }
    ExtensionObject::from_encodable(
        ObjectId::VariableTypeAttributes_Encoding_DefaultBinary,
        &VariableTypeAttributes {
            specified_attributes: mask.bits(),
            display_name: LocalizedText::from("d"),
            description: LocalizedText::null(),
            write_mask: 0,
            user_write_mask: 0,
            value: Variant::Empty,
            data_type: DataTypeId::Int32.into(),
            value_rank: -1,
            array_dimensions: None,
            is_abstract: false,
        },
    )
}

fn attrs_for(cls: u32) -> ExtensionObject {
    match cls {
        1 => ExtensionObject::from_encodable(
            ObjectId::ObjectAttributes_Encoding_DefaultBinary,
            &ObjectAttributes {
                specified_attributes: (AttributesMask::DISPLAY_NAME | AttributesMask::EVENT_NOTIFIER).bits(),
                display_name: LocalizedText::from("d"),
                description: LocalizedText::null(),
                write_mask: 0,
                user_write_mask: 0,
                event_notifier: 0,
            },
        ),
        2 => variable_attrs(false),
        16 => variable_type_attrs(false),
        8 => ExtensionObject::from_encodable(
            ObjectId::ObjectTypeAttributes_Encoding_DefaultBinary,
            &ObjectTypeAttributes {
                specified_attributes: (AttributesMask::DISPLAY_NAME | AttributesMask::IS_ABSTRACT).bits(),
                display_name: LocalizedText::from("d"),
                description: LocalizedText::null(),
                write_mask: 0,
                user_write_mask: 0,
                is_abstract: false,
            },
        ),
        32 => ExtensionObject::from_encodable(
            ObjectId::ReferenceTypeAttributes_Encoding_DefaultBinary,
            &ReferenceTypeAttributes {
                specified_attributes: (AttributesMask::DISPLAY_NAME | AttributesMask::IS_ABSTRACT | AttributesMask::SYMMETRIC).bits(),
                display_name: LocalizedText::from("d"),
                description: LocalizedText::null(),
                write_mask: 0,
                user_write_mask: 0,
                is_abstract: false,
                symmetric: false,
                inverse_name: LocalizedText::null(),
            },
        ),
        _ => ExtensionObject::null(),
    }
}

struct S {
    conn: Conn,
    token: NodeId,
    session: Option<Arc<RwLock<Session>>>,
    added: Vec<NodeId>,
    /// nodes created by generated requests / raised events (only cleaned up, never named by an op)
    extra: Vec<NodeId>,
    /// the case's own objects o0..o2
    own: Vec<NodeId>,
    added_refs: Vec<(NodeId, NodeId, NodeId)>,
    sub_id: Option<u32>,
    /// every subscription / monitored item / continuation point the server handed out in this case
    subs: Vec<u32>,
    items: Vec<(u32, u32)>,
    cps: Vec<ByteString>,
    /// a second activated session on the same connection
    token_b: NodeId,
    /// how far the timer clock of `tick <ms>` runs ahead of the real clock
    clock_ms: i64,
    ticks: i64,
    next_mi: u32,
}

impl Drop for S {
    /// Undo what the case did to the shared address space.  The references of a node are removed
    /// before the node: `AddressSpace::delete` recurses into whatever the node aggregates, and
    /// AddNodes links a new node *to its parent* (so deleting a HasComponent child would take the
    /// parent with it).
    fn drop(&mut self) {
        let fx = fixtures::server();
        let mut a = fx.address_space.write();
        for (s, t, rt) in self.added_refs.drain(..) {
            a.delete_reference(&s, &t, rt);
        }
        let extra: Vec<NodeId> = self.extra.drain(..).collect();
        let own: Vec<NodeId> = self.own.drain(..).collect();
        let nodes: Vec<NodeId> = own.into_iter().chain(self.added.drain(..)).chain(extra.into_iter()).collect();
        for n in nodes.iter().rev() {
            // events own their property nodes: those go with the event
            let is_event = a
                .find_references(n, Some((ReferenceTypeId::HasTypeDefinition, false)))
                .map(|r| r.iter().any(|r| r.target_node == ObjectTypeId::BaseEventType.into()))
                .unwrap_or(false);
            if !is_event {
                if let Some(refs) = a.find_references(n, None::<(ReferenceTypeId, bool)>) {
                    for r in refs {
                        a.delete_reference(n, &r.target_node, r.reference_type.clone());
                    }
                }
            }
            if a.node_exists(n) {
                a.delete(n, true);
            }
        }
    }
}

pub struct R {
    st: Option<S>,
}

impl S {
    /// `read_only`: the sessions of this case are created while the server configuration does not
    /// let clients modify the address space
    fn new(read_only: bool) -> S {
        let fx = fixtures::server();
        let _ = fx33();
        if read_only {
            fx.server_state.read().config.write().limits.clients_can_modify_address_space = false;
        }
        if std::env::var("VERIF_PANIC_MSG").is_ok() {
            // debugging aid: show where a panic came from (main.rs silences the default hook)
            std::panic::set_hook(Box::new(|i| eprintln!("PANIC: {}", i)));
        }
        let mut conn = Conn::new(fx, 1);
        let mut token = NodeId::null();
        if let Ok(Some(SupportedMessage::CreateSessionResponse(r))) = conn.call(create_session_request(60000.0)) {
            token = r.authentication_token.clone();
            let _ = conn.call(activate_request(&token, anonymous_token("anonymous"), SignatureData::null()));
        }
        let session = conn.sessions().into_iter().find(|s| s.read().authentication_token() == &token);
        let mut token_b = NodeId::null();
        if let Ok(Some(SupportedMessage::CreateSessionResponse(r))) = conn.call(create_session_request(60000.0)) {
            token_b = r.authentication_token.clone();
            let _ = conn.call(activate_request(&token_b, anonymous_token("anonymous"), SignatureData::null()));
        }
        if read_only {
            fx.server_state.read().config.write().limits.clients_can_modify_address_space = true;
        }
        // three objects of this case's own (tokens o0..o2): references between two standard nodes are
        // never created, because removing them again could take standard references with them
        let mut own = Vec::new();
        {
            let f = fx33();
            let mut a = fx.address_space.write();
            for k in 0..3u32 {
                let id = NodeId::new(f.ns_r, 700000 + k);
                ObjectBuilder::new(&id, name_of(3 + k as u64).as_str(), "o")
                    .organized_by(ObjectId::ObjectsFolder)
                    .insert(&mut a);
                own.push(id);
            }
        }
        S {
            conn,
            token,
            session,
            added: Vec::new(),
            extra: Vec::new(),
            own,
            added_refs: Vec::new(),
            sub_id: None,
            subs: Vec::new(),
            items: Vec::new(),
            cps: Vec::new(),
            token_b,
            clock_ms: 0,
            ticks: 0,
            next_mi: 1,
        }
    }

    fn node(&self, t: &str) -> NodeId {
        let f = fx33();
        if t == "-" {
            return NodeId::null();
        }
        let (k, rest) = t.split_at(1);
        match k {
            "s" => NodeId::new(0, rest.parse::<u32>().unwrap_or(0)),
            "m" => NodeId::new(0, 900000 + rest.parse::<u32>().unwrap_or(0)),
            "o" => NodeId::new(f.ns_r, 700000 + rest.parse::<u32>().unwrap_or(0)),
            "a" => {
                let i: usize = rest.parse().unwrap_or(0);
                if i < self.added.len() {
                    self.added[i].clone()
                } else {
                    NodeId::new(0, 800000 + i as u32)
                }
            }
            "f" => {
                let (nk, i) = rest.split_at(1);
                let ns = match nk {
                    "r" => f.ns_r,
                    "l" => f.ns_len,
                    "u" => f.ns_len + 1,
                    _ => 65535,
                };
                NodeId::new(ns, 5_000_000 + i.parse::<u32>().unwrap_or(0))
            }
            _ => NodeId::null(),
        }
    }

    fn call(&mut self, m: SupportedMessage) -> Option<SupportedMessage> {
        self.conn.call(m).ok().flatten()
    }

    fn tick(&mut self) {
        self.tick_ms(0)
    }

    /// The subscription timer fires.  `ms` moves the timer's clock further ahead of the real clock
    /// (requests handled in between read the real clock, so the server also sees time going back).
    fn tick_ms(&mut self, ms: i64) {
        let fx = fixtures::server();
        self.ticks += 1;
        self.clock_ms = self.clock_ms.saturating_add(ms).min(400 * 24 * 3600 * 1000);
        let now = chrono::Utc::now() + chrono::Duration::milliseconds(self.clock_ms);
        for s in self.conn.sessions() {
            let a = fx.address_space.read();
            let mut s = s.write();
            let _ = tick_session_subscriptions(&mut s, &now, &a);
        }
    }

    fn ensure_subscription(&mut self) -> u32 {
        if let Some(id) = self.sub_id {
            return id;
        }
        let req: SupportedMessage = CreateSubscriptionRequest {
            request_header: header(&self.token),
            requested_publishing_interval: 100.0,
            requested_lifetime_count: 1000,
            requested_max_keep_alive_count: 10,
            max_notifications_per_publish: 0,
            publishing_enabled: true,
            priority: 0,
        }
        .into();
        let id = match self.call(req) {
            Some(SupportedMessage::CreateSubscriptionResponse(r)) => r.subscription_id,
            _ => 0,
        };
        self.sub_id = Some(id);
        id
    }

    fn status_list(v: &[StatusCode]) -> String {
        if v.len() > 1 && v.iter().all(|s| *s == v[0]) {
            format!("{}*{}", v[0].name(), v.len())
        } else {
            v.iter().map(|s| s.name()).collect::<Vec<_>>().join(",")
        }
    }

    fn add_nodes_item(&self, t: &[&str]) -> Option<AddNodesItem> {
        // <reqid> <sidx> <cls> <bn> <parent> <psidx> <rt> <td> <attrs>
        if t.len() != 9 {
            return None;
        }
        let cls: u32 = t[2].parse().ok()?;
        let browse_name = if t[3] == "-" {
            QualifiedName::null()
        } else if let Some(ns) = t[3].strip_prefix('e') {
            QualifiedName::new(ns.parse().ok()?, "")
        } else {
            let (ns, idx) = t[3].split_once(':')?;
            QualifiedName::new(ns.parse().ok()?, name_of(idx.parse().ok()?))
        };
        let reference_type_id = if t[6] == "x" { NodeId::new(2, "notareftype") } else { NodeId::new(0, t[6].parse::<u32>().ok()?) };
        let node_attributes = match t[8] {
            "ok" => attrs_for(cls),
            "null" => ExtensionObject::null(),
            "vdim" => variable_attrs(true),
            "tdim" => variable_type_attrs(true),
            "junk" => {
                let mut e = attrs_for(1);
                if let ExtensionObjectEncoding::ByteString(ref mut b) = e.body {
                    *b = ByteString::from(vec![1u8, 2]);
                }
                e
            }
            "mask0" => ExtensionObject::from_encodable(
                ObjectId::ObjectAttributes_Encoding_DefaultBinary,
                &ObjectAttributes {
                    specified_attributes: 0,
                    display_name: LocalizedText::from("d"),
                    description: LocalizedText::null(),
                    write_mask: 0,
                    user_write_mask: 0,
                    event_notifier: 0,
                },
            ),
            c => attrs_for(c.strip_prefix('c')?.parse().ok()?),
        };
        Some(AddNodesItem {
            parent_node_id: ExpandedNodeId {
                node_id: self.node(t[4]),
                namespace_uri: UAString::null(),
                server_index: t[5].parse().ok()?,
            },
            reference_type_id,
            requested_new_node_id: ExpandedNodeId {
                node_id: self.node(t[0]),
                namespace_uri: UAString::null(),
                server_index: t[1].parse().ok()?,
            },
            browse_name,
            node_class: class_of(cls),
            node_attributes,
            type_definition: ExpandedNodeId {
                node_id: self.node(t[7]),
                namespace_uri: UAString::null(),
                server_index: 0,
            },
        })
    }

    fn add_refs_item(&self, t: &[&str]) -> Option<AddReferencesItem> {
        // <src> <tgt> <tsidx> <uri 0|1> <tclass> <rt> <fwd 0|1>
        if t.len() != 7 {
            return None;
        }
        Some(AddReferencesItem {
            source_node_id: self.node(t[0]),
            reference_type_id: if t[5] == "x" { NodeId::new(2, "notareftype") } else { NodeId::new(0, t[5].parse::<u32>().ok()?) },
            is_forward: t[6] == "1",
            target_server_uri: if t[3] == "1" { UAString::null() } else { UAString::from("urn:other") },
            target_node_id: ExpandedNodeId {
                node_id: self.node(t[1]),
                namespace_uri: UAString::null(),
                server_index: t[2].parse().ok()?,
            },
            target_node_class: class_of(t[4].parse().ok()?),
        })
    }

    fn do_add_nodes(&mut self, items: Option<Vec<AddNodesItem>>) -> String {
        let req: SupportedMessage = AddNodesRequest {
            request_header: header(&self.token),
            nodes_to_add: items,
        }
        .into();
        match self.call(req) {
            Some(SupportedMessage::AddNodesResponse(r)) => {
                let results = r.results.unwrap_or_default();
                for x in &results {
                    if x.status_code.is_good() {
                        self.added.push(x.added_node_id.clone());
                    }
                }
                let v: Vec<StatusCode> = results.iter().map(|x| x.status_code).collect();
                format!("ok {}", Self::status_list(&v))
            }
            Some(SupportedMessage::ServiceFault(f)) => format!("fault {}", f.response_header.service_result.name()),
            _ => "err unexpected".to_string(),
        }
    }

    fn do_add_refs(&mut self, items: Option<Vec<AddReferencesItem>>) -> String {
        let copy = items.clone();
        let req: SupportedMessage = AddReferencesRequest {
            request_header: header(&self.token),
            references_to_add: items,
        }
        .into();
        match self.call(req) {
            Some(SupportedMessage::AddReferencesResponse(r)) => {
                let results = r.results.unwrap_or_default();
                if let Some(items) = copy {
                    for (x, it) in results.iter().zip(items.iter()) {
                        if x.is_good() {
                            if it.is_forward {
                                self.added_refs.push((it.source_node_id.clone(), it.target_node_id.node_id.clone(), it.reference_type_id.clone()));
                            } else {
                                self.added_refs.push((it.target_node_id.node_id.clone(), it.source_node_id.clone(), it.reference_type_id.clone()));
                            }
                        }
                    }
                }
                format!("ok {}", Self::status_list(&results))
            }
            Some(SupportedMessage::ServiceFault(f)) => format!("fault {}", f.response_header.service_result.name()),
            _ => "err unexpected".to_string(),
        }
    }

    /// `evf <elem;elem;…>` with elem = `op:operand,operand` (operands: i = Int32 literal, n = Empty literal,
    /// e<k> = element k, a = AttributeOperand)
    fn where_clause(spec: &str) -> Option<ContentFilter> {
        if spec == "-" {
            return Some(ContentFilter { elements: None });
        }
        let mut elements = Vec::new();
        for e in spec.split(';') {
            let (op, ops) = e.split_once(':')?;
            let filter_operator = match op {
                "eq" => FilterOperator::Equals,
                "isnull" => FilterOperator::IsNull,
                "gt" => FilterOperator::GreaterThan,
                "lt" => FilterOperator::LessThan,
                "gte" => FilterOperator::GreaterThanOrEqual,
                "lte" => FilterOperator::LessThanOrEqual,
                "not" => FilterOperator::Not,
                "between" => FilterOperator::Between,
                "inlist" => FilterOperator::InList,
                "and" => FilterOperator::And,
                "or" => FilterOperator::Or,
                "unsup" => FilterOperator::RelatedTo,
                _ => return None,
            };
            let mut operands = Vec::new();
            for o in ops.split(',').filter(|o| !o.is_empty() && *o != "-") {
                let x = match o {
                    "i" => ExtensionObject::from_encodable(
                        ObjectId::LiteralOperand_Encoding_DefaultBinary,
                        &LiteralOperand { value: Variant::Int32(5) },
                    ),
                    "n" => ExtensionObject::from_encodable(
                        ObjectId::LiteralOperand_Encoding_DefaultBinary,
                        &LiteralOperand { value: Variant::Empty },
                    ),
                    "a" => ExtensionObject::from_encodable(
                        ObjectId::AttributeOperand_Encoding_DefaultBinary,
                        &AttributeOperand {
                            node_id: ObjectId::Server.into(),
                            alias: UAString::null(),
                            browse_path: RelativePath { elements: None },
                            attribute_id: 13,
                            index_range: UAString::null(),
                        },
                    ),
                    e => ExtensionObject::from_encodable(
                        ObjectId::ElementOperand_Encoding_DefaultBinary,
                        &ElementOperand { index: e.strip_prefix('e')?.parse().ok()? },
                    ),
                };
                operands.push(x);
            }
            elements.push(ContentFilterElement {
                filter_operator,
                filter_operands: if ops == "-" { None } else { Some(operands) },
            });
        }
        Some(ContentFilter { elements: Some(elements) })
    }

    fn do_evf(&mut self, spec: &str) -> String {
        let fx = fixtures::server();
        let f = fx33();
        let where_clause = match Self::where_clause(spec) {
            Some(w) => w,
            None => return "bad-op".to_string(),
        };
        // a subscription of its own, so that what generated requests did to other subscriptions
        // (deleted, disabled, transferred …) does not decide whether the clause is evaluated
        let saved = self.sub_id.take();
        let sub = self.ensure_subscription();
        self.sub_id = saved;
        let filter = EventFilter {
            select_clauses: Some(vec![SimpleAttributeOperand {
                type_definition_id: ObjectTypeId::BaseEventType.into(),
                browse_path: Some(vec![QualifiedName::from("EventId")]),
                attribute_id: AttributeId::Value as u32,
                index_range: UAString::null(),
            }]),
            where_clause,
        };
        let handle = self.next_mi;
        self.next_mi += 1;
        let req: SupportedMessage = CreateMonitoredItemsRequest {
            request_header: header(&self.token),
            subscription_id: sub,
            timestamps_to_return: TimestampsToReturn::Both,
            items_to_create: Some(vec![MonitoredItemCreateRequest {
                item_to_monitor: ReadValueId {
                    node_id: f.evt_obj.clone(),
                    attribute_id: AttributeId::EventNotifier as u32,
                    index_range: UAString::null(),
                    data_encoding: QualifiedName::null(),
                },
                monitoring_mode: MonitoringMode::Reporting,
                requested_parameters: MonitoringParameters {
                    client_handle: handle,
                    sampling_interval: 0.0,
                    filter: ExtensionObject::from_encodable(ObjectId::EventFilter_Encoding_DefaultBinary, &filter),
                    queue_size: 10,
                    discard_oldest: true,
                },
            }]),
        }
        .into();
        let created = match self.call(req) {
            Some(SupportedMessage::CreateMonitoredItemsResponse(r)) => r
                .results
                .and_then(|v| v.first().map(|x| (x.status_code, x.monitored_item_id)))
                .unwrap_or((StatusCode::BadUnexpectedError, 0)),
            _ => (StatusCode::BadUnexpectedError, 0),
        };
        // the server application raises an event on the monitored object …
        let when = chrono::Utc::now();
        let event_id = {
            let mut a = fx.address_space.write();
            let id = NodeId::next_numeric(f.ns_r);
            let mut ev = BaseEventType::new(
                &id,
                ObjectTypeId::BaseEventType,
                "verif_event",
                "verif_event",
                NodeId::objects_folder_id(),
                DateTime::from(when),
            )
            .source_node(f.evt_obj.clone());
            let _ = ev.raise(&mut a);
            id
        };
        self.extra.push(event_id);
        // … and the subscription timer fires
        self.tick();
        self.tick();
        let _ = created;
        let req: SupportedMessage = DeleteSubscriptionsRequest {
            request_header: header(&self.token),
            subscription_ids: Some(vec![sub]),
        }
        .into();
        let _ = self.call(req);
        "ok".to_string()
    }
}

// ------------------------------------------------------------------------------------------------
// generated requests of every service
// ------------------------------------------------------------------------------------------------
pub const SERVICES: [&str; 33] = [
    "read", "write", "browse", "browsenext", "translate", "regnodes", "unregnodes", "createsub", "modsub",
    "setpubmode", "delsubs", "transfer", "publish", "republish", "createmi", "modmi", "setmonmode", "settrig",
    "delmi", "call", "histread", "histupdate", "queryfirst", "querynext", "cancel", "addnodes", "addrefs",
    "delnodes", "delrefs", "getendpoints", "findservers", "regserver", "regserver2",
];

struct G<'a> {
    r: Rng,
    s: &'a S,
}

impl<'a> G<'a> {
    fn node(&mut self) -> NodeId {
        let f = fx33();
        match self.r.weighted(&[6, 3, 3, 2, 1, 1, 1, 1, 1]) {
            0 => NodeId::new(0, *self.r.pick(&[84u32, 85, 86, 2253, 2256, 2258, 2259, 58, 61, 62, 63, 24, 31, 33, 35, 45, 47, 11492, 11489, 12873, 2041, 2994, 2267])),
            1 => f.var.clone(),
            2 => f.evt_obj.clone(),
            3 if !self.s.added.is_empty() => self.r.pick(&self.s.added).clone(),
            4 => NodeId::null(),
            // unknown nodes of the generated requests: an id range of their own — the `m<k>` tokens of the
            // modelled ops (900000+k) can become real nodes when an `addnode` requests them as new id
            5 => NodeId::new(0, 960000 + self.r.below(10) as u32),
            6 => NodeId::new(*self.r.pick(&[1u16, 2, 7, 65535]), "strïng<id>"),
            7 => NodeId::new(self.r.below(4) as u16, ByteString::from(self.r.bytes(5))),
            _ => NodeId::new(self.r.below(70000) as u16, self.r.next() as u32),
        }
    }

    /// a (node, attribute) pair that can be read / monitored
    fn valid_target(&mut self) -> (NodeId, u32) {
        let f = fx33();
        match self.r.weighted(&[6, 3, 2, 2, 2]) {
            0 => (f.var.clone(), 13),
            1 => (f.evt_obj.clone(), 12),
            2 => (NodeId::new(0, *self.r.pick(&[2258u32, 2259, 2256, 2267, 2994])), 13),
            3 => (NodeId::new(0, *self.r.pick(&[2253u32, 85, 84])), *self.r.pick(&[1u32, 2, 3, 4, 5, 12])),
            _ => (f.var.clone(), *self.r.pick(&[1u32, 2, 3, 4, 14, 15, 16, 17, 18, 19, 20])),
        }
    }

    /// the session a request is sent on: mostly the first, sometimes the second one of the connection
    fn token(&mut self) -> NodeId {
        if self.r.chance(1, 10) { self.s.token_b.clone() } else { self.s.token.clone() }
    }

    fn item_id(&mut self, sub: u32) -> u32 {
        let mine: Vec<u32> = self.s.items.iter().filter(|x| x.0 == sub).map(|x| x.1).collect();
        match self.r.weighted(&[8, 2, 1, 1]) {
            0 if !mine.is_empty() => *self.r.pick(&mine),
            1 if !self.s.items.is_empty() => self.r.pick(&self.s.items).1,
            2 => 0,
            _ => self.r.below(8) as u32,
        }
    }

    fn u32b(&mut self) -> u32 {
        match self.r.weighted(&[4, 2, 1, 1, 2]) {
            0 => self.r.below(5) as u32,
            1 => self.r.below(100) as u32,
            2 => u32::MAX,
            3 => u32::MAX - 1,
            _ => self.r.next() as u32,
        }
    }

    fn f64b(&mut self) -> f64 {
        *self.r.pick(&[0.0, -1.0, 1.0, 100.0, 0.5, 1e308, -1e308, f64::NAN, f64::INFINITY, f64::NEG_INFINITY, 5e-324, 3600000.0])
    }

    fn string(&mut self) -> UAString {
        match self.r.weighted(&[2, 3, 1, 1, 1]) {
            0 => UAString::null(),
            1 => UAString::from(*self.r.pick(&["", "a", "0", "1:2", "0:3,1", "-1", "5:2", "x", "2:1", "4294967295", "1,2,3,4"])),
            2 => UAString::from("héllo wörld"),
            3 => UAString::from("<>/.:#!&"),
            _ => UAString::from("Default Binary"),
        }
    }

    fn qname(&mut self) -> QualifiedName {
        match self.r.weighted(&[1, 3, 1]) {
            0 => QualifiedName::null(),
            1 => QualifiedName::new(self.r.below(3) as u16, *self.r.pick(&["Server", "ServerStatus", "Objects", "x", ""])),
            _ => QualifiedName::new(65535, "<x"),
        }
    }

    fn variant(&mut self) -> Variant {
        match self.r.below(24) {
            0 => Variant::Empty,
            1 => Variant::Int32(self.r.next() as i32),
            2 => Variant::Boolean(self.r.chance(1, 2)),
            3 => Variant::Double(self.f64b()),
            4 => Variant::String(self.string()),
            5 => Variant::from(vec![1i32, 2, 3]),
            6 => Variant::UInt64(u64::MAX),
            7 => Variant::NodeId(Box::new(self.node())),
            8 => Variant::ByteString(ByteString::from(self.r.bytes(3))),
            9 => Variant::from(Vec::<i32>::new()),
            10 => Variant::DateTime(Box::new(DateTime::null())),
            11 => Variant::Int64(i64::MIN),
            12 => Variant::UInt32(self.sub_id()),
            13 => Variant::UInt32(self.u32b()),
            14 => Variant::SByte(-128),
            15 => Variant::Byte(255),
            16 => Variant::Int16(i16::MIN),
            17 => Variant::UInt16(u16::MAX),
            18 => Variant::Float(f32::NAN),
            19 => Variant::StatusCode(StatusCode::BadUnexpectedError),
            20 => Variant::QualifiedName(Box::new(self.qname())),
            21 => Variant::LocalizedText(Box::new(LocalizedText::from("t"))),
            22 => Variant::from(vec![1u32, 2]),
            _ => Variant::Int32(5),
        }
    }

    fn attr(&mut self) -> u32 {
        match self.r.weighted(&[6, 4, 1, 1]) {
            0 => 13,
            1 => 1 + self.r.below(27) as u32,
            2 => 0,
            _ => self.u32b(),
        }
    }

    fn rvid(&mut self) -> ReadValueId {
        if self.r.chance(2, 3) {
            let (node_id, attribute_id) = self.valid_target();
            return ReadValueId {
                node_id,
                attribute_id,
                index_range: if self.r.chance(1, 8) { self.string() } else { UAString::null() },
                data_encoding: QualifiedName::null(),
            };
        }
        ReadValueId {
            node_id: self.node(),
            attribute_id: self.attr(),
            index_range: if self.r.chance(1, 3) { self.string() } else { UAString::null() },
            data_encoding: if self.r.chance(1, 5) { self.qname() } else { QualifiedName::null() },
        }
    }

    fn list<T>(&mut self, mut f: impl FnMut(&mut Self) -> T) -> Option<Vec<T>> {
        match self.r.weighted(&[1, 1, 8, 2]) {
            0 => None,
            1 => Some(vec![]),
            2 => Some(vec![f(self)]),
            _ => {
                let n = self.r.range(2, 5);
                Some((0..n).map(|_| f(self)).collect())
            }
        }
    }

    fn literal(&mut self) -> ExtensionObject {
        ExtensionObject::from_encodable(ObjectId::LiteralOperand_Encoding_DefaultBinary, &LiteralOperand { value: Variant::Int32(5) })
    }

    /// monitored-item filters: data change filters of every shape; event filters only with
    /// where-clauses that cannot reach the recorded panic sites (those are driven by `evf`)
    fn filter(&mut self) -> ExtensionObject {
        match self.r.weighted(&[4, 4, 3, 1]) {
            0 => ExtensionObject::null(),
            1 => ExtensionObject::from_encodable(
                ObjectId::DataChangeFilter_Encoding_DefaultBinary,
                &DataChangeFilter {
                    trigger: *self.r.pick(&[DataChangeTrigger::Status, DataChangeTrigger::StatusValue, DataChangeTrigger::StatusValueTimestamp]),
                    deadband_type: self.r.below(4) as u32,
                    deadband_value: self.f64b(),
                },
            ),
            2 => {
                let elements = match self.r.below(3) {
                    0 => None,
                    1 => Some(vec![]),
                    _ => Some(vec![ContentFilterElement {
                        filter_operator: FilterOperator::Equals,
                        filter_operands: Some(vec![self.literal(), self.literal()]),
                    }]),
                };
                ExtensionObject::from_encodable(
                    ObjectId::EventFilter_Encoding_DefaultBinary,
                    &EventFilter {
                        select_clauses: self.list(|g| SimpleAttributeOperand {
                            type_definition_id: if g.r.chance(1, 2) { ObjectTypeId::BaseEventType.into() } else { g.node() },
                            browse_path: g.list(|g| g.qname()),
                            attribute_id: g.attr(),
                            index_range: if g.r.chance(1, 4) { g.string() } else { UAString::null() },
                        }),
                        where_clause: ContentFilter { elements },
                    },
                )
            }
            _ => ExtensionObject::from_encodable(ObjectId::ReadRequest_Encoding_DefaultBinary, &LiteralOperand { value: Variant::Int32(1) }),
        }
    }

    fn valid_filter(&mut self, attribute_id: u32) -> ExtensionObject {
        if attribute_id == 12 {
            ExtensionObject::from_encodable(
                ObjectId::EventFilter_Encoding_DefaultBinary,
                &EventFilter {
                    select_clauses: Some(vec![SimpleAttributeOperand {
                        type_definition_id: ObjectTypeId::BaseEventType.into(),
                        browse_path: Some(vec![QualifiedName::from(*self.r.pick(&["EventId", "Message", "Severity", "SourceNode", "Time"]))]),
                        attribute_id: 13,
                        index_range: UAString::null(),
                    }]),
                    where_clause: ContentFilter { elements: None },
                },
            )
        } else {
            match self.r.below(3) {
                0 => ExtensionObject::null(),
                _ => ExtensionObject::from_encodable(
                    ObjectId::DataChangeFilter_Encoding_DefaultBinary,
                    &DataChangeFilter {
                        trigger: *self.r.pick(&[DataChangeTrigger::Status, DataChangeTrigger::StatusValue, DataChangeTrigger::StatusValueTimestamp]),
                        deadband_type: self.r.below(2) as u32,
                        deadband_value: *self.r.pick(&[0.0, 1.0, 10.0]),
                    },
                ),
            }
        }
    }

    fn mon_params_for(&mut self, attribute_id: u32) -> MonitoringParameters {
        if self.r.chance(1, 4) {
            return self.mon_params();
        }
        MonitoringParameters {
            client_handle: self.r.below(100) as u32,
            sampling_interval: *self.r.pick(&[-1.0, 0.0, 0.0, 1.0, 100.0, 1000.0, 1e9]),
            filter: self.valid_filter(attribute_id),
            queue_size: *self.r.pick(&[0u32, 1, 2, 5, 10, 11, u32::MAX]),
            discard_oldest: self.r.chance(1, 2),
        }
    }

    fn mon_params(&mut self) -> MonitoringParameters {
        MonitoringParameters {
            client_handle: self.u32b(),
            sampling_interval: self.f64b(),
            filter: self.filter(),
            queue_size: self.u32b(),
            discard_oldest: self.r.chance(1, 2),
        }
    }

    fn mon_mode(&mut self) -> MonitoringMode {
        *self.r.pick(&[MonitoringMode::Disabled, MonitoringMode::Sampling, MonitoringMode::Reporting])
    }

    fn sub_id(&mut self) -> u32 {
        match self.r.weighted(&[12, 1, 1, 1]) {
            0 if !self.s.subs.is_empty() => *self.r.pick(&self.s.subs),
            1 => 0,
            2 => self.s.sub_id.unwrap_or(1),
            _ => self.u32b(),
        }
    }

    fn rel_path(&mut self) -> RelativePath {
        RelativePath {
            elements: self.list(|g| RelativePathElement {
                reference_type_id: if g.r.chance(2, 3) { NodeId::new(0, *g.r.pick(&[33u32, 35, 47, 31, 45])) } else { g.node() },
                is_inverse: g.r.chance(1, 4),
                include_subtypes: g.r.chance(1, 2),
                target_name: g.qname(),
            }),
        }
    }

    fn request(&mut self, kind: &str) -> Option<SupportedMessage> {
        let tok = self.token();
        let h = header(&tok);
        let ttr = *self.r.pick(&[TimestampsToReturn::Source, TimestampsToReturn::Server, TimestampsToReturn::Both, TimestampsToReturn::Neither, TimestampsToReturn::Invalid]);
        Some(match kind {
            "read" => ReadRequest {
                request_header: h,
                max_age: self.f64b(),
                timestamps_to_return: ttr,
                nodes_to_read: self.list(|g| g.rvid()),
            }
            .into(),
            "write" => WriteRequest {
                request_header: h,
                nodes_to_write: self.list(|g| {
                    if g.r.chance(2, 3) {
                        // a value change of the monitored variable
                        WriteValue {
                            node_id: fx33().var.clone(),
                            attribute_id: 13,
                            index_range: UAString::null(),
                            value: DataValue::value_only(Variant::Int32(g.r.below(1000) as i32)),
                        }
                    } else {
                        WriteValue {
                            node_id: g.node(),
                            attribute_id: g.attr(),
                            index_range: if g.r.chance(1, 3) { g.string() } else { UAString::null() },
                            value: DataValue::value_only(g.variant()),
                        }
                    }
                }),
            }
            .into(),
            "browse" => BrowseRequest {
                request_header: h,
                view: ViewDescription {
                    view_id: if self.r.chance(3, 4) { NodeId::null() } else { self.node() },
                    timestamp: DateTime::null(),
                    view_version: 0,
                },
                requested_max_references_per_node: if self.r.chance(1, 2) { 1 + self.r.below(3) as u32 } else { self.u32b() },
                nodes_to_browse: self.list(|g| BrowseDescription {
                    node_id: g.node(),
                    browse_direction: *g.r.pick(&[BrowseDirection::Forward, BrowseDirection::Inverse, BrowseDirection::Both, BrowseDirection::Invalid]),
                    reference_type_id: if g.r.chance(1, 2) { NodeId::new(0, *g.r.pick(&[31u32, 33, 35, 47, 45])) } else { g.node() },
                    include_subtypes: g.r.chance(1, 2),
                    node_class_mask: g.u32b(),
                    result_mask: g.u32b(),
                }),
            }
            .into(),
            "browsenext" => BrowseNextRequest {
                request_header: h,
                release_continuation_points: self.r.chance(1, 2),
                continuation_points: self.list(|g| if !g.s.cps.is_empty() && g.r.chance(3, 4) { g.r.pick(&g.s.cps).clone() } else { ByteString::from(g.r.bytes(4)) }),
            }
            .into(),
            "translate" => TranslateBrowsePathsToNodeIdsRequest {
                request_header: h,
                browse_paths: self.list(|g| BrowsePath {
                    starting_node: g.node(),
                    relative_path: g.rel_path(),
                }),
            }
            .into(),
            "regnodes" => RegisterNodesRequest {
                request_header: h,
                nodes_to_register: self.list(|g| g.node()),
            }
            .into(),
            "unregnodes" => UnregisterNodesRequest {
                request_header: h,
                nodes_to_unregister: self.list(|g| g.node()),
            }
            .into(),
            "createsub" => CreateSubscriptionRequest {
                request_header: h,
                requested_publishing_interval: self.f64b(),
                requested_lifetime_count: self.u32b(),
                requested_max_keep_alive_count: self.u32b(),
                max_notifications_per_publish: self.u32b(),
                publishing_enabled: self.r.chance(1, 2),
                priority: self.r.next() as u8,
            }
            .into(),
            "modsub" => ModifySubscriptionRequest {
                request_header: h,
                subscription_id: self.sub_id(),
                requested_publishing_interval: self.f64b(),
                requested_lifetime_count: self.u32b(),
                requested_max_keep_alive_count: self.u32b(),
                max_notifications_per_publish: self.u32b(),
                priority: self.r.next() as u8,
            }
            .into(),
            "setpubmode" => SetPublishingModeRequest {
                request_header: h,
                publishing_enabled: self.r.chance(1, 2),
                subscription_ids: self.list(|g| g.sub_id()),
            }
            .into(),
            "delsubs" => DeleteSubscriptionsRequest {
                request_header: h,
                subscription_ids: self.list(|g| if g.r.chance(1, 3) { g.sub_id() } else { g.u32b() }),
            }
            .into(),
            "transfer" => TransferSubscriptionsRequest {
                request_header: h,
                subscription_ids: self.list(|g| g.sub_id()),
                send_initial_values: self.r.chance(1, 2),
            }
            .into(),
            "publish" => PublishRequest {
                request_header: h,
                subscription_acknowledgements: self.list(|g| SubscriptionAcknowledgement {
                    subscription_id: g.sub_id(),
                    sequence_number: if g.r.chance(3, 4) { 1 + g.r.below(4) as u32 } else { g.u32b() },
                }),
            }
            .into(),
            "republish" => RepublishRequest {
                request_header: h,
                subscription_id: self.sub_id(),
                retransmit_sequence_number: if self.r.chance(3, 4) { self.r.below(5) as u32 } else { self.u32b() },
            }
            .into(),
            "createmi" => CreateMonitoredItemsRequest {
                request_header: h,
                subscription_id: self.sub_id(),
                timestamps_to_return: if self.r.chance(3, 4) { TimestampsToReturn::Both } else { ttr },
                items_to_create: self.list(|g| {
                    let item_to_monitor = g.rvid();
                    let attr = item_to_monitor.attribute_id;
                    MonitoredItemCreateRequest {
                        item_to_monitor,
                        monitoring_mode: g.mon_mode(),
                        requested_parameters: g.mon_params_for(attr),
                    }
                }),
            }
            .into(),
            "modmi" => {
                let sub = self.sub_id();
                ModifyMonitoredItemsRequest {
                    request_header: h,
                    subscription_id: sub,
                    timestamps_to_return: if self.r.chance(3, 4) { TimestampsToReturn::Both } else { ttr },
                    items_to_modify: self.list(|g| MonitoredItemModifyRequest {
                        monitored_item_id: g.item_id(sub),
                        requested_parameters: {
                            let attr = *g.r.pick(&[13u32, 13, 12]);
                            g.mon_params_for(attr)
                        },
                    }),
                }
                .into()
            }
            "setmonmode" => {
                let sub = self.sub_id();
                SetMonitoringModeRequest {
                    request_header: h,
                    subscription_id: sub,
                    monitoring_mode: self.mon_mode(),
                    monitored_item_ids: self.list(|g| g.item_id(sub)),
                }
                .into()
            }
            "settrig" => {
                let sub = self.sub_id();
                SetTriggeringRequest {
                    request_header: h,
                    subscription_id: sub,
                    triggering_item_id: self.item_id(sub),
                    links_to_add: self.list(|g| g.item_id(sub)),
                    links_to_remove: self.list(|g| g.item_id(sub)),
                }
                .into()
            }
            "delmi" => {
                let sub = self.sub_id();
                DeleteMonitoredItemsRequest {
                    request_header: h,
                    subscription_id: sub,
                    monitored_item_ids: self.list(|g| g.item_id(sub)),
                }
                .into()
            }
            // the two methods the server implements (Server.ResendData, Server.GetMonitoredItems, both
            // take one UInt32 subscription id), with right / wrong / missing / surplus arguments,
            // on the right and on other objects, and unknown methods
            "call" => CallRequest {
                request_header: h,
                methods_to_call: self.list(|g| {
                    let well_formed = g.r.chance(3, 4);
                    CallMethodRequest {
                        object_id: if well_formed || g.r.chance(1, 2) { ObjectId::Server.into() } else { g.node() },
                        method_id: if well_formed || g.r.chance(1, 2) { NodeId::new(0, *g.r.pick(&[12873u32, 12873, 11492])) } else { g.node() },
                        input_arguments: if well_formed {
                            Some(vec![Variant::UInt32(g.sub_id())])
                        } else {
                            g.list(|g| g.variant())
                        },
                    }
                }),
            }
            .into(),
            "histread" => HistoryReadRequest {
                request_header: h,
                history_read_details: match self.r.below(7) {
                    0 => ExtensionObject::null(),
                    1 => ExtensionObject::from_encodable(
                        ObjectId::ReadRawModifiedDetails_Encoding_DefaultBinary,
                        &ReadRawModifiedDetails {
                            is_read_modified: self.r.chance(1, 2),
                            start_time: DateTime::null(),
                            end_time: DateTime::now(),
                            num_values_per_node: self.u32b(),
                            return_bounds: self.r.chance(1, 2),
                        },
                    ),
                    2 => ExtensionObject::from_encodable(
                        ObjectId::ReadEventDetails_Encoding_DefaultBinary,
                        &ReadEventDetails {
                            num_values_per_node: self.u32b(),
                            start_time: DateTime::null(),
                            end_time: DateTime::now(),
                            filter: EventFilter {
                                select_clauses: None,
                                where_clause: ContentFilter { elements: None },
                            },
                        },
                    ),
                    3 => ExtensionObject::from_encodable(
                        ObjectId::ReadProcessedDetails_Encoding_DefaultBinary,
                        &ReadProcessedDetails {
                            start_time: DateTime::null(),
                            end_time: DateTime::now(),
                            processing_interval: self.f64b(),
                            aggregate_type: self.list(|g| g.node()),
                            aggregate_configuration: AggregateConfiguration {
                                use_server_capabilities_defaults: self.r.chance(1, 2),
                                treat_uncertain_as_bad: self.r.chance(1, 2),
                                percent_data_bad: self.r.next() as u8,
                                percent_data_good: self.r.next() as u8,
                                use_sloped_extrapolation: self.r.chance(1, 2),
                            },
                        },
                    ),
                    4 => ExtensionObject::from_encodable(
                        ObjectId::ReadAtTimeDetails_Encoding_DefaultBinary,
                        &ReadAtTimeDetails {
                            req_times: self.list(|_| DateTime::now()),
                            use_simple_bounds: self.r.chance(1, 2),
                        },
                    ),
                    5 => {
                        // a details type id with a body of another type
                        let mut e = ExtensionObject::from_encodable(ObjectId::ReadAtTimeDetails_Encoding_DefaultBinary, &LiteralOperand { value: Variant::Int32(1) });
                        if self.r.chance(1, 2) {
                            e.node_id = ObjectId::ReadProcessedDetails_Encoding_DefaultBinary.into();
                        }
                        e
                    }
                    _ => ExtensionObject::from_encodable(ObjectId::ReadRequest_Encoding_DefaultBinary, &LiteralOperand { value: Variant::Int32(1) }),
                },
                timestamps_to_return: ttr,
                release_continuation_points: self.r.chance(1, 2),
                nodes_to_read: self.list(|g| HistoryReadValueId {
                    node_id: g.node(),
                    index_range: if g.r.chance(1, 4) { g.string() } else { UAString::null() },
                    data_encoding: QualifiedName::null(),
                    continuation_point: if g.r.chance(1, 4) { ByteString::from(g.r.bytes(4)) } else { ByteString::null() },
                }),
            }
            .into(),
            "histupdate" => HistoryUpdateRequest {
                request_header: h,
                history_update_details: self.list(|g| {
                    let perform = *g.r.pick(&[PerformUpdateType::Insert, PerformUpdateType::Replace, PerformUpdateType::Update, PerformUpdateType::Remove]);
                    match g.r.below(9) {
                        0 => ExtensionObject::null(),
                        1 => ExtensionObject::from_encodable(
                            ObjectId::DeleteRawModifiedDetails_Encoding_DefaultBinary,
                            &DeleteRawModifiedDetails {
                                node_id: g.node(),
                                is_delete_modified: g.r.chance(1, 2),
                                start_time: DateTime::null(),
                                end_time: DateTime::now(),
                            },
                        ),
                        2 => ExtensionObject::from_encodable(
                            ObjectId::UpdateDataDetails_Encoding_DefaultBinary,
                            &UpdateDataDetails {
                                node_id: g.node(),
                                perform_insert_replace: perform,
                                update_values: g.list(|g| DataValue::value_only(g.variant())),
                            },
                        ),
                        3 => ExtensionObject::from_encodable(
                            ObjectId::UpdateStructureDataDetails_Encoding_DefaultBinary,
                            &UpdateStructureDataDetails {
                                node_id: g.node(),
                                perform_insert_replace: perform,
                                update_values: g.list(|g| DataValue::value_only(g.variant())),
                            },
                        ),
                        4 => ExtensionObject::from_encodable(
                            ObjectId::UpdateEventDetails_Encoding_DefaultBinary,
                            &UpdateEventDetails {
                                node_id: g.node(),
                                perform_insert_replace: perform,
                                filter: EventFilter {
                                    select_clauses: None,
                                    where_clause: ContentFilter { elements: None },
                                },
                                event_data: g.list(|g| HistoryEventFieldList { event_fields: g.list(|g| g.variant()) }),
                            },
                        ),
                        5 => ExtensionObject::from_encodable(
                            ObjectId::DeleteAtTimeDetails_Encoding_DefaultBinary,
                            &DeleteAtTimeDetails {
                                node_id: g.node(),
                                req_times: g.list(|_| DateTime::now()),
                            },
                        ),
                        6 => ExtensionObject::from_encodable(
                            ObjectId::DeleteEventDetails_Encoding_DefaultBinary,
                            &DeleteEventDetails {
                                node_id: g.node(),
                                event_ids: g.list(|g| ByteString::from(g.r.bytes(4))),
                            },
                        ),
                        7 => ExtensionObject::from_encodable(ObjectId::UpdateDataDetails_Encoding_DefaultBinary, &LiteralOperand { value: Variant::Int32(1) }),
                        _ => ExtensionObject::from_encodable(ObjectId::ReadRequest_Encoding_DefaultBinary, &LiteralOperand { value: Variant::Int32(1) }),
                    }
                }),
            }
            .into(),
            "queryfirst" => QueryFirstRequest {
                request_header: h,
                view: ViewDescription {
                    view_id: if self.r.chance(3, 4) { NodeId::null() } else { self.node() },
                    timestamp: DateTime::null(),
                    view_version: self.u32b(),
                },
                node_types: self.list(|g| NodeTypeDescription {
                    type_definition_node: ExpandedNodeId {
                        node_id: g.node(),
                        namespace_uri: UAString::null(),
                        server_index: 0,
                    },
                    include_sub_types: g.r.chance(1, 2),
                    data_to_return: g.list(|g| QueryDataDescription {
                        relative_path: g.rel_path(),
                        attribute_id: g.attr(),
                        index_range: UAString::null(),
                    }),
                }),
                filter: ContentFilter {
                    elements: if self.r.chance(1, 2) {
                        None
                    } else {
                        Some(vec![ContentFilterElement {
                            filter_operator: FilterOperator::Equals,
                            filter_operands: Some(vec![self.literal(), self.literal()]),
                        }])
                    },
                },
                max_data_sets_to_return: self.u32b(),
                max_references_to_return: self.u32b(),
            }
            .into(),
            "regserver" | "regserver2" => {
                let server = RegisteredServer {
                    server_uri: self.string(),
                    product_uri: self.string(),
                    server_names: self.list(|_| LocalizedText::from("n")),
                    server_type: *self.r.pick(&[ApplicationType::Server, ApplicationType::Client, ApplicationType::ClientAndServer, ApplicationType::DiscoveryServer]),
                    gateway_server_uri: self.string(),
                    discovery_urls: self.list(|g| g.string()),
                    semaphore_file_path: self.string(),
                    is_online: self.r.chance(1, 2),
                };
                if kind == "regserver" {
                    RegisterServerRequest { request_header: h, server }.into()
                } else {
                    RegisterServer2Request {
                        request_header: h,
                        server,
                        discovery_configuration: self.list(|_| ExtensionObject::null()),
                    }
                    .into()
                }
            }
            "querynext" => QueryNextRequest {
                request_header: h,
                release_continuation_point: self.r.chance(1, 2),
                continuation_point: ByteString::from(self.r.bytes(4)),
            }
            .into(),
            "cancel" => CancelRequest {
                request_header: h,
                request_handle: self.u32b(),
            }
            .into(),
            // The generated node-management requests stay off the state the modelled ops depend on:
            // own browse names ("z…"), own id range, reference types the modelled ops do not use,
            // deletions only of nodes that generated requests added.
            "addnodes" => AddNodesRequest {
                request_header: h,
                nodes_to_add: self.list(|g| {
                    let cls = *g.r.pick(&[1u32, 1, 8, 32, 2, 0, 128]);
                    AddNodesItem {
                        parent_node_id: ExpandedNodeId {
                            node_id: g.node(),
                            namespace_uri: g.string(),
                            server_index: if g.r.chance(1, 8) { g.u32b() } else { 0 },
                        },
                        reference_type_id: match g.r.below(5) {
                            0 => NodeId::new(2, "nort"),
                            1 => NodeId::new(0, 85u32),
                            _ => NodeId::new(0, *g.r.pick(&[37u32, 38, 39, 41])),
                        },
                        requested_new_node_id: ExpandedNodeId {
                            node_id: match g.r.below(4) {
                                0 => NodeId::null(),
                                1 => NodeId::new(fx33().ns_r, 6_000_000 + g.r.below(50) as u32),
                                2 => NodeId::new(g.r.below(70000) as u16, 6_000_000 + g.r.below(50) as u32),
                                _ => NodeId::new(fx33().ns_r, format!("z{}", g.r.below(50))),
                            },
                            namespace_uri: UAString::null(),
                            server_index: if g.r.chance(1, 8) { 1 } else { 0 },
                        },
                        browse_name: QualifiedName::new(g.r.below(4) as u16, format!("z{}{}", g.r.below(1000), *g.r.pick(&["", "<", "/", ":", "é"]))),
                        node_class: class_of(cls),
                        node_attributes: match g.r.below(4) {
                            0 => ExtensionObject::null(),
                            1 => attrs_for(*g.r.pick(&[1u32, 8, 32])),
                            _ => attrs_for(cls),
                        },
                        type_definition: ExpandedNodeId {
                            node_id: match (cls, g.r.below(4)) {
                                (1, 0..=2) => ObjectTypeId::BaseObjectType.into(),
                                (_, 0..=2) => NodeId::null(),
                                _ => g.node(),
                            },
                            namespace_uri: UAString::null(),
                            server_index: 0,
                        },
                    }
                }),
            }
            .into(),
            "addrefs" => AddReferencesRequest {
                request_header: h,
                references_to_add: self.list(|g| AddReferencesItem {
                    source_node_id: g.node(),
                    reference_type_id: if g.r.chance(3, 4) { NodeId::new(0, *g.r.pick(&[37u32, 38, 39, 41])) } else { NodeId::new(2, "nort") },
                    is_forward: g.r.chance(1, 2),
                    target_server_uri: if g.r.chance(1, 8) { g.string() } else { UAString::null() },
                    target_node_id: ExpandedNodeId {
                        node_id: g.node(),
                        namespace_uri: UAString::null(),
                        server_index: if g.r.chance(1, 8) { 1 } else { 0 },
                    },
                    target_node_class: class_of(*g.r.pick(&[1u32, 1, 2, 8, 32, 0, 64])),
                }),
            }
            .into(),
            "delnodes" => DeleteNodesRequest {
                request_header: h,
                nodes_to_delete: self.list(|g| DeleteNodesItem {
                    node_id: if !g.s.extra.is_empty() && g.r.chance(2, 3) { g.r.pick(&g.s.extra).clone() } else { NodeId::new(0, 960000 + g.r.below(10) as u32) },
                    delete_target_references: g.r.chance(1, 2),
                }),
            }
            .into(),
            "delrefs" => DeleteReferencesRequest {
                request_header: h,
                references_to_delete: self.list(|g| {
                    let (s, t, rt) = (
                        // never a standard node: the standard address space is shared by all cases
                        if !g.s.extra.is_empty() && g.r.chance(2, 3) { g.r.pick(&g.s.extra).clone() } else { NodeId::new(0, 960000 + g.r.below(10) as u32) },
                        g.node(),
                        NodeId::new(0, *g.r.pick(&[37u32, 38, 39, 41])),
                    );
                    DeleteReferencesItem {
                        source_node_id: s,
                        reference_type_id: rt,
                        is_forward: g.r.chance(1, 2),
                        target_node_id: ExpandedNodeId {
                            node_id: t,
                            namespace_uri: UAString::null(),
                            server_index: if g.r.chance(1, 6) { 1 } else { 0 },
                        },
                        delete_bidirectional: g.r.chance(1, 2),
                    }
                }),
            }
            .into(),
            "getendpoints" => GetEndpointsRequest {
                request_header: h,
                endpoint_url: self.string(),
                locale_ids: self.list(|g| g.string()),
                profile_uris: self.list(|g| g.string()),
            }
            .into(),
            "findservers" => FindServersRequest {
                request_header: h,
                endpoint_url: self.string(),
                locale_ids: self.list(|g| g.string()),
                server_uris: self.list(|g| g.string()),
            }
            .into(),
            _ => return None,
        })
    }
}

// ------------------------------------------------------------------------------------------------

impl Prop for C33 {
    fn id(&self) -> &'static str {
        "C33"
    }

    fn gen(&self, rng: &mut Rng, n: usize, tier: Tier, out: &mut Vec<String>) {
        // exactly one HasSubtype-cycle case per run (plus a few in the thorough tier): on a source
        // without the visited set each of them costs a watchdog timeout and a process restart
        let cycle_at = if n >= 20 { rng.below(n as u64) as usize } else { usize::MAX };
        for case_no in 0..n {
            if case_no == cycle_at || (tier == Tier::Thorough && rng.chance(1, 3000)) {
                subtype_cycle_case(rng, out);
                continue;
            }
            // themed cases: request kinds that build on each other (a subscription, its items, the
            // operations that change them, method calls naming them, timer ticks in between)
            match rng.weighted(&[5, 4, 2]) {
                1 => {
                    subscription_case(rng, tier, out);
                    continue;
                }
                2 => {
                    view_attribute_case(rng, tier, out);
                    continue;
                }
                _ => {}
            }
            let read_only = rng.chance(1, 12);
            let mut added_cls: Vec<u32> = Vec::new();
            out.push(if read_only { "reset ro".to_string() } else { "reset".to_string() });
            let len = if tier == Tier::Thorough { rng.range(3, 40) } else { rng.range(3, 20) };
            // (browse name, parent) pairs and AddReferences ops issued so far, to repeat some of them
            let mut used_names: Vec<(String, String)> = Vec::new();
            let mut used_refs: Vec<String> = Vec::new();
            let mut fresh_name = 10u64;
            let mut fresh_id = 0u64;
            let mut nadded = 0u64; // upper bound of nodes added so far
            let node_ref = |rng: &mut Rng, nadded: u64| -> String {
                match rng.weighted(&[5, 4, 1, 1]) {
                    0 => format!("s{}", rng.pick(&[84u32, 85, 2253, 58, 61, 63, 24, 35])),
                    1 if nadded > 0 => format!("a{}", rng.below(nadded + 1)),
                    2 => format!("m{}", rng.below(3)),
                    3 => "-".to_string(),
                    _ => "s85".to_string(),
                }
            };
            for _ in 0..len {
                match rng.weighted(&[10, 7, 1, 12, 2, 3]) {
                    0 => {
                        // AddNodes with one item, mostly sensible
                        let cls = *rng.pick(&[1u32, 1, 1, 8, 32, 32, 2, 2, 4, 16, 64, 128, 0]);
                        let reqid = match rng.weighted(&[4, 5, 1, 1, 1, 1, 1]) {
                            0 => "-".to_string(),
                            1 => {
                                fresh_id += 1;
                                format!("fr{}", fresh_id)
                            }
                            2 => format!("fl{}", rng.below(3)),
                            3 => format!("fu{}", rng.below(3)),
                            4 => format!("fx{}", rng.below(3)),
                            5 => "s85".to_string(),
                            _ => node_ref(rng, nadded),
                        };
                        let bn = match rng.weighted(&[12, 1, 1, 1]) {
                            0 => {
                                fresh_name += 1;
                                format!("{}:{}", rng.pick(&[0u32, 0, 0, 1, 2, 3, 65535]), fresh_name)
                            }
                            1 => "-".to_string(),
                            2 => format!("e{}", rng.below(3)),
                            _ => format!("{}:{}", rng.below(2), rng.below(3)),
                        };
                        let mut parent = if rng.chance(3, 4) { rng.pick(&["s85", "s84", "s2253", "o0", "o1"]).to_string() } else { node_ref(rng, nadded) };
                        let mut bn = bn;
                        if !used_names.is_empty() && rng.chance(1, 8) {
                            // the same browse name under the same parent again
                            let (b, p) = rng.pick(&used_names).clone();
                            bn = b;
                            parent = p;
                        } else {
                            used_names.push((bn.clone(), parent.clone()));
                        }
                        let rt = match rng.weighted(&[6, 4, 1, 1, 1, 1]) {
                            0 => "35".to_string(),
                            1 => "47".to_string(),
                            2 => "85".to_string(),
                            3 => "x".to_string(),
                            4 => "39".to_string(), // HasDescription: a valid, non-hierarchical type
                            _ => "0".to_string(),
                        };
                        let td = match (cls, rng.weighted(&[8, 1, 1])) {
                            (1, 0) => "s58".to_string(),
                            (2, 0) => "s63".to_string(),
                            (_, 0) => "-".to_string(),
                            (_, 1) => node_ref(rng, nadded),
                            _ => "s58".to_string(),
                        };
                        let attrs = match (cls, rng.weighted(&[10, 1, 1, 1, 1])) {
                            (2, 0) if rng.chance(1, 3) => "vdim".to_string(),
                            (16, 0) if rng.chance(1, 3) => "tdim".to_string(),
                            (1, 0) | (2, 0) | (8, 0) | (16, 0) | (32, 0) => "ok".to_string(),
                            (_, 1) => "null".to_string(),
                            (_, 2) => "junk".to_string(),
                            (_, 3) => "mask0".to_string(),
                            _ => (*rng.pick(&["c1", "c8", "c32", "c2", "c16", "vdim", "tdim"])).to_string(),
                        };
                        let sidx = if rng.chance(1, 15) { 1 } else { 0 };
                        let psidx = match rng.weighted(&[12, 1, 1]) {
                            0 => 0u32,
                            1 => 1,
                            _ => u32::MAX,
                        };
                        out.push(format!("addnode {} {} {} {} {} {} {} {} {}", reqid, sidx, cls, bn, parent, psidx, rt, td, attrs));
                        // `nadded` estimates how many nodes the case has added: an AddNodes counts when
                        // everything about it looks valid (the a<k> tokens of later ops aim below it)
                        let likely_good = !read_only
                            && sidx == 0
                            && psidx != u32::MAX
                            && (reqid == "-" || reqid.starts_with("fr"))
                            && bn.contains(':')
                            && !bn.ends_with(":0") && !bn.ends_with(":1") && !bn.ends_with(":2")
                            && (parent.starts_with('s') || parent.starts_with('o'))
                            && (rt == "35" || rt == "47" || rt == "39")
                            && (attrs == "ok" || attrs == "vdim" && cls == 2 || attrs == "tdim" && cls == 16)
                            && [1u32, 2, 8, 16, 32].contains(&cls)
                            && match cls {
                                1 => td == "s58",
                                2 => td == "s63",
                                _ => td == "-",
                            };
                        if likely_good {
                            added_cls.push(cls);
                            nadded += 1;
                        }
                    }
                    1 => {
                        if nadded > 0 && rng.chance(1, 8) {
                            // the HasTypeDefinition reference AddNodes made for an Object / Variable, again
                            let k = rng.below(nadded) as usize;
                            let (td, tc) = match added_cls.get(k) {
                                Some(1) => ("s58", 8),
                                Some(2) => ("s63", 16),
                                _ => if rng.chance(1, 2) { ("s58", 8) } else { ("s63", 16) },
                            };
                            out.push(format!("addref a{} {} 0 1 {} 40 1", k, td, tc));
                            continue;
                        }
                        let own = |rng: &mut Rng, nadded: u64| -> String {
                            if nadded > 0 && rng.chance(1, 2) { format!("a{}", rng.below(nadded + 1)) } else { format!("o{}", rng.below(3)) }
                        };
                        // at least one end is a node of this case (see `S::new`)
                        let (src, tgt) = match rng.weighted(&[4, 3, 3, 2]) {
                            0 => (own(rng, nadded), own(rng, nadded)),
                            1 => (own(rng, nadded), node_ref(rng, nadded)),
                            2 => (node_ref(rng, nadded), own(rng, nadded)),
                            _ => {
                                let x = own(rng, nadded);
                                (x.clone(), x)
                            }
                        };
                        // reference types other than those AddNodes links parents with
                        let rt = match rng.weighted(&[4, 3, 2, 2, 1, 1]) {
                            0 => "46".to_string(),
                            1 => "36".to_string(),
                            2 => "48".to_string(),
                            3 => "40".to_string(),
                            4 => "x".to_string(),
                            _ => "85".to_string(),
                        };
                        let tclass = *rng.pick(&[1u32, 1, 1, 1, 8, 32, 2, 0]);
                        if !used_refs.is_empty() && rng.chance(1, 6) {
                            // the same reference again (duplicate), sometimes in the other direction
                            let prev = rng.pick(&used_refs).clone();
                            out.push(prev);
                            continue;
                        }
                        let line = format!(
                            "addref {} {} {} {} {} {} {}",
                            src,
                            tgt,
                            if rng.chance(1, 15) { 1 } else { 0 },
                            if rng.chance(1, 15) { 0 } else { 1 },
                            tclass,
                            rt,
                            b(rng.chance(2, 3))
                        );
                        used_refs.push(line.clone());
                        out.push(line);
                    }
                    2 => {
                        let what = *rng.pick(&["addnodes", "addrefs"]);
                        match rng.below(3) {
                            0 => out.push(format!("{} none", what)),
                            1 => out.push(format!("{} empty", what)),
                            _ => out.push(format!("{} many {}", what, rng.pick(&[2u32, 99, 100, 101, 150]))),
                        }
                    }
                    3 => out.push(format!("rq {} {}", rng.pick(&SERVICES), rng.next() % 1_000_000_000)),
                    4 => out.push("tick".to_string()),
                    _ => {
                        // event where-clauses; element operands only below and/or/not/isnull
                        let lit = |rng: &mut Rng| if rng.chance(3, 4) { "i" } else { "n" };
                        let nel = rng.range(1, 3) as usize;
                        let mut els = Vec::new();
                        for k in 0..nel {
                            let e = match rng.weighted(&[5, 2, 2, 2, 3, 1, 1]) {
                                0 => {
                                    let op = *rng.pick(&["eq", "gt", "lt", "gte", "lte"]);
                                    match rng.weighted(&[6, 2, 1]) {
                                        0 => format!("{}:{},{}", op, lit(rng), lit(rng)),
                                        1 => format!("{}:{}", op, lit(rng)),
                                        _ => format!("{}:{},a", op, lit(rng)),
                                    }
                                }
                                1 => format!("between:{}", (0..rng.range(1, 4)).map(|_| lit(rng)).collect::<Vec<_>>().join(",")),
                                2 => format!("inlist:{}", (0..rng.range(1, 4)).map(|_| lit(rng)).collect::<Vec<_>>().join(",")),
                                3 => format!("{}:{}", rng.pick(&["isnull", "not"]), if rng.chance(1, 5) { "a" } else { lit(rng) }),
                                4 => {
                                    let op = *rng.pick(&["and", "or"]);
                                    let o = |rng: &mut Rng| -> String {
                                        match rng.weighted(&[3, 3, 1]) {
                                            0 => lit(rng).to_string(),
                                            1 => format!("e{}", k + 1 + rng.below(2) as usize),
                                            _ => format!("e{}", rng.below(6)),
                                        }
                                    };
                                    if rng.chance(1, 6) { format!("{}:{}", op, o(rng)) } else { format!("{}:{},{}", op, o(rng), o(rng)) }
                                }
                                5 => "unsup:i,i".to_string(),
                                _ => format!("{}:-", rng.pick(&["eq", "and", "not"])),
                            };
                            els.push(e);
                        }
                        out.push(format!("evf {}", els.join(";")));
                    }
                }
            }
        }
    }

    fn runner(&self) -> Box<dyn Runner> {
        Box::new(R { st: None })
    }
}

fn rq(rng: &mut Rng, kind: &str) -> String {
    format!("rq {} {}", kind, rng.next() % 1_000_000_000)
}

fn tick_op(rng: &mut Rng) -> String {
    match rng.weighted(&[6, 2, 3, 2, 1, 1]) {
        0 => "tick".to_string(),
        1 => "tick 50".to_string(),
        2 => "tick 100".to_string(),
        3 => "tick 1000".to_string(),
        4 => "tick 60000".to_string(),
        _ => "tick 3600000".to_string(),
    }
}

/// life of subscriptions: create, add items in every monitoring mode, tick, then every operation
/// that changes what was set up (modify, set mode, triggering, publishing mode, transfer, method
/// calls naming the subscription, writes to the monitored variable, publish / republish, deletes)
/// with ticks in between
fn subscription_case(rng: &mut Rng, tier: Tier, out: &mut Vec<String>) {
    out.push("reset".to_string());
    out.push(rq(rng, "createsub"));
    if rng.chance(1, 4) {
        out.push(rq(rng, "createsub"));
    }
    for _ in 0..rng.range(1, 3) {
        out.push(rq(rng, "createmi"));
    }
    out.push(tick_op(rng));
    let len = if tier == Tier::Thorough { rng.range(5, 40) } else { rng.range(5, 22) };
    for _ in 0..len {
        let op = match rng.weighted(&[10, 5, 4, 4, 3, 4, 3, 3, 3, 2, 2, 2, 1, 1, 1, 2]) {
            0 => tick_op(rng),
            1 => rq(rng, "call"),
            2 => rq(rng, "setmonmode"),
            3 => rq(rng, "modmi"),
            4 => rq(rng, "settrig"),
            5 => rq(rng, "write"),
            6 => rq(rng, "publish"),
            7 => rq(rng, "createmi"),
            8 => rq(rng, "setpubmode"),
            9 => rq(rng, "modsub"),
            10 => rq(rng, "delmi"),
            11 => rq(rng, "republish"),
            12 => rq(rng, "transfer"),
            13 => rq(rng, "delsubs"),
            14 => rq(rng, "createsub"),
            _ => format!("evf {}", *rng.pick(&["eq:i,i", "not:n", "and:e1,e1;isnull:n", "gt:i,n", "-"])),
        };
        out.push(op);
    }
    out.push(tick_op(rng));
}

/// attribute, view, query, method and discovery services on valid and invalid targets
fn view_attribute_case(rng: &mut Rng, tier: Tier, out: &mut Vec<String>) {
    out.push("reset".to_string());
    let len = if tier == Tier::Thorough { rng.range(5, 40) } else { rng.range(5, 20) };
    let kinds = [
        "read", "write", "browse", "browsenext", "translate", "regnodes", "unregnodes", "histread", "histupdate", "queryfirst",
        "querynext", "call", "cancel", "getendpoints", "findservers", "regserver", "regserver2", "browse", "browsenext", "read", "write",
    ];
    for _ in 0..len {
        if rng.chance(1, 10) {
            out.push(tick_op(rng));
        } else {
            let k = *rng.pick(&kinds);
            out.push(rq(rng, k));
        }
    }
}

/// two client-made reference types that are each other's subtype, then a Browse that follows one of
/// them with subtypes (ends the case: the request never returns on the pinned source)
fn subtype_cycle_case(rng: &mut Rng, out: &mut Vec<String>) {
    out.push("reset".to_string());
    out.push("addnode fr1 0 32 0:11 s24 0 45 - ok".to_string());
    out.push("addnode fr2 0 32 0:12 s24 0 45 - ok".to_string());
    // HierarchicalReferences → A → B
    out.push("addref s33 a0 0 1 32 45 1".to_string());
    out.push("addref a0 a1 0 1 32 45 1".to_string());
    let node = *rng.pick(&["s85", "s84", "o0"]);
    out.push(format!("browse {} s33 1", node));
    // … and B → A closes the cycle (without it every Browse returns)
    if rng.chance(3, 4) {
        out.push("addref a1 a0 0 1 32 45 1".to_string());
        out.push(format!("browse {} s33 1", node));
    } else {
        out.push(format!("browse {} s33 0", node));
    }
}

impl Runner for R {
    fn step(&mut self, toks: &[&str]) -> (String, Verdict) {
        if toks[0] == "reset" {
            self.st = None;
            self.st = Some(S::new(toks.get(1) == Some(&"ro")));
            return ("ok".to_string(), Verdict::Ok);
        }
        let st = match self.st.as_mut() {
            Some(s) => s,
            None => return ("bad-op".to_string(), Verdict::Ok),
        };
        watchdog_arm(10_000);
        let res = match toks {
            ["addnode", rest @ ..] => match st.add_nodes_item(rest) {
                Some(item) => st.do_add_nodes(Some(vec![item])),
                None => "bad-op".to_string(),
            },
            ["addref", rest @ ..] => match st.add_refs_item(rest) {
                Some(item) => st.do_add_refs(Some(vec![item])),
                None => "bad-op".to_string(),
            },
            ["addnodes", "none"] => st.do_add_nodes(None),
            ["addnodes", "empty"] => st.do_add_nodes(Some(vec![])),
            ["addnodes", "many", n] => {
                // n items that stop at the node-class test
                let item = st.add_nodes_item(&["-", "0", "0", "0:3", "s85", "0", "35", "-", "null"]).unwrap();
                let n: usize = n.parse().unwrap_or(2);
                st.do_add_nodes(Some(vec![item; n]))
            }
            ["addrefs", "none"] => st.do_add_refs(None),
            ["addrefs", "empty"] => st.do_add_refs(Some(vec![])),
            ["addrefs", "many", n] => {
                let item = st.add_refs_item(&["m0", "s85", "0", "1", "1", "35", "1"]).unwrap();
                let n: usize = n.parse().unwrap_or(2);
                st.do_add_refs(Some(vec![item; n]))
            }
            ["rq", kind, seed] => {
                let msg = {
                    let mut g = G {
                        r: Rng::new(seed.parse().unwrap_or(1)),
                        s: st,
                    };
                    g.request(kind)
                };
                match msg {
                    Some(m) => {
                        let ref_items = match &m {
                            SupportedMessage::AddReferencesRequest(q) => q.references_to_add.clone().unwrap_or_default(),
                            _ => vec![],
                        };
                        let created_on = match &m {
                            SupportedMessage::CreateMonitoredItemsRequest(q) => q.subscription_id,
                            _ => 0,
                        };
                        let r = st.call(m);
                        if std::env::var("VERIF_RQ_STATS").is_ok() {
                            // debugging aid: how far do the generated requests get?
                            eprintln!("RQ {} {}", kind, rq_outcome(&r));
                        }
                        if let Some(SupportedMessage::AddReferencesResponse(ref r)) = r {
                            for (x, it) in r.results.iter().flatten().zip(ref_items.iter()) {
                                if x.is_good() {
                                    if it.is_forward {
                                        st.added_refs.push((it.source_node_id.clone(), it.target_node_id.node_id.clone(), it.reference_type_id.clone()));
                                    } else {
                                        st.added_refs.push((it.target_node_id.node_id.clone(), it.source_node_id.clone(), it.reference_type_id.clone()));
                                    }
                                }
                            }
                        }
                        if let Some(SupportedMessage::CreateSubscriptionResponse(ref r)) = r {
                            if st.sub_id.is_none() {
                                st.sub_id = Some(r.subscription_id);
                            }
                            st.subs.push(r.subscription_id);
                        }
                        if let Some(SupportedMessage::CreateMonitoredItemsResponse(ref r)) = r {
                            for x in r.results.iter().flatten() {
                                if x.status_code.is_good() {
                                    st.items.push((created_on, x.monitored_item_id));
                                }
                            }
                        }
                        match r {
                            Some(SupportedMessage::BrowseResponse(ref r)) => {
                                for x in r.results.iter().flatten() {
                                    if !x.continuation_point.is_null() {
                                        st.cps.push(x.continuation_point.clone());
                                    }
                                }
                            }
                            Some(SupportedMessage::BrowseNextResponse(ref r)) => {
                                for x in r.results.iter().flatten() {
                                    if !x.continuation_point.is_null() {
                                        st.cps.push(x.continuation_point.clone());
                                    }
                                }
                            }
                            _ => {}
                        }
                        if let Some(SupportedMessage::AddNodesResponse(ref r)) = r {
                            for x in r.results.iter().flatten() {
                                if x.status_code.is_good() {
                                    st.extra.push(x.added_node_id.clone());
                                }
                            }
                        }
                        "ok".to_string()
                    }
                    None => "bad-op".to_string(),
                }
            }
            ["tick"] => {
                st.tick();
                "ok".to_string()
            }
            // ---- explicit (seed-free) subscription ops, for corpus witnesses
            ["sub"] => {
                let saved = st.sub_id.take();
                let id = st.ensure_subscription();
                st.sub_id = saved.or(Some(id));
                st.subs.push(id);
                "ok".to_string()
            }
            ["item", mode] => {
                // a data-change item on the variable, in the latest subscription, with the given mode
                let sub = st.subs.last().copied().unwrap_or(0);
                let req: SupportedMessage = CreateMonitoredItemsRequest {
                    request_header: header(&st.token),
                    subscription_id: sub,
                    timestamps_to_return: TimestampsToReturn::Both,
                    items_to_create: Some(vec![MonitoredItemCreateRequest {
                        item_to_monitor: ReadValueId {
                            node_id: fx33().var.clone(),
                            attribute_id: 13,
                            index_range: UAString::null(),
                            data_encoding: QualifiedName::null(),
                        },
                        monitoring_mode: match *mode {
                            "0" => MonitoringMode::Disabled,
                            "1" => MonitoringMode::Sampling,
                            _ => MonitoringMode::Reporting,
                        },
                        requested_parameters: MonitoringParameters {
                            client_handle: 1,
                            sampling_interval: 0.0,
                            filter: ExtensionObject::null(),
                            queue_size: 2,
                            discard_oldest: true,
                        },
                    }]),
                }
                .into();
                if let Some(SupportedMessage::CreateMonitoredItemsResponse(r)) = st.call(req) {
                    for x in r.results.iter().flatten() {
                        if x.status_code.is_good() {
                            st.items.push((sub, x.monitored_item_id));
                        }
                    }
                }
                "ok".to_string()
            }
            ["setmode", mode] => {
                let sub = st.subs.last().copied().unwrap_or(0);
                let ids: Vec<u32> = st.items.iter().filter(|x| x.0 == sub).map(|x| x.1).collect();
                let req: SupportedMessage = SetMonitoringModeRequest {
                    request_header: header(&st.token),
                    subscription_id: sub,
                    monitoring_mode: match *mode {
                        "0" => MonitoringMode::Disabled,
                        "1" => MonitoringMode::Sampling,
                        _ => MonitoringMode::Reporting,
                    },
                    monitored_item_ids: Some(ids),
                }
                .into();
                let _ = st.call(req);
                "ok".to_string()
            }
            ["resend"] | ["getitems"] => {
                let sub = st.subs.last().copied().unwrap_or(0);
                let req: SupportedMessage = CallRequest {
                    request_header: header(&st.token),
                    methods_to_call: Some(vec![CallMethodRequest {
                        object_id: ObjectId::Server.into(),
                        method_id: NodeId::new(0, if toks[0] == "resend" { 12873u32 } else { 11492u32 }),
                        input_arguments: Some(vec![Variant::UInt32(sub)]),
                    }]),
                }
                .into();
                let _ = st.call(req);
                "ok".to_string()
            }
            ["tick", ms] => {
                st.tick_ms(ms.parse().unwrap_or(0));
                "ok".to_string()
            }
            ["browse", node, rt, subtypes] => {
                // a Browse that names the reference type to follow
                watchdog_arm(3_000);
                let req: SupportedMessage = BrowseRequest {
                    request_header: header(&st.token),
                    view: ViewDescription {
                        view_id: NodeId::null(),
                        timestamp: DateTime::null(),
                        view_version: 0,
                    },
                    requested_max_references_per_node: 0,
                    nodes_to_browse: Some(vec![BrowseDescription {
                        node_id: st.node(node),
                        browse_direction: BrowseDirection::Forward,
                        reference_type_id: st.node(rt),
                        include_subtypes: *subtypes == "1",
                        node_class_mask: 0,
                        result_mask: 0x3f,
                    }]),
                }
                .into();
                let _ = st.call(req);
                "ok".to_string()
            }
            ["evf", spec] => st.do_evf(spec),
            _ => "bad-op".to_string(),
        };
        watchdog_disarm();
        // the property: every request is answered (response or fault) and the server keeps serving;
        // a panic unwinds out of this function and is judged by `on_panic`
        (res, Verdict::Ok)
    }

    fn on_panic(&self, toks: &[&str]) -> Verdict {
        watchdog_disarm();
        // class tag computed from the input: which service, and for event filters which malformation
        let class = match toks {
            ["evf", spec] => format!("evfilter-{}", evf_class(spec)),
            ["rq", kind, ..] => format!("rq-{}", kind),
            [op, ..] => op.to_string(),
            _ => "-".to_string(),
        };
        Verdict::fail("no_panic", &class, "the server panicked while serving this request")
    }
}

/// coarse outcome of a generated request (only for the VERIF_RQ_STATS debugging aid)
fn rq_outcome(r: &Option<SupportedMessage>) -> String {
    fn first(v: &Option<Vec<StatusCode>>) -> String {
        match v {
            None => "no-results".to_string(),
            Some(v) if v.is_empty() => "empty-results".to_string(),
            Some(v) => v[0].name().to_string(),
        }
    }
    match r {
        None => "no-response".to_string(),
        Some(SupportedMessage::ServiceFault(f)) => format!("fault-{}", f.response_header.service_result.name()),
        Some(SupportedMessage::CreateMonitoredItemsResponse(r)) => first(&r.results.as_ref().map(|v| v.iter().map(|x| x.status_code).collect())),
        Some(SupportedMessage::ModifyMonitoredItemsResponse(r)) => first(&r.results.as_ref().map(|v| v.iter().map(|x| x.status_code).collect())),
        Some(SupportedMessage::SetMonitoringModeResponse(r)) => first(&r.results),
        Some(SupportedMessage::SetTriggeringResponse(r)) => format!("add-{} remove-{}", first(&r.add_results), first(&r.remove_results)),
        Some(SupportedMessage::DeleteMonitoredItemsResponse(r)) => first(&r.results),
        Some(SupportedMessage::CallResponse(r)) => first(&r.results.as_ref().map(|v| v.iter().map(|x| x.status_code).collect())),
        Some(SupportedMessage::WriteResponse(r)) => first(&r.results),
        Some(SupportedMessage::SetPublishingModeResponse(r)) => first(&r.results),
        Some(SupportedMessage::DeleteSubscriptionsResponse(r)) => first(&r.results),
        Some(SupportedMessage::TransferSubscriptionsResponse(r)) => first(&r.results.as_ref().map(|v| v.iter().map(|x| x.status_code).collect())),
        Some(SupportedMessage::ReadResponse(r)) => first(&r.results.as_ref().map(|v| v.iter().map(|x| x.status.unwrap_or(StatusCode::Good)).collect())),
        Some(SupportedMessage::BrowseResponse(r)) => first(&r.results.as_ref().map(|v| v.iter().map(|x| x.status_code).collect())),
        Some(SupportedMessage::BrowseNextResponse(r)) => first(&r.results.as_ref().map(|v| v.iter().map(|x| x.status_code).collect())),
        Some(_) => "response".to_string(),
    }
}

/// which malformation of a where-clause (from its text; the first that applies)
fn evf_class(spec: &str) -> &'static str {
    let els: Vec<&str> = spec.split(';').collect();
    let mut class = "other";
    for e in &els {
        let (op, ops) = e.split_once(':').unwrap_or((e, ""));
        let operands: Vec<&str> = ops.split(',').filter(|o| !o.is_empty() && *o != "-").collect();
        let need = match op {
            "eq" | "gt" | "lt" | "gte" | "lte" | "and" | "or" => 2,
            "between" => 3,
            _ => 1,
        };
        if operands.contains(&"a") {
            return "attribute-operand";
        }
        if operands.iter().any(|o| o.strip_prefix('e').and_then(|k| k.parse::<usize>().ok()).map(|k| k >= els.len()).unwrap_or(false)) {
            class = "element-index";
        } else if !operands.is_empty() && operands.len() < need && class == "other" {
            class = "operand-count";
        } else if operands.first() == Some(&"i") && operands[1..].contains(&"n") && class == "other" {
            class = "nonconvertible-compare";
        }
    }
    class
}
