//! C07 — any message survives chunking and channel security unchanged.
//!
//!   reset <policy> <mode> <sender role> <sender cert len> <sender key> <receiver key> <chan id> <token id> <own> <peer> <seed>
//!   rt|sz <msg|opn|clo> <seq> <req> <maxMsg> <maxChunk> <strLen> <msgLen> <nodeIdLen>
//!
//! `rt`/`sz` build a real request whose `audit_entry_id` is `strLen` characters long, run
//! `Chunker::encode`, `apply_security` per chunk (sender), `verify_and_remove_security` per chunk
//! (receiver) and `Chunker::decode`, and print every size.  The oracle of `rt` is the round trip and
//! the header invariants, the oracle of `sz` the negotiated size bound.
use super::c09::chan::*;
use crate::common::*;
use opcua::core::comms::prelude::*;
use opcua::core::supported_message::SupportedMessage;
use opcua::crypto::SecurityPolicy;
use opcua::types::*;

pub struct C07;
pub static P: C07 = C07;

fn header(str_len: usize) -> RequestHeader {
    RequestHeader {
        authentication_token: NodeId::new(0, 99),
        timestamp: DateTime::ymd(2020, 1, 2),
        request_handle: 7,
        return_diagnostics: DiagnosticBits::empty(),
        audit_entry_id: UAString::from("a".repeat(str_len)),
        timeout_hint: 123456,
        additional_header: ExtensionObject::null(),
    }
}

fn make_msg(kind: &str, str_len: usize) -> Option<SupportedMessage> {
    Some(match kind {
        "msg" => GetEndpointsRequest {
            request_header: header(str_len),
            endpoint_url: UAString::from("opc.tcp://verif:4855/"),
            locale_ids: None,
            profile_uris: None,
        }
        .into(),
        "opn" => OpenSecureChannelRequest {
            request_header: header(str_len),
            client_protocol_version: 0,
            request_type: SecurityTokenRequestType::Issue,
            security_mode: MessageSecurityMode::SignAndEncrypt,
            client_nonce: ByteString::from(vec![7u8; 32]),
            requested_lifetime: 60000,
        }
        .into(),
        "clo" => CloseSecureChannelRequest { request_header: header(str_len) }.into(),
        _ => return None,
    })
}

struct Setup {
    cfg: Cfg,
    chan_id: u32,
    token_id: u32,
}

impl Setup {
    // the sender is the `peer` side of the shared Cfg, the receiver its `me` side
    fn sender(&self) -> SecureChannel {
        let mut s = self.cfg.peer_channel(self.cfg.policy, self.cfg.mode);
        s.set_secure_channel_id(self.chan_id);
        s.set_token_id(self.token_id);
        s
    }
    fn receiver(&self) -> SecureChannel {
        let mut r = self.cfg.me();
        r.set_secure_channel_id(self.chan_id);
        r.set_token_id(self.token_id);
        r
    }
    fn reset_line(&self) -> String {
        let c = &self.cfg;
        format!(
            "reset {} {} {} {} {} {} {} {} {} {} {}",
            policy_name(c.policy),
            mode_name(c.mode),
            if c.client { "server" } else { "client" }, // role of the SENDER (peer of `me`)
            key(c.peer).der.len(),
            key(c.peer).size,
            key(c.own).size,
            self.chan_id,
            self.token_id,
            c.own,
            c.peer,
            c.seed
        )
    }
    fn parse(toks: &[&str]) -> Option<Setup> {
        if toks.len() < 12 {
            return None;
        }
        Some(Setup {
            cfg: Cfg {
                policy: parse_policy(toks[1])?,
                mode: parse_mode(toks[2])?,
                has_cert: true,
                has_key: true,
                keys: true,
                client: toks[3] == "server",
                own: toks[9].parse().ok().filter(|i| *i < 5)?,
                peer: toks[10].parse().ok().filter(|i| *i < 5)?,
                seed: toks[11].parse().ok()?,
                init_policy: None,
                key_policy: None,
            },
            chan_id: toks[7].parse().ok()?,
            token_id: toks[8].parse().ok()?,
        })
    }
}

fn secured(c: &Cfg) -> bool {
    c.policy != SecurityPolicy::None
        && matches!(c.mode, MessageSecurityMode::Sign | MessageSecurityMode::SignAndEncrypt)
}

/// deterministic boundary suite (round 3): every policy x mode x kind, the body budget hit exactly,
/// every padding length, the extra padding byte of keys > 2048 bits, the limits at their boundaries
fn suite(out: &mut Vec<String>) {
    let mut seed = 7000u64;
    let kinds = ["msg", "opn", "clo"];
    let op_line = |op: &str, kind: &str, seq: u32, max_msg: usize, max_chunk: usize, str_len: usize| -> String {
        let msg = make_msg(kind, str_len).unwrap();
        format!("{} {} {} {} {} {} {} {} {}", op, kind, seq, 4242, max_msg, max_chunk, str_len, msg.byte_len(), msg.node_id().byte_len())
    };
    for &policy in POLICIES.iter() {
        for &mode in MODES.iter() {
            seed += 1;
            let st = Setup {
                cfg: Cfg {
                    policy,
                    mode,
                    has_cert: true,
                    has_key: true,
                    keys: true,
                    client: seed % 2 == 0,
                    own: (seed % 2) as usize * 2,
                    peer: 1,
                    seed,
                    init_policy: None,
                    key_policy: None,
                },
                chan_id: 5,
                token_id: 6,
            };
            out.push(st.reset_line());
            let sender = st.sender();
            for kind in kinds {
                out.push(op_line("rt", kind, 1, 0, 8196, 10));
                let mt = match kind {
                    "opn" => MessageChunkType::OpenSecureChannel,
                    "clo" => MessageChunkType::CloseSecureChannel,
                    _ => MessageChunkType::Message,
                };
                let per = std::panic::catch_unwind(std::panic::AssertUnwindSafe(|| {
                    MessageChunk::body_size_from_message_size(mt, &sender, 8196).unwrap_or(8000)
                }))
                .unwrap_or(8000);
                let base = make_msg(kind, 0).map(|m| m.byte_len() + m.node_id().byte_len()).unwrap_or(60);
                if kind != "opn" || mode == MessageSecurityMode::None || policy == SecurityPolicy::None {
                    // data length = budget - 1, budget, budget + 1, 2 x budget (last chunk full)
                    for target in [per - 1, per, per + 1, 2 * per] {
                        out.push(op_line(if target == per { "sz" } else { "rt" }, kind, 9, 0, 8196, target - base));
                    }
                }
            }
            // every padding length: 16 consecutive sizes of a single chunk
            if mode == MessageSecurityMode::SignAndEncrypt && policy != SecurityPolicy::None {
                for k in 0..16 {
                    out.push(op_line("rt", "msg", 3, 0, 0, 20 + k));
                }
            }
        }
    }
    // limits at their boundaries
    {
        seed += 1;
        let st = Setup { cfg: Cfg { policy: SecurityPolicy::None, mode: MessageSecurityMode::None, has_cert: true, has_key: true, keys: true, client: true, own: 0, peer: 1, seed, init_policy: None, key_policy: None }, chan_id: 0, token_id: 0 };
        out.push(st.reset_line());
        let len = make_msg("msg", 100).unwrap().byte_len();
        for mm in [len - 1, len, len + 1] {
            out.push(op_line("rt", "msg", 1, mm, 0, 100));
        }
        for mc in [8195usize, 8196, 8197, 1] {
            out.push(op_line("sz", "msg", 1, 0, mc, 100));
        }
        let st2 = Setup { cfg: Cfg { client: false, ..st.cfg.clone() }, chan_id: 0, token_id: 0 };
        out.push(st2.reset_line());
        out.push(op_line("rt", "msg", 1, len - 1, 0, 100));
    }
    // receiver key of 4096 bits (two-byte padding length): EVERY padding length the layout can produce —
    // the message length swept over one full period of the plain-text block size, for each RSA padding
    // overhead (Basic128Rsa15: 512-11, OAEP-SHA1 policies: 512-42, Aes256Sha256RsaPss: 512-66)
    for (policy, period) in [
        (SecurityPolicy::Basic128Rsa15, 501usize),
        (SecurityPolicy::Basic256Sha256, 470),
        (SecurityPolicy::Aes256Sha256RsaPss, 446),
    ] {
        seed += 1;
        let st = Setup { cfg: Cfg { policy, mode: MessageSecurityMode::SignAndEncrypt, has_cert: true, has_key: true, keys: true, client: seed % 2 == 0, own: 4, peer: 1, seed, init_policy: None, key_policy: None }, chan_id: 3, token_id: 4 };
        out.push(st.reset_line());
        for k in 0..period {
            out.push(op_line("rt", "opn", 1, 0, 0, k));
        }
    }
    // receiver key of 4096 bits: the extra padding byte of OPN chunks
    {
        seed += 1;
        let st = Setup { cfg: Cfg { policy: SecurityPolicy::Basic256Sha256, mode: MessageSecurityMode::SignAndEncrypt, has_cert: true, has_key: true, keys: true, client: true, own: 4, peer: 1, seed, init_policy: None, key_policy: None }, chan_id: 1, token_id: 2 };
        out.push(st.reset_line());
        out.push(op_line("rt", "opn", 1, 0, 0, 30));
        out.push(op_line("rt", "opn", 1, 0, 0, 31));
        out.push(op_line("rt", "msg", 1, 0, 8196, 9000));
    }
}

impl Prop for C07 {
    fn id(&self) -> &'static str {
        "C07"
    }

    fn gen(&self, rng: &mut Rng, n: usize, tier: Tier, out: &mut Vec<String>) {
        std::panic::set_hook(Box::new(|_| {}));
        suite(out);
        for _ in 0..n {
            let big = if tier == Tier::Thorough { 2 } else { 0 };
            let policy = *rng.pick(&POLICIES);
            let st = Setup {
                cfg: Cfg {
                    policy,
                    mode: MODES[rng.weighted(&[3, 4, 4, 1])],
                    has_cert: true,
                    has_key: true,
                    keys: true,
                    client: rng.chance(1, 2),
                    own: rng.weighted(&[3, 1, 3, 1, big]),
                    peer: rng.weighted(&[3, 1, 3, 1, big]),
                    seed: rng.below(1 << 32),
                    init_policy: None,
                    key_policy: None,
                },
                chan_id: *rng.pick(&[0u32, 1, 77, u32::MAX]),
                token_id: rng.below(1000) as u32,
            };
            out.push(st.reset_line());
            let sender = st.sender();
            for _ in 0..rng.range(1, 3) {
                let kind = ["msg", "opn", "clo"][rng.weighted(&[6, 2, 1])];
                let max_chunk = match rng.weighted(&[3, 8, 3, 2, 1, 1]) {
                    0 => 0usize,
                    1 => 8196,
                    2 => *rng.pick(&[8197usize, 8200, 8211, 9001]),
                    3 => *rng.pick(&[16384usize, 65535]),
                    4 => *rng.pick(&[1usize, 100, 8195]),
                    _ => rng.range(8196, 12000) as usize,
                };
                // how much body fits (asking the real code), to aim at the chunk boundaries
                let mt = match kind {
                    "opn" => MessageChunkType::OpenSecureChannel,
                    "clo" => MessageChunkType::CloseSecureChannel,
                    _ => MessageChunkType::Message,
                };
                let per = std::panic::catch_unwind(std::panic::AssertUnwindSafe(|| {
                    MessageChunk::body_size_from_message_size(mt, &sender, max_chunk.max(8196)).unwrap_or(8000)
                }))
                .unwrap_or(8000);
                let base = make_msg(kind, 0).map(|m| m.byte_len() + m.node_id().byte_len()).unwrap_or(60);
                let chunks_wanted = rng.weighted(&[5, 4, 2, 1]) + 1;
                let target = match rng.weighted(&[3, 5, 2]) {
                    0 => rng.range(0, 300) as usize + base,
                    1 => (per * chunks_wanted + 20 - rng.below(41) as usize).max(base), // ±20 around a boundary
                    _ => rng.range(base as i64, (per * chunks_wanted) as i64 + 1) as usize,
                };
                let str_len = target.saturating_sub(base).min(if tier == Tier::Thorough { 60000 } else { 34000 });
                let msg = make_msg(kind, str_len).unwrap();
                let max_msg = match rng.weighted(&[6, 1, 1]) {
                    0 => 0,
                    1 => msg.byte_len() + rng.below(3) as usize - 1,
                    _ => 65535 * 5,
                };
                let seq = *rng.pick(&[1u32, 2, 1000, 70000, 4_000_000_000]);
                let op = if rng.chance(1, 3) { "sz" } else { "rt" };
                out.push(format!(
                    "{} {} {} {} {} {} {} {} {}",
                    op,
                    kind,
                    seq,
                    rng.below(100000) + 1,
                    max_msg,
                    max_chunk,
                    str_len,
                    msg.byte_len(),
                    msg.node_id().byte_len()
                ));
            }
        }
    }

    fn runner(&self) -> Box<dyn Runner> {
        Box::new(R { st: None })
    }
}

struct R {
    st: Option<Setup>,
}

fn list(v: &[usize]) -> String {
    format!("[{}]", v.iter().map(|x| x.to_string()).collect::<Vec<_>>().join(","))
}

impl Runner for R {
    fn step(&mut self, toks: &[&str]) -> (String, Verdict) {
        match toks {
            ["reset", ..] => match Setup::parse(toks) {
                Some(st) => {
                    self.st = Some(st);
                    ("ok".to_string(), Verdict::Ok)
                }
                None => ("bad-op".to_string(), Verdict::Ok),
            },
            [op @ ("rt" | "sz"), kind, seq, req, max_msg, max_chunk, str_len, msg_len, nid_len] => {
                let Some(st) = self.st.as_ref() else { return ("bad-op".into(), Verdict::Ok) };
                let p = |s: &str| s.parse::<usize>().ok();
                let (Some(seq), Some(req), Some(max_msg), Some(max_chunk), Some(str_len), Some(msg_len), Some(nid_len)) =
                    (p(seq), p(req), p(max_msg), p(max_chunk), p(str_len), p(msg_len), p(nid_len))
                else {
                    return ("bad-op".into(), Verdict::Ok);
                };
                let Some(msg) = make_msg(kind, str_len) else { return ("bad-op".into(), Verdict::Ok) };
                if msg.byte_len() != msg_len || msg.node_id().byte_len() != nid_len {
                    return ("bad-op".into(), Verdict::Ok);
                }
                let sender = st.sender();
                let mut receiver = st.receiver();
                let sec = secured(&st.cfg);
                let chunks = match Chunker::encode(seq as u32, req as u32, max_msg, max_chunk, &sender, &msg) {
                    Ok(c) => c,
                    Err(e) => return (format!("err {}", e.name()), Verdict::Ok),
                };
                let n = chunks.len();
                let plain: Vec<usize> = chunks.iter().map(|c| c.data.len()).collect();
                let mut flags = String::new();
                let mut seqs = Vec::new();
                let mut reqs = Vec::new();
                for c in &chunks {
                    let info = c.chunk_info(&sender).expect("chunk info of a chunk we made");
                    flags.push(match info.message_header.is_final {
                        MessageIsFinalType::Intermediate => 'C',
                        MessageIsFinalType::Final => 'F',
                        MessageIsFinalType::FinalError => 'A',
                    });
                    seqs.push(info.sequence_header.sequence_number as usize);
                    reqs.push(info.sequence_header.request_id as usize);
                }
                // sender side security
                let mut wire = Vec::new();
                for c in &chunks {
                    let mut dst = vec![0u8; c.data.len() * 2 + 8192];
                    match sender.apply_security(c, &mut dst) {
                        Ok(k) => {
                            dst.truncate(k);
                            wire.push(dst);
                        }
                        Err(e) => {
                            return (
                                format!("ok n={} plain={} apply=err:{}", n, list(&plain), e.name()),
                                Verdict::fail("apply_ok", "-", "apply_security failed on a chunk the sender made"),
                            )
                        }
                    }
                }
                let secl: Vec<usize> = wire.iter().map(|w| w.len()).collect();
                let head = format!(
                    "ok n={} plain={} sec={} flags={} seq={} req={}",
                    n,
                    list(&plain),
                    list(&secl),
                    flags,
                    list(&seqs),
                    list(&reqs)
                );
                // ---- oracle part 1: header invariants (property text)
                let mut verdict = Verdict::Ok;
                let wellformed = (0..n).all(|i| seqs[i] == seq + i && reqs[i] == req)
                    && flags.chars().rev().skip(1).all(|c| c == 'C')
                    && flags.ends_with('F');
                if !wellformed {
                    verdict = Verdict::fail("header_invariants", "-", format!("seq {:?} req {:?} flags {}", seqs, reqs, flags));
                }
                // The repo's own endpoint validation (ServerEndpoint::is_valid) admits only pairs in which
                // policy and mode are both None or both not None; other pairs are outside the property
                // (they are still compared with the model).
                let valid_pair = (st.cfg.policy == SecurityPolicy::None) == (st.cfg.mode == MessageSecurityMode::None)
                    && st.cfg.mode != MessageSecurityMode::Invalid;
                // ---- receiver
                let mut verified = Vec::new();
                for (i, w) in wire.iter().enumerate() {
                    match receiver.verify_and_remove_security(w) {
                        Ok(c) => verified.push(c),
                        Err(e) => {
                            let v = if valid_pair {
                                Verdict::fail("recv_ok", "-", "the receiver rejected an untouched chunk")
                            } else {
                                verdict
                            };
                            return (format!("{} recv=err{}:{}", head, i, e.name()), v);
                        }
                    }
                }
                let mut bodies = Vec::new();
                let mut asm = Vec::new();
                for c in &verified {
                    match c.chunk_info(&receiver) {
                        Ok(info) => {
                            bodies.push(info.body_length);
                            asm.extend_from_slice(&c.data[info.body_offset..info.body_offset + info.body_length]);
                        }
                        Err(_) => bodies.push(0),
                    }
                }
                let mut data = Vec::new();
                let _ = msg.node_id().encode(&mut data);
                let _ = msg.encode(&mut data);
                let decoded = Chunker::decode(&verified, &receiver, None);
                let same = match &decoded {
                    Ok(m) => format!("{:?}", m) == format!("{:?}", msg),
                    Err(_) => false,
                };
                let line = format!("{} recv=ok body={} asm={} pre={}", head, list(&bodies), asm.len(), b(asm.starts_with(&data)));
                if matches!(verdict, Verdict::Ok) && valid_pair {
                    if *op == "rt" {
                        if !same {
                            let class = if n > 1 && sec && *kind != "opn" { "multichunk-sym-secured" } else { "other" };
                            verdict = Verdict::fail(
                                "body_equal",
                                class,
                                format!("decoded message differs / fails: {:?}", decoded.as_ref().err()),
                            );
                        }
                    } else if max_chunk > 0 {
                        if let Some(over) = secl.iter().map(|s| s.saturating_sub(max_chunk)).max().filter(|o| *o > 0) {
                            let class = if !sec {
                                "unsecured"
                            } else if *kind == "opn" {
                                "opn-secured"
                            } else if over < 16 {
                                "sym-secured-lt16"
                            } else {
                                "sym-secured-ge16"
                            };
                            verdict = Verdict::fail("size_bound", class, format!("secured chunk exceeds {} by {}", max_chunk, over));
                        }
                    }
                }
                (line, verdict)
            }
            _ => ("bad-op".to_string(), Verdict::Ok),
        }
    }
}
