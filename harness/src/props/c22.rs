//! C22 — keep-alives keep flowing and idle subscriptions expire on time.
//!
//! Drives the real `Subscriptions` (one `Subscription`, optionally with one monitored item on a
//! variable of the fixture address space) with timer ticks at synthetic times, publish requests
//! and writes; prints state, counters and the publish responses of every op.
use crate::common::*;
use crate::fixtures;
use crate::subs_util::*;

pub struct C22;
pub static P: C22 = C22;

const INTERVAL_MS: f64 = 100_000.0;

impl Prop for C22 {
    fn id(&self) -> &'static str {
        "C22"
    }

    fn gen(&self, rng: &mut Rng, n: usize, tier: Tier, out: &mut Vec<String>) {
        // (1) small-scope EXHAUSTIVE enumeration of single `update_state` steps: every state, both
        // counters at 0..3 (every comparison of the table at, below and above its constant), every
        // flag and every input combination — 10 240 steps; every row in every guard outcome.
        for st in 0..5 {
            for life in 0..4 {
                out.push("reset 3 9 1 0".to_string());
                for ka in 0..4 {
                    for bits in 0..128u32 {
                        let f = |k: u32| (bits >> k) & 1;
                        out.push(format!(
                            "us {} {} {} {} {} 9 3 {} {} {} {} {}",
                            st, life, ka, f(0), f(1), f(2), f(3), f(4), f(5), f(6)
                        ));
                    }
                }
            }
        }
        // (2) histories
        for _ in 0..n {
            let big = tier == Tier::Thorough && rng.chance(1, 4);
            let ka: u64 = match rng.weighted(&[1, 6, 6, 4, 3, 2]) {
                0 => 0,
                1 => 1,
                2 => 2,
                3 => 3,
                4 => rng.range(4, 6) as u64,
                _ => {
                    if big {
                        rng.range(7, 30) as u64
                    } else {
                        rng.range(6, 9) as u64
                    }
                }
            };
            // lifetime: mostly as revised by the server (>= 3 * ka), sometimes smaller
            let life: u64 = match rng.weighted(&[6, 4, 2, 1, 1]) {
                0 => 3 * ka.max(1),
                1 => 3 * ka.max(1) + rng.below(6),
                2 => 3 * ka.max(1) + rng.below(30),
                3 => rng.range(1, 3) as u64,
                _ => ka + rng.below(3) + 1,
            };
            let enabled = !rng.chance(1, 5);
            let item = rng.chance(1, 4);
            out.push(format!("reset {} {} {} {}", ka, life, b(enabled), b(item)));
            // regimes: 0 = requests always available, 1 = never, 2 = intermittent, 3 = chaotic
            // 4 = served for a while, abandoned for longer than the lifetime, served again
            let regime = rng.weighted(&[5, 3, 3, 2, 3]);
            let served_for = rng.range(1, 2 * ka as i64 + 4);
            let writes = item && rng.chance(2, 3);
            // ModifySubscription / SetPublishingMode / other service calls in the middle of the history
            let services = rng.chance(1, 4);
            let p_elapsed = *rng.pick(&[1u64, 1, 1, 2, 4]); // elapsed with probability 1 - 1/(p+1) ...
            let ticks = life as i64 + ka as i64 * 2 + rng.range(2, 12);
            let ticks = if regime == 4 { served_for + life as i64 + 2 * ka as i64 + rng.range(6, 12) } else { ticks };
            let ticks = ticks.min(if tier == Tier::Thorough { 200 } else { 70 });
            let mut rid = 1u64;
            let burst = rng.range(1, 8);
            let mut since = 0i64;
            let mut tick_no = 0i64;
            for _ in 0..ticks {
                match regime {
                    0 => {
                        out.push(format!("pub {}", rid));
                        rid += 1;
                        if rng.chance(1, 10) {
                            out.push(format!("pub {}", rid));
                            rid += 1;
                        }
                    }
                    1 => {}
                    2 => {
                        since += 1;
                        if since >= burst {
                            since = 0;
                            out.push(format!("pub {}", rid));
                            rid += 1;
                        }
                    }
                    4 => {
                        tick_no += 1;
                        let silent_until = served_for + life as i64 + ka as i64 + 4;
                        if tick_no <= served_for || tick_no > silent_until {
                            out.push(format!("pub {}", rid));
                            rid += 1;
                        }
                    }
                    _ => {
                        for _ in 0..rng.weighted(&[3, 3, 1, 1]) {
                            out.push(format!("pub {}", rid));
                            rid += 1;
                        }
                    }
                }
                if services && rng.chance(1, 8) {
                    match rng.below(4) {
                        0 => {
                            let k = *rng.pick(&[0u64, 1, 2, 3, 5, 40000]);
                            let l = *rng.pick(&[0u64, 1, 3, 6, 7, 20, 100000]);
                            let i = *rng.pick(&[100_000u64, 100_000, 50_000, 200_000, 1_000, 400_000]);
                            out.push(format!("modify {} {} {}", k, l, i));
                        }
                        3 => out.push(format!("setinterval {}", *rng.pick(&[100_000u64, 50_000, 200_000, 1_000, 400_000, 25_000]))),
                        1 => out.push(format!("enable {}", b(rng.chance(1, 2)))),
                        _ => out.push("touch".to_string()),
                    }
                }
                let e = p_elapsed == 1 || !rng.chance(1, p_elapsed + 1);
                let w = writes && rng.chance(1, 2);
                out.push(format!("timer {} {}", b(e), b(w)));
            }
            if rng.chance(1, 2) {
                // late publish requests collect what has piled up (kept data notifications: rows #10
                // then #5 — "more notifications" — and finally a pending status change)
                for _ in 0..rng.range(1, 4) {
                    out.push(format!("pub {}", rid));
                    rid += 1;
                }
                out.push("timer 1 0".to_string());
                out.push(format!("pub {}", rid));
            }
        }
    }

    fn runner(&self) -> Box<dyn Runner> {
        Box::new(R {
            w: None,
            ka: 0,
            life: 0,
            enabled: true,
            item: false,
            n_elapsed: 0,
            since_ka: 0,
            served_idle: true,
            never_req: true,
            idle_run: 0,
            perturbed: false,
            closed_seen: false,
        })
    }
}

struct R {
    w: Option<World>,
    // configuration (inputs)
    ka: u64,
    life: u64,
    enabled: bool,
    item: bool,
    // bookkeeping of the oracle, from the inputs and the implementation's outputs only
    n_elapsed: u64,    // publishing intervals elapsed since the creation tick
    since_ka: u64,     // publishing intervals elapsed since the last keep-alive response (or creation)
    served_idle: bool, // so far: a request was queued at every timer tick, and no data (no item)
    never_req: bool,   // so far: no publish request was ever sent
    perturbed: bool,   // a service changed parameters / reset counters mid-history: the regime claims no longer apply
    idle_run: u64,     // publishing intervals in a row with no request queued and nothing sent
    closed_seen: bool, // the subscription was seen Closed / removed / a status change was published
}

impl R {
    fn valid_config(&self) -> bool {
        self.ka >= 1 && self.life >= 3 * self.ka
    }

    /// the two statements about WHEN a subscription may close, evaluated when it is first seen closed
    fn closing_checks(&mut self, closed_now: bool, class: &str) -> Option<Verdict> {
        let mut v = None;
        if closed_now && !self.closed_seen {
            // "... and never expires the subscription" (enabled, requests always available, no data)
            if self.valid_config() && self.enabled && self.served_idle && !self.perturbed {
                v = Some(Verdict::fail("never_expires", class, format!("served idle subscription closed after {} intervals", self.n_elapsed)));
            }
            // "closed ... after about lifetime-count publishing intervals (within one interval), and not before"
            if self.life >= 1 && !self.perturbed && self.n_elapsed + 1 < self.life {
                v = Some(Verdict::fail("not_before", class, format!("closed after {} intervals, lifetime count {}", self.n_elapsed, self.life)));
            }
            self.closed_seen = true;
        }
        v
    }

    fn cfg_class(&self) -> &'static str {
        if !self.valid_config() {
            "unrevised-config"
        } else if self.life < self.ka + 3 {
            "life-lt-ka-plus-3"
        } else {
            "revised-config"
        }
    }
}

impl Runner for R {
    fn step(&mut self, toks: &[&str]) -> (String, Verdict) {
        let fx = fixtures::server();
        match toks {
            ["reset", k, l, e, i] => {
                self.ka = k.parse().unwrap();
                self.life = l.parse().unwrap();
                self.enabled = *e == "1";
                self.item = *i == "1";
                let mut w = World::new(fx, 30_000);
                w.add_subscription(fx, 1, self.enabled, INTERVAL_MS, self.life as u32, self.ka as u32, 0, self.item);
                self.served_idle = !self.item;
                let s = w.show_single(&[]);
                self.w = Some(w);
                (format!("ok {}", s), Verdict::Ok)
            }
            ["timer", e, wr] => {
                let e = *e == "1";
                let wr = *wr == "1";
                let class = self.cfg_class();
                let valid = self.valid_config();
                let w = self.w.as_mut().unwrap();
                if wr {
                    w.write_variable(fx);
                }
                let req_queued = !w.subs.publish_request_ids().is_empty();
                let state_before = w.subs.get(1).map(|s| s.verif_state());
                let cur = w.subs.get(1).map(|s| s.publishing_interval()).unwrap_or(INTERVAL_MS);
                let now = w.time_for_tick(e, cur);
                w.tick(fx, &now);
                let resps = w.take_responses();
                let line = format!("ok {}", w.show_single(&resps));

                // ---------------- oracle (property text, implementation outputs only) ------------
                // an elapsed publishing interval (the tick that leaves state Creating starts the clock)
                let counted = e && state_before.is_some() && state_before != Some(1);
                if !req_queued || wr {
                    self.served_idle = false;
                }
                let kas = resps.iter().filter(|r| r.kind == "ka").count();
                let scs = resps.iter().filter(|r| r.kind.starts_with("sc")).count();
                if counted {
                    self.n_elapsed += 1;
                    self.since_ka += 1;
                }
                if kas > 0 {
                    self.since_ka = 0;
                }
                let st = w.subs.get(1).map(|s| s.verif_state());
                let closed_now = st.is_none() || st == Some(0) || scs > 0;
                let mut v = Verdict::Ok;
                if resps.iter().any(|r| r.kind == "sc?") {
                    v = Verdict::fail("status_is_bad_timeout", class, "status change with a status other than BadTimeout");
                }
                if valid && self.enabled && self.served_idle && !self.perturbed {
                    // "a keep-alive after the first publishing interval"
                    if counted && self.n_elapsed == 1 && kas == 0 {
                        v = Verdict::fail("keepalive_first", class, "no keep-alive at the first elapsed publishing interval");
                    }
                    // "then at least once every max-keep-alive-count intervals (one interval of slack)"
                    // (a subscription that closed is reported by never_expires below, once)
                    if self.since_ka > self.ka && !closed_now && !self.closed_seen {
                        v = Verdict::fail(
                            "keepalive_period",
                            class,
                            format!("{} intervals without a keep-alive, max keep-alive count {}", self.since_ka, self.ka),
                        );
                    }
                }
                // "If the client sends no publish requests, the subscription is closed ... after about
                // lifetime-count publishing intervals (within one interval)": also when the client STOPS
                // sending them — count the intervals in a row with no request queued and nothing sent
                if req_queued || !resps.is_empty() {
                    self.idle_run = 0;
                } else if counted {
                    self.idle_run += 1;
                }
                if !closed_now && valid && !self.closed_seen && self.idle_run > self.life + 1 {
                    v = Verdict::fail(
                        "expires_on_time",
                        class,
                        format!("still open after {} intervals in a row without publish requests, lifetime count {}", self.idle_run, self.life),
                    );
                }
                if let Some(f) = self.closing_checks(closed_now, class) {
                    v = f;
                }
                (line, v)
            }
            ["pub", r] => {
                let rid: u32 = r.parse().unwrap();
                let class = self.cfg_class();
                let w = self.w.as_mut().unwrap();
                // (exactly one queued notification: the status change is then the next one to go out)
                let had_closed_pending = w.subs.get(1).map(|s| s.verif_state() == 0 && s.verif_notifications_len() == 1).unwrap_or(false);
                let cur = w.subs.get(1).map(|s| s.publishing_interval()).unwrap_or(INTERVAL_MS);
                let now = w.time_for_tick(false, cur);
                let res = w.publish(fx, &now, rid);
                let resps = w.take_responses();
                let line = format!("ok res={} {}", if res.is_ok() { "ok" } else { "toomany" }, w.show_single(&resps));
                self.never_req = false;
                self.idle_run = 0;
                let mut v = Verdict::Ok;
                let kas = resps.iter().filter(|r| r.kind == "ka").count();
                if kas > 0 {
                    self.since_ka = 0;
                }
                let scs = resps.iter().filter(|r| r.kind == "sc").count();
                if resps.iter().any(|r| r.kind == "sc?") {
                    v = Verdict::fail("status_is_bad_timeout", class, "status change with a status other than BadTimeout");
                }
                // "closed with a BadTimeout status change": the first request after the expiry collects it
                if had_closed_pending && res.is_ok() && scs == 0 {
                    v = Verdict::fail("status_change_delivered", class, "expired subscription did not deliver its BadTimeout status change");
                }
                let st = w.subs.get(1).map(|s| s.verif_state());
                let closed_now = st.is_none() || st == Some(0) || scs > 0;
                if let Some(f) = self.closing_checks(closed_now, class) {
                    v = f;
                }
                (line, v)
            }
            [op @ ("modify" | "enable" | "setinterval"), ..] => {
                // the REAL ModifySubscription / SetPublishingMode services: the subscription is moved
                // into a session for the call and back afterwards
                use opcua::server::prelude::*;
                use opcua::verif_hooks::subs as hooks;
                let w = self.w.as_mut().unwrap();
                let Some(sub) = w.subs.remove(1) else {
                    return ("err nosub".to_string(), Verdict::Ok);
                };
                let session = std::sync::Arc::new(opcua::sync::RwLock::new(opcua::server::session::Session::new(fx.server_state.clone())));
                hooks::session_insert_subscription(&mut session.write(), 1, sub);
                let header = RequestHeader::new(&NodeId::null(), &DateTime::now(), 1);
                let good = if *op == "modify" || *op == "setinterval" {
                    // `setinterval i` = ModifySubscription with the current counts and a new interval
                    let (k, l, i): (u32, u32, f64) = if *op == "modify" {
                        (toks[1].parse().unwrap(), toks[2].parse().unwrap(), toks[3].parse().unwrap())
                    } else {
                        let sub = session.read();
                        let p = hooks::session_subscription_params(&sub, 1).unwrap();
                        (p.0, p.1, toks[1].parse().unwrap())
                    };
                    let req = ModifySubscriptionRequest {
                        request_header: header,
                        subscription_id: 1,
                        requested_publishing_interval: i,
                        requested_lifetime_count: l,
                        requested_max_keep_alive_count: k,
                        max_notifications_per_publish: 0,
                        priority: 0,
                    };
                    matches!(hooks::modify_subscription(fx.server_state.clone(), session.clone(), &req), SupportedMessage::ModifySubscriptionResponse(_))
                } else {
                    let req = SetPublishingModeRequest {
                        request_header: header,
                        publishing_enabled: toks[1] == "1",
                        subscription_ids: Some(vec![1]),
                    };
                    match hooks::set_publishing_mode(session.clone(), &req) {
                        SupportedMessage::SetPublishingModeResponse(r) => r.results.map(|v| v == vec![StatusCode::Good]).unwrap_or(false),
                        _ => false,
                    }
                };
                let sub = hooks::session_remove_subscription(&mut session.write(), 1).expect("subscription");
                self.ka = sub.max_keep_alive_count() as u64;
                self.life = sub.max_lifetime_count() as u64;
                self.enabled = sub.verif_publishing_enabled();
                w.subs.insert(1, sub);
                self.perturbed = true;
                self.idle_run = 0;
                let v = if good { Verdict::Ok } else { Verdict::fail("service_ok", "service", "the service refused a valid request") };
                (format!("ok {}", w.show_single(&[])), v)
            }
            ["touch"] => {
                // any service naming the subscription resets its lifetime counter (here: DeleteMonitoredItems)
                let w = self.w.as_mut().unwrap();
                match w.subs.get_mut(1) {
                    None => ("err nosub".to_string(), Verdict::Ok),
                    Some(sub) => {
                        let _ = sub.delete_monitored_items(&[4_000_000]);
                        self.perturbed = true;
                        self.idle_run = 0;
                        (format!("ok {}", w.show_single(&[])), Verdict::Ok)
                    }
                }
            }
            ["us", st, life, ka, sent, en, ml, mk, t, na, more, req, ex] => {
                // ONE call of the real `update_state` from an arbitrary position
                let pb = |x: &str| x == "1";
                let diag = std::sync::Arc::new(opcua::sync::RwLock::new(opcua::server::diagnostics::ServerDiagnostics::default()));
                let mut sub = opcua::server::subscriptions::subscription::Subscription::new(
                    diag,
                    1,
                    pb(en),
                    INTERVAL_MS,
                    ml.parse().unwrap(),
                    mk.parse().unwrap(),
                    0,
                );
                sub.verif_set_position(st.parse().unwrap(), life.parse().unwrap(), ka.parse().unwrap(), pb(sent));
                let r = std::panic::catch_unwind(std::panic::AssertUnwindSafe(|| {
                    opcua::verif_hooks::subs::subscription_update_state(&mut sub, pb(t), pb(na), pb(more), pb(req), pb(ex))
                }));
                let line = match r {
                    Err(_) => "ok row=panic".to_string(),
                    Ok((row, action)) => {
                        use opcua::server::subscriptions::subscription::UpdateStateAction as A;
                        let a = match action {
                            A::None => "none",
                            A::ReturnKeepAlive => "keepAlive",
                            A::ReturnNotifications => "notifications",
                            A::SubscriptionCreated => "created",
                            A::SubscriptionExpired => "expired",
                        };
                        format!(
                            "ok row={} act={} st={} life={} ka={} sent={}",
                            row,
                            a,
                            sub.verif_state(),
                            sub.lifetime_counter(),
                            sub.keep_alive_counter(),
                            b(sub.message_sent())
                        )
                    }
                };
                // the two panics of update_state are unreachable from tick() with revised counts
                // (ReceivePublishRequest together with timer expiry; lifetime counter 0); no claim here
                (line, Verdict::Ok)
            }
            _ => ("bad-op".to_string(), Verdict::Ok),
        }
    }

    fn on_panic(&self, _toks: &[&str]) -> Verdict {
        if self.life == 0 {
            // a lifetime count of 0 cannot come out of revise_subscription_values (C23)
            Verdict::Ok
        } else {
            Verdict::fail("no_panic", self.cfg_class(), "implementation panicked")
        }
    }
}
