//! C14 — security token renewal never breaks a healthy channel.
//!
//! A real client `SecureChannel` (+ the client's `SecureChannelState` issue/renew logic) and a real
//! server `SecureChannel` (+ `SecureChannelService`) are connected by two in-memory FIFO links that
//! carry the *secured bytes*; the ops of a schedule move bytes along the links.  Everything that
//! decides acceptance is the real code: `Chunker::encode`, `apply_security`,
//! `verify_and_remove_security`, `open_secure_channel`, `end_issue_or_renew_secure_channel`.
use crate::common::*;
use arc_swap::ArcSwap;
use opcua::client::VerifSecureChannelState;
use opcua::core::comms::chunker::Chunker;
use opcua::core::comms::secure_channel::{Role, SecureChannel};
use opcua::core::prelude::*;
use opcua::crypto::{CertificateStore, PrivateKey, SecurityPolicy, X509Data, X509};
use opcua::server::comms::VerifSecureChannelService;
use opcua::sync::RwLock;
use std::collections::VecDeque;
use std::str::FromStr;
use std::sync::{Arc, OnceLock};

pub struct C14;
pub static P: C14 = C14;

const POLICIES: &[(&str, &str)] = &[
    ("None", "None"),
    ("Basic128Rsa15", "Sign"),
    ("Basic128Rsa15", "SignAndEncrypt"),
    ("Basic256", "SignAndEncrypt"),
    ("Basic256Sha256", "Sign"),
    ("Basic256Sha256", "SignAndEncrypt"),
    ("Aes128-Sha256-RsaOaep", "SignAndEncrypt"),
    ("Aes256-Sha256-RsaPss", "Sign"),
    ("Aes256-Sha256-RsaPss", "SignAndEncrypt"),
];

impl Prop for C14 {
    fn id(&self) -> &'static str {
        "C14"
    }

    fn gen(&self, rng: &mut Rng, n: usize, tier: Tier, out: &mut Vec<String>) {
        for i in 0..n {
            let (p, m) = if i % 7 == 0 { POLICIES[0] } else { *rng.pick(&POLICIES[1..]) };
            out.push(format!("reset {} {}", p, m));
            if i % 2 == 1 {
                // structured schedule: 1..3 (thorough: ..5) complete renewals with traffic before, during
                // and after each; "during" traffic is what exposes key-slot handling
                let renewals = rng.range(1, if tier == Tier::Thorough { 5 } else { 3 });
                let traffic = |rng: &mut Rng, out: &mut Vec<String>, k: i64| {
                    for _ in 0..k {
                        out.push(rng.pick(&["cSend", "sSend", "sStep", "cStep", "sStep", "cStep"]).to_string());
                    }
                };
                for _ in 0..renewals {
                    let k = rng.range(0, 5);
                    traffic(rng, out, k);
                    out.push(if rng.chance(1, 6) { "cRenewSame" } else { "cRenew" }.to_string());
                    // drive the handshake to completion with a little interleaved traffic
                    for _ in 0..rng.range(4, 12) {
                        let op = match rng.weighted(&[1, 1, 5, 5, 4]) {
                            0 => "cSend",
                            1 => "sSend",
                            2 => "sStep",
                            3 => "cStep",
                            _ => "cApply",
                        };
                        out.push(op.to_string());
                    }
                    for op in ["sStep", "sStep", "cStep", "cStep", "cApply"] {
                        out.push(op.to_string());
                    }
                }
                let k = rng.range(2, 6);
                traffic(rng, out, k);
                for op in ["cSend", "sSend", "sStep", "sStep", "cStep", "cStep"] {
                    out.push(op.to_string());
                }
                continue;
            }
            let len = if tier == Tier::Thorough { rng.range(4, 40) } else { rng.range(3, 22) };
            for _ in 0..len {
                let op = match rng.weighted(&[5, 3, 7, 5, 7, 4, 1, 1]) {
                    0 => "cSend".to_string(),
                    1 => if rng.chance(1, 5) { "cRenewSame".to_string() } else { "cRenew".to_string() },
                    2 => "sStep".to_string(),
                    3 => "sSend".to_string(),
                    4 => "cStep".to_string(),
                    5 => "cApply".to_string(),
                    6 => format!("cForge {}", 1000 + rng.below(3)),
                    _ => format!("sForge {}", 1000 + rng.below(3)),
                };
                out.push(op);
            }
        }
    }

    fn runner(&self) -> Box<dyn Runner> {
        Box::new(R { w: None })
    }
}

fn certs() -> &'static [(X509, PrivateKey); 2] {
    static C: OnceLock<[(X509, PrivateKey); 2]> = OnceLock::new();
    C.get_or_init(|| {
        let mk = |name: &str| {
            X509::cert_and_pkey(&X509Data {
                key_size: 2048,
                common_name: name.to_string(),
                organization: "verif".to_string(),
                organizational_unit: "verif".to_string(),
                country: "EN".to_string(),
                state: "X".to_string(),
                alt_host_names: vec![format!("urn:{}", name), "localhost".to_string()],
                certificate_duration_days: 60,
            })
            .expect("cert")
        };
        [mk("client"), mk("server")]
    })
}

#[derive(Clone, Debug)]
enum Tag {
    Msg { epoch: u32, forged: bool },
    RenewReq,
    RenewResp(u32),
    /// a ServiceFault answer to an OPN request
    Fault,
}

struct World {
    secured: bool,
    cli: Arc<RwLock<SecureChannel>>,
    cst: VerifSecureChannelState,
    srv: SecureChannel,
    svc: VerifSecureChannelService,
    /// an unrelated pair of endpoints: same certificates/policy, keys from nonces nobody else saw
    forger_c: SecureChannel,
    forger_s: SecureChannel,
    c2s: VecDeque<(Vec<u8>, Tag)>,
    s2c: VecDeque<(Vec<u8>, Tag)>,
    pend: Option<SupportedMessage>,
    pend_fault: Option<SupportedMessage>,
    outstanding: bool,
    seq: u32,
    // oracle bookkeeping (from observed token ids only)
    s_seen_new: bool,
    c_seen_new: bool,
}

struct R {
    w: Option<World>,
}

fn dup(k: &PrivateKey) -> PrivateKey {
    PrivateKey::from_pem(&k.private_key_to_pem().unwrap()).unwrap()
}

fn store() -> Arc<RwLock<CertificateStore>> {
    Arc::new(RwLock::new(CertificateStore::new(std::path::Path::new(
        "/nonexistent-verif-pki",
    ))))
}

fn sample_message(handle: u32) -> SupportedMessage {
    GetEndpointsRequest {
        request_header: RequestHeader {
            authentication_token: NodeId::new(0, 99),
            timestamp: DateTime::now(),
            request_handle: handle,
            return_diagnostics: DiagnosticBits::empty(),
            audit_entry_id: UAString::null(),
            timeout_hint: 1000,
            additional_header: ExtensionObject::null(),
        },
        endpoint_url: UAString::from("opc.tcp://verif"),
        locale_ids: None,
        profile_uris: None,
    }
    .into()
}

fn secure(ch: &SecureChannel, seq: u32, msg: &SupportedMessage) -> Vec<u8> {
    let chunks = Chunker::encode(seq, seq, 0, 0, ch, msg).expect("encode");
    assert_eq!(chunks.len(), 1);
    let mut dst = vec![0u8; chunks[0].data.len() + 8192];
    let n = ch.apply_security(&chunks[0], &mut dst).expect("apply_security");
    dst.truncate(n);
    dst
}

impl World {
    fn new(policy: SecurityPolicy, mode: MessageSecurityMode) -> World {
        let [(ccert, ckey), (scert, skey)] = certs();
        let opts = DecodingOptions::default();
        let mut cli = SecureChannel::new(store(), Role::Client, opts.clone());
        cli.set_cert(Some(ccert.clone()));
        cli.set_private_key(Some(dup(ckey)));
        cli.set_remote_cert(Some(scert.clone()));
        cli.set_security_policy(policy);
        cli.set_security_mode(mode);
        let cli = Arc::new(RwLock::new(cli));
        let cst = VerifSecureChannelState::new(
            false,
            cli.clone(),
            Arc::new(ArcSwap::new(Arc::new(NodeId::null()))),
        );
        let mut srv = SecureChannel::new(store(), Role::Server, opts.clone());
        srv.set_cert(Some(scert.clone()));
        srv.set_private_key(Some(dup(skey)));
        srv.set_security_policy(policy);
        srv.set_security_mode(mode);
        let mk_forger = |role: Role, cert: &X509, key: &PrivateKey, rcert: &X509, ln: u8, rn: u8| {
            let mut f = SecureChannel::new(store(), role, opts.clone());
            f.set_cert(Some(cert.clone()));
            f.set_private_key(Some(dup(key)));
            f.set_remote_cert(Some(rcert.clone()));
            f.set_security_policy(policy);
            f.set_security_mode(mode);
            f.set_secure_channel_id(1);
            f.set_token_id(1);
            if policy != SecurityPolicy::None {
                f.set_local_nonce(&vec![ln; 32]);
                f.set_remote_nonce(&vec![rn; 32]);
                f.derive_keys();
            }
            f
        };
        let forger_c = mk_forger(Role::Client, ccert, ckey, scert, 0xA1, 0xB2);
        let forger_s = mk_forger(Role::Server, scert, skey, ccert, 0xC3, 0xD4);
        let mut w = World {
            secured: policy != SecurityPolicy::None && mode != MessageSecurityMode::None,
            cli,
            cst,
            srv,
            svc: VerifSecureChannelService::new(),
            forger_c,
            forger_s,
            c2s: VecDeque::new(),
            s2c: VecDeque::new(),
            pend: None,
            pend_fault: None,
            outstanding: false,
            seq: 1,
            s_seen_new: true,
            c_seen_new: true,
        };
        // the initial Issue, through the same code paths
        let req = w.cst.verif_begin_issue_or_renew(SecurityTokenRequestType::Issue);
        let bytes = secure(&w.cli.read(), 1, &req);
        let (resp, _) = w.server_opn(&bytes).expect("issue");
        let chunk = w.cli.write().verify_and_remove_security(&resp).expect("issue resp");
        let msg = Chunker::decode(&[chunk], &w.cli.read(), None).expect("issue decode");
        w.cst.verif_end_issue_or_renew(msg).expect("issue end");
        w
    }

    fn next_seq(&mut self) -> u32 {
        self.seq += 1;
        self.seq
    }

    /// server side handling of an OPN chunk; returns the secured response bytes
    fn server_opn(&mut self, bytes: &[u8]) -> Result<(Vec<u8>, bool), StatusCode> {
        let chunk = self.srv.verify_and_remove_security(bytes)?;
        let header = chunk.security_header(&self.srv.decoding_options())?;
        let msg = Chunker::decode(&[chunk], &self.srv, None)?;
        let resp = self.svc.open_secure_channel(&mut self.srv, &header, 0, &msg)?;
        let s = self.next_seq();
        let is_fault = matches!(resp, SupportedMessage::ServiceFault(_));
        Ok((secure(&self.srv, s, &resp), is_fault))
    }

    fn c_epoch(&self) -> u32 {
        self.cli.read().token_id() - 1
    }
    fn s_epoch(&self) -> u32 {
        self.srv.token_id() - 1
    }
}

impl Runner for R {
    fn step(&mut self, toks: &[&str]) -> (String, Verdict) {
        if let ["reset", p, m] = toks {
            let policy = SecurityPolicy::from_str(p).unwrap();
            let mode = match *m {
                "None" => MessageSecurityMode::None,
                "Sign" => MessageSecurityMode::Sign,
                _ => MessageSecurityMode::SignAndEncrypt,
            };
            let w = World::new(policy, mode);
            let s = format!("ok secured={}", b(w.secured));
            self.w = Some(w);
            return (s, Verdict::Ok);
        }
        let w = self.w.as_mut().unwrap();
        match toks {
            ["cSend"] => {
                let s = w.next_seq();
                let e = w.c_epoch();
                let bytes = secure(&w.cli.read(), s, &sample_message(s));
                w.c2s.push_back((bytes, Tag::Msg { epoch: e, forged: false }));
                ("ok queued".into(), Verdict::Ok)
            }
            ["sSend"] => {
                let s = w.next_seq();
                let e = w.s_epoch();
                let bytes = secure(&w.srv, s, &sample_message(s));
                w.s2c.push_back((bytes, Tag::Msg { epoch: e, forged: false }));
                ("ok queued".into(), Verdict::Ok)
            }
            ["cForge", e] => {
                let s = w.next_seq();
                let bytes = secure(&w.forger_c, s, &sample_message(s));
                w.c2s.push_back((bytes, Tag::Msg { epoch: e.parse().unwrap(), forged: true }));
                ("ok queued".into(), Verdict::Ok)
            }
            ["sForge", e] => {
                let s = w.next_seq();
                let bytes = secure(&w.forger_s, s, &sample_message(s));
                w.s2c.push_back((bytes, Tag::Msg { epoch: e.parse().unwrap(), forged: true }));
                ("ok queued".into(), Verdict::Ok)
            }
            ["cRenew"] => {
                if w.outstanding {
                    // AsyncSecureChannel::send serialises renewals behind issue_channel_lock
                    return ("ok idle".into(), Verdict::Ok);
                }
                let req = w.cst.verif_begin_issue_or_renew(SecurityTokenRequestType::Renew);
                let s = w.next_seq();
                let bytes = secure(&w.cli.read(), s, &req);
                w.c2s.push_back((bytes, Tag::RenewReq));
                w.outstanding = true;
                ("ok queued".into(), Verdict::Ok)
            }
            ["cRenewSame"] => {
                if w.outstanding {
                    return ("ok idle".into(), Verdict::Ok);
                }
                // a Renew that reuses the client nonce of the previous Issue/Renew
                let prev = w.cli.read().local_nonce().to_vec();
                let mut req = w.cst.verif_begin_issue_or_renew(SecurityTokenRequestType::Renew);
                if let SupportedMessage::OpenSecureChannelRequest(ref mut r) = req {
                    r.client_nonce = if prev.is_empty() { ByteString::null() } else { ByteString::from(prev.clone()) };
                }
                w.cli.write().set_local_nonce(&prev);
                let s = w.next_seq();
                let bytes = secure(&w.cli.read(), s, &req);
                w.c2s.push_back((bytes, Tag::RenewReq));
                w.outstanding = true;
                ("ok queued".into(), Verdict::Ok)
            }
            ["sStep"] => match w.c2s.pop_front() {
                None => ("ok idle".into(), Verdict::Ok),
                Some((bytes, Tag::RenewReq)) => match w.server_opn(&bytes) {
                    Ok((resp, true)) => {
                        // a ServiceFault: nothing changed on the server
                        w.s2c.push_back((resp, Tag::Fault));
                        ("ok faulted".into(), Verdict::Ok)
                    }
                    Ok((resp, false)) => {
                        let e = w.s_epoch();
                        w.s2c.push_back((resp, Tag::RenewResp(e)));
                        w.s_seen_new = false;
                        (format!("ok renewed {}", e), Verdict::Ok)
                    }
                    Err(e) => (
                        format!("err renew {}", e),
                        Verdict::fail("renew_succeeds", "renew", format!("server rejected a correct renew: {}", e)),
                    ),
                },
                Some((bytes, Tag::Msg { epoch, forged })) => {
                    let cur = w.s_epoch();
                    let accepted = w.srv.verify_and_remove_security(&bytes).is_ok();
                    let v = if forged {
                        if accepted && w.secured {
                            Verdict::fail("unknown_token_rejected", "server", "message under keys nobody issued was accepted")
                        } else {
                            Verdict::Ok
                        }
                    } else {
                        // property: a message secured under the token current at its sender is accepted
                        // until the receiver has received one under the newer token
                        let must_accept = epoch == cur || (epoch + 1 == cur && !w.s_seen_new);
                        if must_accept && !accepted {
                            let class = if epoch == cur { "server-current-token" } else { "server-old-token-after-renew" };
                            Verdict::fail("accept_current_token", class, format!("epoch {} rejected, server token {}", epoch, cur))
                        } else {
                            Verdict::Ok
                        }
                    };
                    if accepted && !forged && epoch == cur {
                        w.s_seen_new = true;
                    }
                    (format!("ok {} {}", if accepted { "accepted" } else { "rejected" }, epoch), v)
                }
                Some((_, Tag::RenewResp(_))) | Some((_, Tag::Fault)) => ("ok idle".into(), Verdict::Ok),
            },
            ["cStep"] => match w.s2c.pop_front() {
                None => ("ok idle".into(), Verdict::Ok),
                Some((bytes, Tag::RenewResp(e))) => {
                    let r = w.cli.write().verify_and_remove_security(&bytes);
                    match r.and_then(|chunk| Chunker::decode(&[chunk], &w.cli.read(), None)) {
                        Ok(msg) => {
                            w.pend = Some(msg);
                            (format!("ok resp {}", e), Verdict::Ok)
                        }
                        Err(err) => (
                            format!("err resp {}", err),
                            Verdict::fail("renew_succeeds", "renew-resp", format!("client rejected the OPN response: {}", err)),
                        ),
                    }
                }
                Some((bytes, Tag::Msg { epoch, forged })) => {
                    let cur = w.c_epoch();
                    let accepted = w.cli.write().verify_and_remove_security(&bytes).is_ok();
                    let pending_epoch = w.pend.as_ref().and_then(|m| match m {
                        SupportedMessage::OpenSecureChannelResponse(r) => Some(r.security_token.token_id - 1),
                        _ => None,
                    });
                    let v = if forged {
                        if accepted && w.secured {
                            Verdict::fail("unknown_token_rejected", "client", "message under keys nobody issued was accepted")
                        } else {
                            Verdict::Ok
                        }
                    } else {
                        let must_accept = epoch == cur
                            || (epoch + 1 == cur && !w.c_seen_new)
                            || pending_epoch == Some(epoch);
                        if must_accept && !accepted {
                            let class = if epoch == cur {
                                "client-current-token"
                            } else if pending_epoch == Some(epoch) {
                                "client-new-token-before-apply"
                            } else {
                                "client-old-token-after-renew"
                            };
                            Verdict::fail("accept_current_token", class, format!("epoch {} rejected, client token {}", epoch, cur))
                        } else {
                            Verdict::Ok
                        }
                    };
                    if accepted && !forged && epoch == cur {
                        w.c_seen_new = true;
                    }
                    (format!("ok {} {}", if accepted { "accepted" } else { "rejected" }, epoch), v)
                }
                Some((_, Tag::RenewReq)) => ("ok idle".into(), Verdict::Ok),
                Some((bytes, Tag::Fault)) => {
                    // a MSG chunk under the server's unchanged keys carrying a ServiceFault
                    let r = w.cli.write().verify_and_remove_security(&bytes);
                    match r.and_then(|chunk| Chunker::decode(&[chunk], &w.cli.read(), None)) {
                        Ok(msg) => {
                            w.pend_fault = Some(msg);
                            ("ok fault".into(), Verdict::Ok)
                        }
                        Err(err) => (
                            format!("err fault {}", err),
                            Verdict::fail("accept_current_token", "client-fault-answer", format!("client rejected the fault answer: {}", err)),
                        ),
                    }
                }
            },
            ["cApply"] => match w.pend.take() {
                None => match w.pend_fault.take() {
                    None => ("ok idle".into(), Verdict::Ok),
                    Some(msg) => {
                        // the session task sees the fault: the renewal failed, keys stay as they are
                        let r = w.cst.verif_end_issue_or_renew(msg);
                        w.outstanding = false;
                        if r.is_err() {
                            ("ok renew-failed".into(), Verdict::Ok)
                        } else {
                            ("err fault-applied".into(), Verdict::fail("renew_succeeds", "fault-applied", "a ServiceFault was applied as a token"))
                        }
                    }
                },
                Some(msg) => match w.cst.verif_end_issue_or_renew(msg) {
                    Ok(()) => {
                        w.outstanding = false;
                        w.c_seen_new = false;
                        (format!("ok renewed {}", w.c_epoch()), Verdict::Ok)
                    }
                    Err(e) => (
                        format!("err apply {}", e),
                        Verdict::fail("renew_succeeds", "apply", format!("{}", e)),
                    ),
                },
            },
            _ => ("bad-op".into(), Verdict::Ok),
        }
    }
}
