//! C12 — sequence numbers increase by one per chunk, request ids are unique, the receiver accepts
//! only consecutive / newer / same-request / same-channel chunk lists and rejects replays.
use crate::common::*;
use crate::fixtures;
use crate::props::c11;
use opcua::core::comms::chunker::Chunker;
use opcua::core::comms::message_chunk::{MessageChunk, MessageChunkType, MessageIsFinalType};
use opcua::core::comms::message_writer::MessageWriter;
use opcua::core::comms::secure_channel::SecureChannel;
use opcua::core::comms::tcp_types::HelloMessage;
use opcua::core::supported_message::SupportedMessage;
use opcua::server::comms::tcp_transport::TcpTransport;
use opcua::server::session::SessionManager;
use opcua::types::*;
use parking_lot::RwLock;
use std::panic::{catch_unwind, AssertUnwindSafe};
use std::sync::Arc;

#[path = "../transport_client.rs"]
pub mod transport_client;
#[path = "../srv_conn.rs"]
pub mod srv_conn;

pub struct C12;
pub static P: C12 = C12;

// ------------------------------------------------------------------------------------------------
// shared with C15 / C10: a server transport without a socket
// ------------------------------------------------------------------------------------------------

pub fn new_transport() -> TcpTransport {
    let fx = fixtures::server();
    TcpTransport::new(
        fx.server.certificate_store(),
        fx.server_state.clone(),
        fx.address_space.clone(),
        Arc::new(RwLock::new(SessionManager::default())),
    )
}

pub fn endpoint_url() -> String {
    let fx = fixtures::server();
    let ss = fx.server_state.read();
    let config = ss.config.read();
    format!("opc.tcp://{}:{}/", config.tcp_config.host, config.tcp_config.port)
}

pub fn hello() -> HelloMessage {
    HelloMessage::new(&endpoint_url(), 65536, 65536, 0, 0)
}

/// chunks of an OpenSecureChannelRequest (policy None) as a client would send them
pub fn open_request_chunks(seq: u32, req_id: u32, channel_id: u32, renew: bool) -> Vec<MessageChunk> {
    let sc = c11::client_channel(channel_id, 0, true);
    let msg: SupportedMessage = OpenSecureChannelRequest {
        request_header: RequestHeader::new(&NodeId::null(), &DateTime::null(), 1),
        client_protocol_version: 0,
        request_type: if renew { SecurityTokenRequestType::Renew } else { SecurityTokenRequestType::Issue },
        security_mode: MessageSecurityMode::None,
        client_nonce: ByteString::null(),
        requested_lifetime: 60000,
    }
    .into();
    Chunker::encode(seq, req_id, 0, 0, &sc, &msg).unwrap()
}

pub fn get_endpoints_bytes() -> Vec<u8> {
    let msg: SupportedMessage = GetEndpointsRequest {
        request_header: RequestHeader::new(&NodeId::null(), &DateTime::null(), 2),
        endpoint_url: UAString::from(endpoint_url()),
        locale_ids: None,
        profile_uris: None,
    }
    .into();
    c11::message_bytes(&msg).1
}

pub fn fin_of(f: &str) -> Option<MessageIsFinalType> {
    match f {
        "F" => Some(MessageIsFinalType::Final),
        "C" => Some(MessageIsFinalType::Intermediate),
        "A" => Some(MessageIsFinalType::FinalError),
        _ => None,
    }
}

/// a MSG chunk with the given header fields and body
pub fn msg_chunk(chan: u32, seq: u32, req: u32, fin: MessageIsFinalType, ty: MessageChunkType, body: &[u8]) -> MessageChunk {
    let sc = c11::client_channel(chan, 1, true);
    MessageChunk::new(seq, req, ty, fin, &sc, body).unwrap()
}

#[derive(Clone, Copy, PartialEq, Debug)]
pub struct CI {
    pub chan: u32,
    pub seq: u32,
    pub req: u32,
}

pub fn parse_ci(s: &str) -> Option<Option<CI>> {
    if s == "bad" {
        return Some(None);
    }
    let p: Vec<&str> = s.split(':').collect();
    if p.len() != 3 {
        return None;
    }
    Some(Some(CI { chan: p[0].parse().ok()?, seq: p[1].parse().ok()?, req: p[2].parse().ok()? }))
}

// ------------------------------------------------------------------------------------------------
// generator
// ------------------------------------------------------------------------------------------------

fn near(rng: &mut Rng, x: u64) -> u64 {
    (x as i64 + rng.range(-2, 2)).clamp(0, u32::MAX as i64) as u64
}

fn seq_base(rng: &mut Rng) -> u64 {
    match rng.weighted(&[6, 2, 2, 1]) {
        0 => rng.below(50),
        1 => u32::MAX as u64 - rng.below(6),
        2 => (1u64 << 31) + rng.below(3),
        _ => rng.next() % (1 << 32),
    }
}

fn gen_validate(rng: &mut Rng, out: &mut Vec<String>) {
    out.push("reset val".to_string());
    for _ in 0..rng.range(1, 6) {
        let chan = *rng.pick(&[0u64, 1, 1, 2, 7]);
        let first = seq_base(rng);
        let n = rng.weighted(&[1, 6, 4, 3, 1]); // 0..4 chunks
        let req = rng.below(4);
        let mut specs = Vec::new();
        for i in 0..n as u64 {
            let mut c = if chan == 0 { rng.below(3) } else { chan };
            let mut s = (first + i).min(u32::MAX as u64);
            let mut r = req;
            match rng.weighted(&[14, 1, 1, 1, 1, 1]) {
                1 => c += 1,
                2 => s = near(rng, s),
                3 => r += 1,
                4 => s = first, // duplicate of the first
                5 => {
                    specs.push("bad".to_string());
                    continue;
                }
                _ => {}
            }
            specs.push(format!("{}:{}:{}", c, s, r));
        }
        if rng.chance(1, 8) && specs.len() > 1 {
            let i = rng.below(specs.len() as u64 - 1) as usize;
            specs.swap(i, i + 1); // reordered
        }
        let start = match rng.below(5) {
            0 => first + 1,
            1 => near(rng, first),
            2 => 0,
            _ => first.saturating_sub(rng.below(3)),
        }
        .min(u32::MAX as u64);
        out.push(format!("validate {} {} [{}]", start, chan, specs.join(",")));
    }
}

fn gen_srv(rng: &mut Rng, out: &mut Vec<String>) {
    let l = srv_conn::lens();
    out.push(srv_conn::reset_line(*rng.pick(&[0u64, 0, 5]), 0));
    srv_conn::gen_case(rng, &l, srv_conn::Profile::Numbering, 0, 0, false, out);
}

fn gen_tx(rng: &mut Rng, out: &mut Vec<String>) {
    let bs = *rng.pick(&[8196usize, 8196, 9000]);
    // max_chunk_count 1 and 2: a two- or three-chunk request is REJECTED (BadCommunicationError) and must not
    // use up sequence numbers — the next accepted request continues the numbering (seed C12c)
    let mc = *rng.pick(&[0usize, 5, 1, 2]);
    out.push(format!("reset tx {} 0 {} {} {} 1", bs, mc, 1 + rng.below(3), rng.below(100)));
    if rng.chance(1, 3) {
        let a = *rng.pick(&[1000u64, u32::MAX as u64 - 1, u32::MAX as u64 - 2, u32::MAX as u64]);
        let b = *rng.pick(&[0u64, 5, u32::MAX as u64 - 1, u32::MAX as u64 - 2, u32::MAX as u64 - 3, u32::MAX as u64]);
        out.push(format!("setctr {} {}", a, b));
    }
    for _ in 0..rng.range(1, 8) {
        match rng.weighted(&[6, 3, 2]) {
            0 => {
                let m = if rng.chance(1, if mc == 1 || mc == 2 { 3 } else { 8 }) {
                    let cap = bs - 24;
                    let t = *rng.pick(&[cap + 1, 2 * cap + 1]);
                    c11::read_request_padded(rng, 1, Some(t))
                } else if rng.chance(1, 3) {
                    let nonce = *rng.pick(&[0usize, 0, 32, 8200]);
                    c11::channel_message(*rng.pick(&["opn-req", "clo-req"]), nonce)
                } else {
                    let k = rng.below(4) as usize;
                    c11::read_request(rng, k)
                };
                let (nid, bytes) = c11::message_bytes(&m);
                out.push(format!("write {} {} x{}", 1 + rng.below(5000), nid, hex(&bytes)));
            }
            1 => out.push("nextid".to_string()),
            _ => out.push("pump [100000,100000,100000,100000]".to_string()),
        }
    }
    out.push("pump [100000,100000,100000,100000,100000,100000,100000,100000,100000,100000,100000,100000]".to_string());
}

fn gen_mw(rng: &mut Rng, out: &mut Vec<String>) {
    let bs = *rng.pick(&[0usize, 100, 8196, 65536]);
    out.push(format!(
        "reset mw {} {} {} {} {} {}",
        bs,
        *rng.pick(&[0usize, 0, 60, 20000]),
        *rng.pick(&[0usize, 1, 5]),
        1 + rng.below(3),
        rng.below(100),
        b(rng.chance(1, 2))
    ));
    for _ in 0..rng.range(1, 8) {
        match rng.weighted(&[6, 2, 3]) {
            0 => {
                let m = if rng.chance(1, 8) {
                    let t = *rng.pick(&[1100usize, 1124, 1125, 9219, 9220, 9221, 20000]);
                    c11::read_request_padded(rng, 1, Some(t))
                } else if rng.chance(1, 3) {
                    let nonce = *rng.pick(&[0usize, 0, 32, 900, 1100]);
                    c11::channel_message(*rng.pick(&["opn-resp", "clo-resp"]), nonce)
                } else {
                    let k = rng.below(4) as usize;
                    c11::read_request(rng, k)
                };
                let (nid, bytes) = c11::message_bytes(&m);
                out.push(format!("mwrite {} {} x{}", 1 + rng.below(5000), nid, hex(&bytes)));
            }
            1 => out.push("mnext".to_string()),
            _ => out.push("mtake".to_string()),
        }
    }
    out.push("mtake".to_string());
}


// ------------------------------------------------------------------------------------------------
// systematic part: validate_chunks / client receive path / MessageWriter with every guard at its boundary
// ------------------------------------------------------------------------------------------------

fn gen_systematic(out: &mut Vec<String>) {
    const MAX: u64 = u32::MAX as u64;
    // validate_chunks: start vs first, number of chunks, one perturbation at each position
    out.push("reset val".to_string());
    for chan in [0u64, 1] {
        for start in [0u64, 1, 5, MAX - 1, MAX] {
            for first in [start.saturating_sub(2), start.saturating_sub(1), start, (start + 1).min(MAX), (start + 3).min(MAX)] {
                for n in 0..4u64 {
                    let plain: Vec<(u64, u64, u64)> = (0..n).map(|i| (if chan == 0 { 3 } else { chan }, first + i, 7)).collect();
                    let show = |v: &Vec<(u64, u64, u64)>, bad: Option<usize>| -> String {
                        let parts: Vec<String> = v
                            .iter()
                            .enumerate()
                            .map(|(i, (c, s, r))| if Some(i) == bad { "bad".to_string() } else { format!("{}:{}:{}", c, (*s).min(MAX), r) })
                            .collect();
                        format!("validate {} {} [{}]", start, chan, parts.join(","))
                    };
                    if plain.iter().all(|x| x.1 <= MAX) || n <= 2 {
                        out.push(show(&plain, None));
                    }
                    if start > 5 && start < MAX - 1 {
                        continue;
                    }
                    for i in 0..n as usize {
                        out.push(show(&plain, Some(i)));
                        for kind in 0..4 {
                            let mut v = plain.clone();
                            match kind {
                                0 => v[i].0 += 1,
                                1 => v[i].1 = v[i].1.saturating_sub(1),
                                2 => v[i].1 = (v[i].1 + 1).min(MAX),
                                _ => v[i].2 += 1,
                            }
                            out.push(show(&v, None));
                        }
                    }
                }
            }
        }
    }
    // chunk lists that end exactly at / one past u32::MAX
    for n in 1..4u64 {
        for end in [MAX - 1, MAX, MAX + 1] {
            if end + 1 < n {
                continue;
            }
            let first = end + 1 - n;
            let parts: Vec<String> = (0..n).map(|i| format!("1:{}:7", (first + i).min(MAX))).collect();
            out.push(format!("validate {} 1 [{}]", first.min(MAX), parts.join(",")));
        }
    }
    // client receive path: max_pending_incoming at its boundary, abort, unknown request, merge shapes, flags, marks
    for mp in [0u64, 1, 2, 3] {
        for k in 0..mp + 3 {
            out.push(format!("reset cli {} 1", mp));
            out.push("req".to_string());
            for i in 0..k {
                out.push(format!("cchunk 1:{}:1001 C", i + 1));
            }
            out.push(format!("cchunk 1:{}:1001 F", k + 1));
        }
    }
    let shapes: [(&str, &[(u64, u64, &str)]); 14] = [
        ("in order", &[(1, 1, "C"), (1, 2, "C"), (1, 3, "F")]),
        ("reordered", &[(1, 2, "C"), (1, 1, "C"), (1, 3, "F")]),
        ("duplicate", &[(1, 1, "C"), (1, 1, "C"), (1, 2, "F")]),
        ("gap", &[(1, 1, "C"), (1, 3, "F")]),
        ("final first", &[(1, 2, "C"), (1, 1, "F")]),
        ("early final flag", &[(1, 1, "F")]),
        ("abort empty", &[(1, 1, "A"), (1, 2, "F")]),
        ("abort nonempty", &[(1, 1, "C"), (1, 2, "A"), (1, 3, "F")]),
        ("foreign channel first", &[(2, 1, "C"), (1, 2, "F")]),
        ("foreign channel later", &[(1, 1, "C"), (2, 2, "F")]),
        ("zero", &[(1, 0, "F")]),
        ("wrap", &[(1, MAX - 1, "C"), (1, MAX, "F")]),
        ("wrap dup", &[(1, MAX, "C"), (1, MAX, "F")]),
        ("at max single", &[(1, MAX, "F")]),
    ];
    for chan in [0u64, 1] {
        for (_, shape) in shapes.iter() {
            out.push(format!("reset cli 5 {}", chan));
            out.push("req".to_string());
            out.push("req".to_string());
            out.push("cchunk 1:1:999 F".to_string()); // unknown request id
            for (c, s, f) in shape.iter() {
                out.push(format!("cchunk {}:{}:1001 {}", c, s, f));
            }
            // a second response: next number, stale number, after the mark reached u32::MAX
            out.push("cchunk 1:4:1002 C".to_string());
            out.push("cchunk 1:5:1002 F".to_string());
            out.push("cchunk 1:5:1002 F".to_string());
        }
    }
    // sender: sequence numbers across MSG / OPN / CLO messages (one and two chunks), also near the u32 boundary
    for ctr in [None, Some(4294967292u64)] {
        out.push("reset tx 8196 0 0 3 9 1".to_string());
        if let Some(c) = ctr {
            out.push(format!("setctr 1000 {}", c));
        }
        for (kind, nonce) in [("opn-req", 0usize), ("msg", 0), ("opn-req", 8200), ("clo-req", 0), ("msg", 0)] {
            let m = if kind == "msg" { c11::read_request(&mut Rng::new(3), 1) } else { c11::channel_message(kind, nonce) };
            let (nid, bytes) = c11::message_bytes(&m);
            out.push(format!("write {} {} x{}", 40 + nonce % 7, nid, hex(&bytes)));
            out.push("nextid".to_string());
            out.push("pump [100000,100000,100000]".to_string());
        }
    }
    for kind in ["opn-resp", "clo-resp"] {
        out.push("reset mw 8196 0 0 3 9 0".to_string());
        for nonce in [0usize, 32, 9000] {
            let m = c11::channel_message(kind, nonce);
            let (nid, bytes) = c11::message_bytes(&m);
            out.push(format!("mwrite 9 {} x{}", nid, hex(&bytes)));
            out.push("mtake".to_string());
        }
    }
    // MessageWriter: body around max_message_size, chunk around the scratch buffer (buffer + 1024), growing buffer
    let mut rng = Rng::new(11);
    for (bs, mm, total) in [
        (100usize, 0usize, 1099usize), (100, 0, 1100), (100, 0, 1101), (100, 0, 1102), (100, 0, 60), (100, 0, 200),
        (0, 0, 999), (0, 0, 1000), (0, 0, 1001), (8196, 99, 104), (8196, 100, 104), (8196, 101, 104), (8196, 104, 104), (8196, 5000, 104),
    ] {
        for mc in [0usize, 1] {
            out.push(format!("reset mw {} {} {} 1 1 {}", bs, mm, mc, b(total % 2 == 0)));
            for _ in 0..2 {
                let m = c11::read_request_padded(&mut rng, 0, Some(total));
                let (nid, bytes) = c11::message_bytes(&m);
                out.push(format!("mwrite 9 {} x{}", nid, hex(&bytes)));
                out.push("mnext".to_string());
            }
            out.push("mtake".to_string());
            out.push("mtake".to_string());
        }
    }
}

impl Prop for C12 {
    fn id(&self) -> &'static str {
        "C12"
    }

    fn gen(&self, rng: &mut Rng, n: usize, _tier: Tier, out: &mut Vec<String>) {
        srv_conn::gen_systematic(&srv_conn::lens(), out);
        gen_systematic(out);
        for _ in 0..n {
            match rng.weighted(&[5, 4, 2, 2, 4]) {
                0 => gen_validate(rng, out),
                1 => gen_srv(rng, out),
                2 => gen_tx(rng, out),
                3 => gen_mw(rng, out),
                _ => transport_client::gen_cli(rng, false, out),
            }
        }
    }

    fn runner(&self) -> Box<dyn Runner> {
        Box::new(R {
            srv: None,
            tx: c11::R::new(),
            tx_base: 0,
            ids: Vec::new(),
            mw: None,
            cli: None,
        })
    }
}

// ------------------------------------------------------------------------------------------------
// runner
// ------------------------------------------------------------------------------------------------

struct Srv {
    conn: srv_conn::Conn,
    /// reference bookkeeping from the property text: headers of the chunks of the pending message
    pending: Vec<CI>,
    accepted: Vec<Vec<CI>>,
}

struct Mw {
    w: MessageWriter,
    sc: SecureChannel,
    taken: Vec<u8>,
    accepted: Vec<u32>, // request ids of accepted writes
    ids: Vec<u32>,
    /// a write returned Err: the writing loop ends, the connection closes
    dead: bool,
}

struct R {
    srv: Option<Srv>,
    tx: c11::R,
    tx_base: u32,
    ids: Vec<u32>,
    mw: Option<Mw>,
    cli: Option<transport_client::Cli>,
}

/// splits a byte stream of policy-None MSG chunks; returns (seq, req) per chunk
fn chunk_headers(stream: &[u8]) -> Option<Vec<(u32, u32)>> {
    let mut out = Vec::new();
    let mut p = 0;
    while p < stream.len() {
        if stream.len() - p < 24 {
            return None;
        }
        let size = u32::from_le_bytes(stream[p + 4..p + 8].try_into().unwrap()) as usize;
        // the sequence header follows the security header: asymmetric (policy None: 59 bytes) in an OPN chunk,
        // the 4-byte token id otherwise
        let off = if &stream[p..p + 3] == b"OPN" { 12 + 59 } else { 12 + 4 };
        if size < off + 8 || p + size > stream.len() {
            return None;
        }
        let seq = u32::from_le_bytes(stream[p + off..p + off + 4].try_into().unwrap());
        let req = u32::from_le_bytes(stream[p + off + 4..p + off + 8].try_into().unwrap());
        out.push((seq, req));
        p += size;
    }
    Some(out)
}

/// sender side of the property: numbers go up by exactly one per chunk (starting after `base`),
/// every chunk of a message carries that message's request id
fn sender_oracle(stream: &[u8], base: u32, writes: &[(u32, usize)], class: &str, complete: bool) -> Verdict {
    let Some(h) = chunk_headers(stream) else {
        return if complete { Verdict::fail("emitted_chunks_parse", class, "emitted bytes are not whole chunks") } else { Verdict::Ok };
    };
    for (i, (seq, _)) in h.iter().enumerate() {
        if *seq as u64 != base as u64 + 1 + i as u64 {
            return Verdict::fail("sender_consecutive", class, format!("chunk {} has sequence number {}, base {}", i, seq, base));
        }
    }
    let mut want_req = Vec::new();
    for (r, n) in writes {
        for _ in 0..*n {
            want_req.push(*r);
        }
    }
    for (i, (_, req)) in h.iter().enumerate() {
        if want_req.get(i) != Some(req) {
            return Verdict::fail("one_request_id", class, format!("chunk {} carries request id {}", i, req));
        }
    }
    Verdict::Ok
}

fn ids_oracle(ids: &[u32], class: &str) -> Verdict {
    let mut s = ids.to_vec();
    s.sort();
    s.dedup();
    if s.len() != ids.len() {
        return Verdict::fail("request_ids_unique", class, format!("{:?}", ids));
    }
    Verdict::Ok
}

impl Runner for R {
    fn step(&mut self, toks: &[&str]) -> (String, Verdict) {
        match toks {
            ["reset", "val"] => ("ok".to_string(), Verdict::Ok),
            ["reset", "cli", mp, ch] => {
                self.cli = Some(transport_client::Cli::new(mp.parse().unwrap(), ch.parse().unwrap()));
                ("ok".to_string(), Verdict::Ok)
            }
            ["req"] | ["cchunk", ..] => match self.cli.as_mut() {
                Some(c) => c.step(toks),
                None => ("bad-op".to_string(), Verdict::Ok),
            },
            ["reset", "tx", ..] => {
                self.tx_base = 0;
                self.tx.step(toks)
            }
            ["reset", "mw", bs, mm, mc, ch, tk, cl] => {
                self.mw = Some(Mw {
                    w: MessageWriter::new(bs.parse().unwrap(), mm.parse().unwrap(), mc.parse().unwrap()),
                    sc: c11::client_channel(ch.parse().unwrap(), tk.parse().unwrap(), *cl == "1"),
                    taken: Vec::new(),
                    accepted: Vec::new(),
                    ids: Vec::new(),
                    dead: false,
                });
                ("ok".to_string(), Verdict::Ok)
            }
            ["validate", start, chan, l] => {
                let start: u32 = start.parse().unwrap();
                let chan: u32 = chan.parse().unwrap();
                let inner = &l[1..l.len() - 1];
                let mut specs: Vec<Option<CI>> = Vec::new();
                if !inner.is_empty() {
                    for s in inner.split(',') {
                        match parse_ci(s) {
                            Some(c) => specs.push(c),
                            None => return ("bad-op".to_string(), Verdict::Ok),
                        }
                    }
                }
                let n = specs.len();
                let chunks: Vec<MessageChunk> = specs
                    .iter()
                    .enumerate()
                    .map(|(i, s)| match s {
                        None => MessageChunk { data: b"MSGF\x0d\x00\x00\x00\x01\x00\x00\x00\x00".to_vec() },
                        Some(c) => msg_chunk(
                            c.chan,
                            c.seq,
                            c.req,
                            if i + 1 == n { MessageIsFinalType::Final } else { MessageIsFinalType::Intermediate },
                            MessageChunkType::Message,
                            b"xy",
                        ),
                    })
                    .collect();
                let sc = c11::client_channel(chan, 1, false);
                let res = catch_unwind(AssertUnwindSafe(|| Chunker::validate_chunks(start, &sc, &chunks)));
                // class tag from the input alone
                let first = specs.first().and_then(|c| c.map(|c| c.seq));
                let class = if n == 0 {
                    "empty"
                } else if first.map(|f| f as u64 + n as u64 > u32::MAX as u64).unwrap_or(false) {
                    "seq-overflow"
                } else {
                    "-"
                };
                match res {
                    Err(_) => ("panic".to_string(), Verdict::fail("no_panic", class, "validate_chunks panicked")),
                    Ok(Err(e)) => (format!("err {}", e.name()), Verdict::Ok),
                    Ok(Ok(last)) => {
                        // the property: accepted only if …
                        let all: Option<Vec<CI>> = specs.iter().cloned().collect();
                        let v = match all {
                            None => Verdict::fail("accepts_only", class, "accepted a chunk without readable headers"),
                            Some(cs) if cs.is_empty() => Verdict::fail("accepts_only", class, "accepted nothing"),
                            Some(cs) => {
                                let f = cs[0];
                                if f.seq < start {
                                    Verdict::fail("accepts_only", class, "first sequence number below the expected one")
                                } else if cs.iter().enumerate().any(|(i, c)| c.seq as u64 != f.seq as u64 + i as u64) {
                                    Verdict::fail("accepts_only", class, "not consecutive")
                                } else if cs.iter().any(|c| c.req != f.req) {
                                    Verdict::fail("accepts_only", class, "request ids differ")
                                } else if chan != 0 && cs.iter().any(|c| c.chan != chan) {
                                    Verdict::fail("accepts_only", class, "foreign channel id")
                                } else if last as u64 != f.seq as u64 + cs.len() as u64 - 1 {
                                    Verdict::fail("accepts_only", class, "returned last sequence number is wrong")
                                } else {
                                    Verdict::Ok
                                }
                            }
                        };
                        (format!("ok {}", last), v)
                    }
                }
            }
            ["reset", "conn", mc, mm, ..] => {
                self.srv = Some(Srv {
                    conn: srv_conn::Conn::new(mc.parse().unwrap_or(0), mm.parse().unwrap_or(0)),
                    pending: Vec::new(),
                    accepted: Vec::new(),
                });
                ("ok".to_string(), Verdict::Ok)
            }
            ["setlast", _] | ["hel", _] | ["ack"] | ["ch", ..] => {
                let Some(s) = self.srv.as_mut() else {
                    return ("bad-op".to_string(), Verdict::Ok);
                };
                let last_before = s.conn.t.verif_last_received_sequence_number();
                let chan_before = s.conn.t.verif_secure_channel().read().secure_channel_id();
                let class = if last_before == u32::MAX { "last-at-max" } else { "-" };
                let res = {
                    let conn = &mut s.conn;
                    catch_unwind(AssertUnwindSafe(|| conn.step(toks)))
                };
                let (line, info) = match res {
                    Err(_) => return ("panic".to_string(), Verdict::fail("no_panic", class, "server connection panicked")),
                    Ok(None) => return ("bad-op".to_string(), Verdict::Ok),
                    Ok(Some(x)) => x,
                };
                let mut v = Verdict::Ok;
                if let Some((_, c, fin, _)) = &info.chunk {
                    if !info.was_closed {
                        match fin {
                            MessageIsFinalType::FinalError => s.pending.clear(),
                            _ => s.pending.push(*c),
                        }
                        if info.err.is_some() {
                            s.pending.clear();
                            if !info.responses.is_empty() {
                                v = Verdict::fail("accepts_only", class, "response sent for a rejected message");
                            }
                        } else if *fin == MessageIsFinalType::Final {
                            // accepted: the property's conditions on the chunks that made up the message
                            let cs: Vec<CI> = s.pending.drain(..).collect();
                            let f0 = cs[0];
                            v = if info.responses.len() != 1 {
                                Verdict::fail("accepts_only", class, format!("{} responses", info.responses.len()))
                            } else if cs.iter().enumerate().any(|(i, c)| c.seq as u64 != f0.seq as u64 + i as u64) {
                                Verdict::fail("accepts_only", class, "not consecutive")
                            } else if f0.seq <= last_before {
                                Verdict::fail("newer_than_accepted", class, format!("first {} not above {}", f0.seq, last_before))
                            } else if cs.iter().any(|c| c.req != f0.req) {
                                Verdict::fail("accepts_only", class, "request ids differ")
                            } else if chan_before != 0 && cs.iter().any(|c| c.chan != chan_before) {
                                Verdict::fail("accepts_only", class, "foreign channel id")
                            } else if s.accepted.contains(&cs) {
                                Verdict::fail("replay_rejected", class, "a message accepted before was accepted again")
                            } else if !info.responses[0].ends_with(&format!("req={}", f0.req)) {
                                Verdict::fail("accepts_only", class, "response carries another request id")
                            } else if info.last as u64 != f0.seq as u64 + cs.len() as u64 - 1 {
                                Verdict::fail("accepts_only", class, "mark is not the last sequence number")
                            } else {
                                Verdict::Ok
                            };
                            s.accepted.push(cs);
                        } else if !info.responses.is_empty() {
                            v = Verdict::fail("accepts_only", class, "response before the final chunk");
                        }
                    }
                }
                (line, v)
            }
            ["setctr", a, bb] => {
                let Some(tx) = self.tx.tx.as_mut() else {
                    return ("bad-op".to_string(), Verdict::Ok);
                };
                if !tx.writes.is_empty() {
                    return ("bad-op".to_string(), Verdict::Ok);
                }
                let a: u32 = a.parse().unwrap();
                let bb: u32 = bb.parse().unwrap();
                tx.sb.set_counters(a, bb);
                tx.chunks_total = bb;
                self.tx_base = bb;
                ("ok".to_string(), Verdict::Ok)
            }
            ["nextid"] => {
                let Some(tx) = self.tx.tx.as_mut() else {
                    return ("bad-op".to_string(), Verdict::Ok);
                };
                let sb = &mut tx.sb;
                match catch_unwind(AssertUnwindSafe(|| sb.next_request_id())) {
                    Err(_) => ("panic".to_string(), Verdict::fail("no_panic", "reqid-wrap", "next_request_id panicked")),
                    Ok(id) => {
                        self.ids.push(id);
                        (format!("ok {}", id), ids_oracle(&self.ids, "nextid"))
                    }
                }
            }
            ["write", ..] | ["enc"] | ["sink", _] | ["pump", _] => {
                let (line, v) = self.tx.step(toks);
                if let Verdict::Fail { .. } = v {
                    return (line, v);
                }
                let Some(tx) = self.tx.tx.as_ref() else {
                    return (line, v);
                };
                let idle = !tx.sb.can_read() && !tx.sb.should_encode_chunks();
                let v = if tx.lost { Verdict::Ok } else { sender_oracle(&tx.emitted, self.tx_base, &tx.writes, toks[0], idle) };
                (line, v)
            }
            ["mwrite", req, _nid, h] => {
                let (Some(mw), Some(bytes)) = (self.mw.as_mut(), unhex(h)) else {
                    return ("bad-op".to_string(), Verdict::Ok);
                };
                let Some(msg) = c11::message_from_bytes(&bytes) else {
                    return ("bad-op".to_string(), Verdict::Ok);
                };
                let req: u32 = req.parse().unwrap();
                match mw.w.write(req, msg, &mw.sc) {
                    Ok(_) => {
                        mw.accepted.push(req);
                        ("ok".to_string(), Verdict::Ok)
                    }
                    Err(e) => {
                        mw.dead = true;
                        (format!("err {}", e.name()), Verdict::Ok)
                    }
                }
            }
            ["mtake"] => {
                let Some(mw) = self.mw.as_mut() else {
                    return ("bad-op".to_string(), Verdict::Ok);
                };
                let bytes = mw.w.bytes_to_write();
                mw.taken.extend_from_slice(&bytes);
                let writes: Vec<(u32, usize)> = mw.accepted.iter().map(|r| (*r, 1)).collect();
                let v = if mw.dead { Verdict::Ok } else { sender_oracle(&mw.taken, 0, &writes, "mtake", true) };
                (format!("ok x{}", hex(&bytes)), v)
            }
            ["mnext"] => {
                let Some(mw) = self.mw.as_mut() else {
                    return ("bad-op".to_string(), Verdict::Ok);
                };
                let id = mw.w.next_request_id();
                mw.ids.push(id);
                (format!("ok {}", id), ids_oracle(&mw.ids, "mnext"))
            }
            _ => ("bad-op".to_string(), Verdict::Ok),
        }
    }
}
