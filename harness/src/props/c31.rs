//! C31 — browse path translation finds exactly the matching nodes.
use crate::common::*;
use crate::fixtures;
use opcua::server::address_space::types::*;
use opcua::server::address_space::AddressSpace;
use opcua::server::prelude::*;
use opcua::sync::RwLock;
use opcua::verif_hooks::view::{set_view_limits, view_limits, VViewService};
use std::collections::{BTreeSet, HashSet};
use std::sync::Arc;

pub struct C31;
pub static P: C31 = C31;

const HAS_SUBTYPE: u32 = 45;

/// one number space for every NodeId of a case: 1..=30 nodes (namespace 1), 31..=999 namespace-0
/// numeric ids (standard reference types), 9999 a namespace-0 id that is no reference type,
/// other ids ≥ 1000 namespace-1 numeric ids (custom reference types)
fn id_node(n: u32) -> NodeId {
    if n == 0 {
        NodeId::null()
    } else if n <= 30 {
        NodeId::new(1, n)
    } else if n < 1000 || n == 9999 {
        NodeId::new(0, n)
    } else {
        NodeId::new(1, n)
    }
}

fn node_num(id: &NodeId) -> u32 {
    match id.identifier {
        Identifier::Numeric(n) => n,
        _ => u32::MAX,
    }
}

/// browse names: k < 50 → namespace 0, else namespace 1; text "b<k mod 50>"; 0 = null
fn name(k: u32) -> QualifiedName {
    if k == 0 {
        QualifiedName::null()
    } else {
        QualifiedName::new(if k < 50 { 0 } else { 1 }, format!("b{}", k % 50))
    }
}

const STORED: [u32; 9] = [35, 35, 47, 46, 40, 1000, 1001, 1002, 9999];
const FILTERS: [u32; 12] = [0, 35, 33, 31, 47, 44, 34, 1000, 1001, 1002, 9999, 40];
/// HasSubtype edges (parent, child), parent < child so that the type graph is acyclic
const TYPE_EDGES: [(u32, u32); 9] = [(31, 33), (33, 34), (33, 35), (34, 44), (44, 46), (44, 47), (35, 1000), (1000, 1001), (31, 32)];

/// parallel references of different types between one pair of nodes (and the opposite direction);
/// delete one of them, then follow the others forwards and inversely
fn parallel_case(rng: &mut Rng, out: &mut Vec<String>) {
    out.push("reset".to_string());
    for (id, nm) in [(1, 1), (2, 2), (3, 3)] {
        out.push(format!("node {} {}", id, nm));
    }
    out.push("ref 33 35 45".to_string());
    out.push("ref 44 47 45".to_string());
    let tys = [35u32, 47, 1000, 40];
    let k = rng.range(2, 4) as usize;
    let mut present: Vec<u32> = Vec::new();
    for ty in tys.iter().take(k) {
        out.push(format!("ref 1 2 {}", ty));
        present.push(*ty);
    }
    if rng.chance(1, 2) {
        out.push(format!("ref 2 1 {}", rng.pick(&tys)));
    }
    out.push("ref 2 3 35".to_string());
    let queries = |present: &Vec<u32>, out: &mut Vec<String>| {
        for ty in present.iter().chain([0u32, 33].iter()) {
            out.push(format!("tr 2 [{}:1:1:1]", ty));
            out.push(format!("tr 1 [{}:0:1:2]", ty));
        }
        out.push("tr 3 [35:1:0:2,0:1:0:1]".to_string());
        out.push("tr 1 [0:0:0:2,35:0:0:3]".to_string());
    };
    queries(&present, out);
    while !present.is_empty() {
        let i = rng.below(present.len() as u64) as usize;
        let ty = present.remove(i);
        if rng.chance(1, 4) {
            out.push(format!("delref 2 1 {}", ty)); // the opposite direction: must not disturb 1 → 2
        }
        out.push(format!("delref 1 2 {}", ty));
        let mut all = present.clone();
        all.push(ty);
        queries(&all, out);
    }
    out.push(format!("delnode {} {}", rng.range(1, 3), b(rng.chance(1, 2))));
    queries(&vec![35, 47], out);
}

impl Prop for C31 {
    fn id(&self) -> &'static str {
        "C31"
    }

    fn gen(&self, rng: &mut Rng, n: usize, _tier: Tier, out: &mut Vec<String>) {
        for case in 0..n {
            if case % 4 == 2 {
                parallel_case(rng, out);
                continue;
            }
            out.push("reset".to_string());
            let u = rng.range(3, 9) as u32;
            // few distinct names so that several nodes share one; names 3 and 53 differ only in namespace
            let names: [u32; 6] = [1, 2, 3, 53, 2, 1];
            for id in 1..=u {
                if rng.chance(9, 10) {
                    out.push(format!("node {} {}", id, rng.pick(&names)));
                }
            }
            for (p, c) in TYPE_EDGES {
                if rng.chance(3, 4) {
                    out.push(format!("ref {} {} {}", p, c, HAS_SUBTYPE));
                }
            }
            let m = rng.range(2, 20);
            for _ in 0..m {
                let s = rng.range(1, u as i64 + 1) as u32;
                let t = rng.range(1, u as i64 + 1) as u32;
                if s != t {
                    out.push(format!("ref {} {} {}", s, t, rng.pick(&STORED)));
                }
            }
            let q = rng.range(3, 12);
            for _ in 0..q {
                let start = if rng.chance(1, 15) { rng.range(0, 40) as u32 } else { rng.range(1, u as i64) as u32 };
                if rng.chance(1, 30) {
                    out.push(format!("tr {} -", start));
                    continue;
                }
                // the graph keeps changing between translations
                if rng.chance(1, 6) {
                    let s2 = rng.range(1, u as i64 + 1) as u32;
                    let t2 = rng.range(1, u as i64 + 1) as u32;
                    if s2 != t2 {
                        out.push(format!("ref {} {} {}", s2, t2, rng.pick(&STORED)));
                    }
                }
                if rng.chance(1, 10) {
                    out.push(format!("node {} {}", rng.range(1, u as i64 + 2), rng.pick(&names)));
                }
                if rng.chance(1, 5) {
                    let s2 = rng.range(1, u as i64 + 1) as u32;
                    let t2 = rng.range(1, u as i64 + 1) as u32;
                    if s2 != t2 {
                        out.push(format!("delref {} {} {}", s2, t2, rng.pick(&[35u32, 35, 47, 46, 40, 1000, 1001, 1002, 9999])));
                    }
                }
                if rng.chance(1, 12) {
                    out.push(format!("delnode {} {}", rng.range(1, u as i64 + 1), b(rng.chance(1, 2))));
                }
                let len = rng.weighted(&[1, 8, 6, 3, 1]);
                let es: Vec<String> = (0..len)
                    .map(|_| {
                        let nm = if rng.chance(1, 25) { 0 } else if rng.chance(1, 10) { rng.range(1, 60) as u32 } else { *rng.pick(&names) };
                        format!("{}:{}:{}:{}", rng.pick(&FILTERS), b(rng.chance(1, 3)), b(rng.chance(2, 3)), nm)
                    })
                    .collect();
                if rng.chance(1, 8) {
                    // several paths in one request, around the operational limit
                    if rng.chance(1, 3) {
                        out.push(format!("limit {}", rng.pick(&[0u32, 1, 2, 10, 11])));
                    }
                    let k = *rng.pick(&[0u32, 1, 2, 9, 10, 11, 12]);
                    out.push(format!("trn {} {} [{}]", k, start, es.join(",")));
                } else {
                    out.push(format!("tr {} [{}]", start, es.join(",")));
                }
            }
        }
    }

    fn runner(&self) -> Box<dyn Runner> {
        let mut a = AddressSpace::default();
        let _ = a.register_namespace("urn:verif:c31");
        Box::new(R {
            address_space: Arc::new(RwLock::new(a)),
            universe: BTreeSet::new(),
        })
    }
}

struct R {
    address_space: Arc<RwLock<AddressSpace>>,
    /// every id the case mentioned as node / source / target (the oracle searches over these)
    universe: BTreeSet<u32>,
}

struct El {
    ty: u32,
    inverse: bool,
    sub: bool,
    name: u32,
}

fn parse_elems(s: &str) -> Option<Vec<El>> {
    let inner = s.strip_prefix('[')?.strip_suffix(']')?;
    if inner.is_empty() {
        return Some(vec![]);
    }
    inner
        .split(',')
        .map(|e| {
            let p: Vec<&str> = e.split(':').collect();
            if p.len() != 4 || !(p[1] == "0" || p[1] == "1") || !(p[2] == "0" || p[2] == "1") {
                return None;
            }
            let nm: u32 = p[3].parse().ok()?;
            if nm >= 100 {
                return None;
            }
            Some(El { ty: p[0].parse().ok()?, inverse: p[1] == "1", sub: p[2] == "1", name: nm })
        })
        .collect()
}

impl R {
    /// the oracle's reading of the property on the implementation's own reference store:
    /// breadth-first, element by element, over `find_references` of every known id
    fn reference(&self, start: u32, es: &[El]) -> BTreeSet<u32> {
        let a = self.address_space.read();
        // all reference triples visible through the public query API
        let mut triples: Vec<(u32, u32, u32)> = Vec::new();
        for s in &self.universe {
            if let Some(rs) = a.find_references(&id_node(*s), None::<(NodeId, bool)>) {
                for r in rs {
                    triples.push((*s, type_num(&r.reference_type), node_num(&r.target_node)));
                }
            }
        }
        // subtype closure: reference type t is `f` or reachable from `f` through HasSubtype
        let is_sub = |f: u32, t: u32| -> bool {
            let mut seen = HashSet::new();
            let mut todo = vec![f];
            while let Some(c) = todo.pop() {
                if c == t {
                    return true;
                }
                if seen.insert(c) {
                    for (s, ty, tg) in &triples {
                        if *s == c && *ty == HAS_SUBTYPE {
                            todo.push(*tg);
                        }
                    }
                }
            }
            false
        };
        let mut cur: BTreeSet<u32> = [start].into_iter().collect();
        for e in es {
            let mut next = BTreeSet::new();
            for n in &cur {
                for (s, ty, tg) in &triples {
                    let (from, to) = if e.inverse { (*tg, *s) } else { (*s, *tg) };
                    if from != *n {
                        continue;
                    }
                    let type_ok = e.ty == 0 || *ty == e.ty || (e.sub && is_sub(e.ty, *ty));
                    if !type_ok {
                        continue;
                    }
                    if let Some(node) = a.find_node(&id_node(to)) {
                        if node.as_node().browse_name() == name(e.name) {
                            next.insert(to);
                        }
                    }
                }
            }
            cur = next;
        }
        cur
    }
}

fn type_num(id: &NodeId) -> u32 {
    node_num(id)
}

fn relative_path(els: &Option<Vec<El>>) -> RelativePath {
    RelativePath {
        elements: els.as_ref().map(|els| {
            els.iter()
                .map(|e| RelativePathElement {
                    reference_type_id: id_node(e.ty),
                    is_inverse: e.inverse,
                    include_subtypes: e.sub,
                    target_name: name(e.name),
                })
                .collect()
        }),
    }
}

fn result_line(r: &BrowsePathResult) -> String {
    if r.status_code.is_good() {
        let mut got: Vec<u32> = r.targets.clone().unwrap_or_default().iter().map(|t| node_num(&t.target_id.node_id)).collect();
        got.sort();
        format!("Good [{}]", got.iter().map(|x| x.to_string()).collect::<Vec<_>>().join(","))
    } else {
        r.status_code.name().to_string()
    }
}

impl Runner for R {
    fn step(&mut self, toks: &[&str]) -> (String, Verdict) {
        let fx = fixtures::server();
        let bad = || ("bad-op".to_string(), Verdict::Ok);
        match toks {
            ["reset"] => {
                {
                    let mut ss = fx.server_state.write();
                    let (b, _) = view_limits(&ss);
                    set_view_limits(&mut ss, b, 10);
                }
                ("ok".to_string(), Verdict::Ok)
            }
            ["limit", l] => {
                let Ok(l) = l.parse::<u32>() else { return bad() };
                {
                    let mut ss = fx.server_state.write();
                    let (b, _) = view_limits(&ss);
                    set_view_limits(&mut ss, b, l as usize);
                }
                ("ok".to_string(), Verdict::Ok)
            }
            ["trn", k, start, es] => {
                let (Ok(k), Ok(start)) = (k.parse::<usize>(), start.parse::<u32>()) else { return bad() };
                if k > 40 {
                    return bad();
                }
                let els = if *es == "-" { None } else { Some(match parse_elems(es) { Some(e) => e, None => return bad() }) };
                let path = BrowsePath { starting_node: id_node(start), relative_path: relative_path(&els) };
                let req = TranslateBrowsePathsToNodeIdsRequest {
                    request_header: RequestHeader::dummy(),
                    browse_paths: Some(vec![path; k]),
                };
                let limit = view_limits(&fx.server_state.read()).1;
                match VViewService::new().translate_browse_paths_to_node_ids(fx.server_state.clone(), self.address_space.clone(), &req) {
                    SupportedMessage::TranslateBrowsePathsToNodeIdsResponse(r) => {
                        let rs = r.results.unwrap_or_default();
                        let lines: Vec<String> = rs.iter().map(result_line).collect();
                        // the oracle: as many results as paths, all equal (same path), within the limit
                        let v = if rs.len() != k {
                            Verdict::fail("translate_status", "multi", format!("{} results for {} paths", rs.len(), k))
                        } else if lines.windows(2).any(|w| w[0] != w[1]) {
                            Verdict::fail("translate_sound", "multi", format!("equal paths, different results: {:?}", lines))
                        } else if k > limit {
                            Verdict::fail("translate_status", "multi", "more paths than the operational limit were served")
                        } else {
                            Verdict::Ok
                        };
                        (format!("ok x{} {}", k, lines.first().cloned().unwrap_or_default()), v)
                    }
                    SupportedMessage::ServiceFault(f) => (format!("err {}", f.response_header.service_result.name()), Verdict::Ok),
                    _ => ("err other".to_string(), Verdict::fail("translate_status", "multi", "unexpected message")),
                }
            }
            ["node", id, nm] => {
                let (Ok(id), Ok(nm)) = (id.parse::<u32>(), nm.parse::<u32>()) else { return bad() };
                if id == 0 || id > 30 || nm == 0 || nm >= 100 {
                    return bad();
                }
                self.universe.insert(id);
                let node = Object::new(&id_node(id), name(nm), format!("n{}", id).as_str(), EventNotifier::empty());
                let ok = self.address_space.write().insert(node, None::<&[(&NodeId, &NodeId, ReferenceDirection)]>);
                (format!("ok {}", b(ok)), Verdict::Ok)
            }
            ["ref", s, t, ty] => {
                let (Ok(s), Ok(t), Ok(ty)) = (s.parse::<u32>(), t.parse::<u32>(), ty.parse::<u32>()) else { return bad() };
                if s == 0 || t == 0 || ty == 0 || s == t || (ty == HAS_SUBTYPE && t <= s) {
                    return bad();
                }
                self.universe.insert(s);
                self.universe.insert(t);
                self.address_space.write().insert_reference(&id_node(s), &id_node(t), id_node(ty));
                ("ok".to_string(), Verdict::Ok)
            }
            ["delref", s, t, ty] => {
                let (Ok(s), Ok(t), Ok(ty)) = (s.parse::<u32>(), t.parse::<u32>(), ty.parse::<u32>()) else { return bad() };
                if s == 0 || t == 0 || ty == 0 || ty == HAS_SUBTYPE {
                    return bad();
                }
                self.universe.insert(s);
                self.universe.insert(t);
                let ok = self.address_space.write().delete_reference(&id_node(s), &id_node(t), id_node(ty));
                (format!("ok {}", b(ok)), Verdict::Ok)
            }
            ["delnode", id, dtr] => {
                let Ok(id) = id.parse::<u32>() else { return bad() };
                if id == 0 || id > 30 || !(*dtr == "0" || *dtr == "1") {
                    return bad();
                }
                let ok = self.address_space.write().delete(&id_node(id), *dtr == "1");
                (format!("ok {}", b(ok)), Verdict::Ok)
            }
            ["tr", start, es] => {
                let Ok(start) = start.parse::<u32>() else { return bad() };
                let els = if *es == "-" { None } else { Some(match parse_elems(es) { Some(e) => e, None => return bad() }) };
                let relative_path = relative_path(&els);
                let req = TranslateBrowsePathsToNodeIdsRequest {
                    request_header: RequestHeader::dummy(),
                    browse_paths: Some(vec![BrowsePath { starting_node: id_node(start), relative_path }]),
                };
                let resp = VViewService::new().translate_browse_paths_to_node_ids(fx.server_state.clone(), self.address_space.clone(), &req);
                let r = match resp {
                    SupportedMessage::TranslateBrowsePathsToNodeIdsResponse(r) => r.results.unwrap_or_default().into_iter().next(),
                    SupportedMessage::ServiceFault(f) => {
                        let v = if view_limits(&fx.server_state.read()).1 == 0 { Verdict::Ok } else { Verdict::fail("translate_status", "fault", "service fault") };
                        return (format!("err {}", f.response_header.service_result.name()), v);
                    }
                    _ => None,
                };
                let Some(r) = r else { return ("err no-result".into(), Verdict::fail("translate_status", "fault", "no result")) };
                let mut got: Vec<u32> = r.targets.clone().unwrap_or_default().iter().map(|t| node_num(&t.target_id.node_id)).collect();
                got.sort();
                let line = if r.status_code.is_good() {
                    format!("ok Good [{}]", got.iter().map(|x| x.to_string()).collect::<Vec<_>>().join(","))
                } else {
                    format!("ok {}", r.status_code.name())
                };
                // oracle: only for well-formed requests on an existing start node with non-null names
                let mut verdict = Verdict::Ok;
                if let Some(els) = &els {
                    let start_exists = self.address_space.read().node_exists(&id_node(start));
                    if start_exists && !els.is_empty() && els.iter().all(|e| e.name != 0) {
                        let want = self.reference(start, els);
                        let got_set: BTreeSet<u32> = got.iter().cloned().collect();
                        let custom = els.iter().any(|e| e.ty != 0 && !(31..1000).contains(&e.ty));
                        let class = if custom { "nonstandard-reftype" } else { "standard-reftype" };
                        if r.status_code.is_good() {
                            if got_set != want {
                                let sub = if got_set.is_subset(&want) { "translate_complete" } else { "translate_sound" };
                                verdict = Verdict::fail(sub, class, format!("got {:?} want {:?}", got_set, want));
                            }
                        } else if r.status_code == StatusCode::BadNoMatch {
                            if !want.is_empty() {
                                verdict = Verdict::fail("translate_complete", class, format!("BadNoMatch but {:?} match", want));
                            }
                        } else {
                            verdict = Verdict::fail("translate_status", class, format!("unexpected status {}", r.status_code.name()));
                        }
                    }
                }
                (line, verdict)
            }
            _ => bad(),
        }
    }
}
