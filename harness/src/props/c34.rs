//! C34 — node management results describe what actually happened.
//!
//! Runs the real `NodeManagementService` (through the `verif_hooks::aspace` wrapper) on a fresh
//! `AddressSpace::new()` and a fresh `Session` per case.  Oracle: observations of the address space
//! before and after every request (node existence, browse names, references in both directions):
//! Good from AddNodes ⇒ the returned id is a node that did not exist before, carries the requested
//! browse name and class and is referenced from the parent with the requested type; a Bad status ⇒
//! the observations are unchanged.
use crate::common::*;
use crate::fixtures;
use opcua::core::supported_message::SupportedMessage;
use opcua::server::address_space::types::{AddressSpace, NodeBase, Object, ObjectType, ReferenceDirection, VariableType};
use opcua::server::address_space::EventNotifier;
use opcua::server::prelude::*;
use opcua::server::session::Session;
use opcua::server::state::ServerState;
use opcua::sync::RwLock;
use opcua::types::node_ids::ObjectId;
use opcua::verif_hooks::aspace::VNodeManagementService;
use std::sync::{Arc, OnceLock};

pub struct C34;
pub static P: C34 = C34;

const ID_BASE: u32 = 1000;
const N_REL: u32 = 12;
const UNREG_BASE: u32 = 5000;

/// a second sample server whose clients may NOT modify the address space (only its state is used)
fn readonly_state() -> Arc<RwLock<ServerState>> {
    struct S(#[allow(dead_code)] Server, Arc<RwLock<ServerState>>);
    unsafe impl Sync for S {}
    unsafe impl Send for S {}
    static RO: OnceLock<S> = OnceLock::new();
    RO.get_or_init(|| {
        let server = ServerBuilder::new_sample()
            .pki_dir(fixtures::scratch_dir().join("pki_ro"))
            .server()
            .expect("sample server");
        let st = server.server_state();
        S(server, st)
    })
    .1
    .clone()
}

/// A small address space holding what the node management functions look at: the Objects folder,
/// BaseObjectType, BaseDataVariableType and the HasSubtype references of the standard reference
/// type hierarchy below HierarchicalReferences.  (`full = true` cases use `AddressSpace::new()`,
/// the complete standard nodeset, which takes ~60 ms per case in the dev profile.)
fn small_space() -> AddressSpace {
    let mut a = AddressSpace::default();
    let none = None::<&[(&NodeId, &NodeId, ReferenceDirection)]>;
    a.insert(Object::new(&NodeId::new(0, 85u32), "Objects", "Objects", EventNotifier::empty()), none);
    a.insert(ObjectType::new(&NodeId::new(0, 58u32), "BaseObjectType", "BaseObjectType", false), none);
    a.insert(
        VariableType::new(&NodeId::new(0, 63u32), "BaseDataVariableType", "BaseDataVariableType", DataTypeId::BaseDataType.into(), false, -2),
        none,
    );
    for (p, c) in [(33u32, 34u32), (33, 35), (33, 36), (34, 44), (34, 45), (44, 46), (44, 47), (47, 49), (44, 56), (36, 48)] {
        a.insert_reference(&NodeId::new(0, p), &NodeId::new(0, c), ReferenceTypeId::HasSubtype);
    }
    a
}

fn obs_universe() -> Vec<u32> {
    let mut v = vec![58, 63, 85];
    v.extend((0..N_REL).map(|k| ID_BASE + k));
    v
}

type Triple = (u32, u32, u32);

#[derive(PartialEq, Clone)]
struct Obs {
    nodes: Vec<u32>,
    info: Vec<(u32, u32, String)>,
    fwd: Vec<Triple>,
    inv: Vec<Triple>,
}

impl Obs {
    fn render(&self) -> String {
        let n: Vec<String> = self.nodes.iter().map(|x| x.to_string()).collect();
        let b: Vec<String> = self.info.iter().map(|(n, c, nm)| format!("{}:{}:{}", n, c, nm)).collect();
        let t = |v: &Vec<Triple>| {
            let s: Vec<String> = v.iter().map(|(a, t, b)| format!("{}>{}>{}", a, t, b)).collect();
            format!("[{}]", s.join(","))
        };
        format!("N=[{}] B=[{}] F={} I={}", n.join(","), b.join(","), t(&self.fwd), t(&self.inv))
    }
}

struct R {
    base: u32,
    space: Arc<RwLock<AddressSpace>>,
    session: Arc<RwLock<Session>>,
    state: Arc<RwLock<ServerState>>,
    svc: VNodeManagementService,
    /// every id AddNodes answered Good with in this case (the only way nodes outside namespace 0
    /// come to exist here); used to decide whether a returned id was a node BEFORE the request
    known: std::collections::HashSet<NodeId>,
}

impl R {
    /// model id → real node id
    fn nid(&self, n: u32) -> NodeId {
        if n < ID_BASE {
            NodeId::new(0, n)
        } else if n >= UNREG_BASE {
            // a namespace index that is not registered in the address space
            NodeId::new(2, n)
        } else {
            NodeId::new(1, self.base + (n - ID_BASE))
        }
    }

    /// real node id → model id (`None` = outside the numbering)
    fn tok(&self, id: &NodeId) -> Option<u32> {
        match (&id.identifier, id.namespace) {
            (Identifier::Numeric(v), 0) if *v < ID_BASE => Some(*v),
            (Identifier::Numeric(v), 1) if *v >= self.base => Some(ID_BASE + (*v - self.base)),
            (Identifier::Numeric(v), 2) if *v >= UNREG_BASE => Some(*v),
            _ => None,
        }
    }

    fn opt_id(&self, s: &str) -> NodeId {
        match s.parse::<u32>() {
            Ok(n) => self.nid(n),
            Err(_) => {
                if s == "x" {
                    NodeId::new(0, 9999u32) // not a ReferenceTypeId
                } else {
                    NodeId::null()
                }
            }
        }
    }

    fn mk_addnode(&self, t: &[&str]) -> AddNodesItem {
        let cls_n: u32 = t[5].parse().unwrap_or(0);
        let attributes = match (cls_n, t[7] == "1") {
            (2, true) | (1, false) => variable_attributes("v"),
            (_, true) => object_attributes("o"),
            (_, false) => ExtensionObject::null(),
        };
        AddNodesItem {
            parent_node_id: ExpandedNodeId::from(self.nid(t[2].parse().unwrap_or(0))),
            reference_type_id: self.opt_id(t[3]),
            requested_new_node_id: ExpandedNodeId {
                node_id: self.opt_id(t[0]),
                namespace_uri: UAString::null(),
                server_index: t[1].parse().unwrap_or(0),
            },
            browse_name: if t[4] == "-" { QualifiedName::null() } else { QualifiedName::new(0, format!("n{}", t[4]).as_str()) },
            node_class: node_class(cls_n),
            node_attributes: attributes,
            type_definition: ExpandedNodeId::from(self.opt_id(t[6])),
        }
    }

    fn mk_addref(&self, t: &[&str]) -> AddReferencesItem {
        AddReferencesItem {
            source_node_id: self.opt_id(t[0]),
            reference_type_id: self.opt_id(t[4]),
            is_forward: t[5] == "1",
            target_server_uri: if t[3] == "1" { UAString::null() } else { UAString::from("urn:other") },
            target_node_id: ExpandedNodeId { node_id: self.opt_id(t[1]), namespace_uri: UAString::null(), server_index: t[2].parse().unwrap_or(0) },
            target_node_class: node_class(t[6].parse().unwrap_or(0)),
        }
    }

    fn mk_delref(&self, t: &[&str]) -> DeleteReferencesItem {
        DeleteReferencesItem {
            source_node_id: self.opt_id(t[0]),
            reference_type_id: self.opt_id(t[3]),
            is_forward: t[4] == "1",
            target_node_id: ExpandedNodeId { node_id: self.opt_id(t[1]), namespace_uri: UAString::null(), server_index: t[2].parse().unwrap_or(0) },
            delete_bidirectional: t[5] == "1",
        }
    }

    fn set_limit(&self, limit: usize) {
        opcua::verif_hooks::aspace::set_max_nodes_per_node_management(&mut self.state.write(), limit);
    }

    fn observe(&self) -> Obs {
        let a = self.space.read();
        let uni = obs_universe();
        let nodes: Vec<u32> = uni.iter().cloned().filter(|n| a.node_exists(&self.nid(*n))).collect();
        let mut info = Vec::new();
        for n in nodes.iter().filter(|n| **n >= ID_BASE) {
            if let Some(node) = a.find_node(&self.nid(*n)) {
                let bn = node.as_node().browse_name();
                let name = bn.name.as_ref().strip_prefix('n').unwrap_or("?").to_string();
                info.push((*n, node.node_class() as u32, name));
            }
        }
        let mut fwd = Vec::new();
        let mut inv = Vec::new();
        for x in uni.iter() {
            if let Some(l) = a.find_references(&self.nid(*x), None::<(NodeId, bool)>) {
                let mut v: Vec<(u32, u32)> = l
                    .iter()
                    .filter_map(|r| Some((self.tok(&r.reference_type)?, self.tok(&r.target_node)?)))
                    .filter(|(_, b)| uni.contains(b))
                    .collect();
                v.sort();
                fwd.extend(v.into_iter().map(|(t, b)| (*x, t, b)));
            }
            if let Some(l) = a.find_inverse_references(&self.nid(*x), None::<(NodeId, bool)>) {
                let mut v: Vec<(u32, u32)> = l
                    .iter()
                    .filter_map(|r| Some((self.tok(&r.reference_type)?, self.tok(&r.target_node)?)))
                    .filter(|(_, s)| uni.contains(s))
                    .collect();
                v.sort();
                inv.extend(v.into_iter().map(|(t, s)| (s, t, *x)));
            }
        }
        Obs { nodes, info, fwd, inv }
    }
}

fn status_name(s: StatusCode) -> String {
    // "Good" / "BadNodeIdExists" …
    format!("{}", s).split_whitespace().next().unwrap_or("?").to_string()
}

fn object_attributes(name: &str) -> ExtensionObject {
    let mask = AttributesMask::DISPLAY_NAME | AttributesMask::EVENT_NOTIFIER;
    ExtensionObject::from_encodable(
        ObjectId::ObjectAttributes_Encoding_DefaultBinary,
        &ObjectAttributes {
            specified_attributes: mask.bits(),
            display_name: LocalizedText::from(name),
            description: LocalizedText::null(),
            write_mask: 0,
            user_write_mask: 0,
            event_notifier: 0,
        },
    )
}

fn variable_attributes(name: &str) -> ExtensionObject {
    let mask = AttributesMask::DISPLAY_NAME
        | AttributesMask::ACCESS_LEVEL
        | AttributesMask::USER_ACCESS_LEVEL
        | AttributesMask::DATA_TYPE
        | AttributesMask::HISTORIZING
        | AttributesMask::VALUE
        | AttributesMask::VALUE_RANK;
    ExtensionObject::from_encodable(
        ObjectId::VariableAttributes_Encoding_DefaultBinary,
        &VariableAttributes {
            specified_attributes: mask.bits(),
            display_name: LocalizedText::from(name),
            description: LocalizedText::null(),
            write_mask: 0,
            user_write_mask: 0,
            value: Variant::from(true),
            data_type: DataTypeId::Boolean.into(),
            value_rank: -1,
            array_dimensions: None,
            access_level: 1,
            user_access_level: 1,
            minimum_sampling_interval: 0.0,
            historizing: false,
        },
    )
}

fn node_class(c: u32) -> NodeClass {
    match c {
        1 => NodeClass::Object,
        2 => NodeClass::Variable,
        _ => NodeClass::Unspecified,
    }
}

/// Post-pass over one generated case: some runs of consecutive items of the same service become ONE
/// request with several items, with the server's per-request limit set below / at / above the number
/// of items; now and then a request with an empty or a missing item list is added.
fn merge_into_requests(rng: &mut Rng, out: &mut Vec<String>, from: usize) {
    let lines: Vec<String> = out.drain(from..).collect();
    let kinds = ["addnode", "addref", "delnode", "delref"];
    let mut i = 0;
    while i < lines.len() {
        let kind = lines[i].split(' ').next().unwrap_or("").to_string();
        if kinds.contains(&kind.as_str()) && rng.chance(1, 5) {
            let mut j = i;
            while j < lines.len() && j - i < 4 && lines[j].starts_with(&format!("{} ", kind)) {
                j += 1;
            }
            let m = rng.range(1, (j - i) as i64) as usize;
            let limit = match rng.weighted(&[3, 3, 2, 2]) {
                0 => 100,
                1 => m,
                2 => m + 1,
                _ => m.saturating_sub(1).max(1),
            };
            let items: Vec<&str> = lines[i..i + m].iter().map(|l| l.split_once(' ').map_or("", |x| x.1)).collect();
            out.push(format!("multi {} {} {} {}", kind, limit, m, items.join(" ")));
            i += m;
            continue;
        }
        if rng.chance(1, 40) {
            let k = *rng.pick(&kinds);
            out.push(format!("multi {} {} {}", k, rng.pick(&[1, 100]), if rng.chance(1, 2) { "null" } else { "0" }));
        }
        out.push(lines[i].clone());
        i += 1;
    }
}

impl Prop for C34 {
    fn id(&self) -> &'static str {
        "C34"
    }

    fn gen(&self, rng: &mut Rng, n: usize, tier: Tier, out: &mut Vec<String>) {
        let ref_types = ["35", "35", "47", "47", "46", "49", "40", "37"];
        for case_no in 0..n {
            // 1 case in 15 without the right to modify, 1 in 12 on the complete standard nodeset
            let can = !rng.chance(1, 15);
            let case_start = out.len();
            out.push(format!("reset {} {}", b(can), b(rng.chance(1, 12))));
            let len = rng.range(2, if tier == Tier::Thorough { 30 } else { 16 });
            let k = rng.range(3, 8) as u32; // ids 1000..1000+k are in play
            // generator-side guess of which ids exist and where the id counter stands (bias only)
            let mut made: Vec<u32> = Vec::new();
            let mut counter = 0u32;
            let mut last_ref: Option<String> = None;
            let rt = |rng: &mut Rng| -> String {
                if rng.chance(1, 16) {
                    "x".to_string()
                } else {
                    rng.pick(&ref_types).to_string()
                }
            };
            // Collision runs: `run` consecutive ids directly ahead of the id counter are taken by
            // requested ids, then the server has to assign one.  Every length 0..=40 in turn (case
            // number mod 41), and one long run of 100 and of 1000 per generated batch.
            let run_len: Option<u32> = if !can {
                None
            } else if case_no == 7 {
                Some(100)
            } else if case_no == 23 {
                Some(1000)
            } else if case_no % 3 == 0 {
                Some(((case_no / 3) % 41) as u32)
            } else {
                None
            };
            if let Some(run) = run_len {
                // sometimes the counter has moved before the run is planted
                if rng.chance(1, 3) {
                    out.push("addnode - 0 85 35 9 1 58 1".to_string());
                    made.push(ID_BASE + counter);
                    counter += 1;
                }
                if run > 0 {
                    out.push(format!("fill {} {}", ID_BASE + counter, run));
                }
                out.push(format!("addnode - 0 85 {} 8 {} {} 1", rng.pick(&["35", "47"]), 1 + rng.below(2), "58"));
                // a variable needs the variable type
                if out.last().unwrap().contains(" 8 2 58 ") {
                    let l = out.pop().unwrap().replace(" 8 2 58 ", " 8 2 63 ");
                    out.push(l);
                }
                for i in 0..run.min(N_REL) {
                    made.push(ID_BASE + counter + i);
                }
                counter += run + 1;
                if run <= 40 && rng.chance(1, 2) {
                    // and once more right behind it
                    out.push("addnode - 0 85 35 7 1 58 1".to_string());
                    counter += 1;
                }
                if run > 40 {
                    continue;
                }
            }
            // most cases start with a few nodes under the Objects folder
            if can && run_len.is_none() && rng.chance(4, 5) {
                for i in 0..rng.range(1, 3) as u32 {
                    let (req, cls, td) = if rng.chance(1, 2) { ("-".to_string(), 1, "58") } else { ((ID_BASE + counter + 1).to_string(), 2, "63") };
                    let id = if req == "-" {
                        while made.contains(&(ID_BASE + counter)) {
                            counter += 1;
                        }
                        counter += 1;
                        ID_BASE + counter - 1
                    } else {
                        ID_BASE + counter + 1
                    };
                    if !made.contains(&id) {
                        made.push(id);
                        out.push(format!("addnode {} 0 85 {} {} {} {} 1", req, rng.pick(&["35", "47"]), 5 + i, cls, td));
                    }
                }
            }
            for _ in 0..len {
                let pick_node = |rng: &mut Rng, made: &Vec<u32>| -> u32 {
                    match rng.weighted(&[if made.is_empty() { 0 } else { 8 }, 3, 2, 1]) {
                        0 => *rng.pick(made),
                        1 => 85,
                        2 => ID_BASE + rng.below(k as u64) as u32,
                        _ => ID_BASE + N_REL - 1, // hardly ever exists
                    }
                };
                match rng.weighted(&[10, 4, 3, 3]) {
                    0 => {
                        // AddNodes: requested ids sit at / just ahead of the id counter so that
                        // server-assigned ids run into them
                        let req = match rng.weighted(&[10, 6, 4, 1]) {
                            0 => None,
                            1 => Some(ID_BASE + counter + rng.below(2) as u32),
                            2 => Some(ID_BASE + rng.below(k as u64) as u32),
                            _ => Some(UNREG_BASE + rng.below(2) as u32),
                        };
                        let si = if rng.chance(1, 30) { 1 } else { 0 };
                        let parent = pick_node(rng, &made);
                        let name = if rng.chance(1, 25) { "-".to_string() } else { rng.below(5).to_string() };
                        let cls = match rng.weighted(&[8, 4, 1]) {
                            0 => 1,
                            1 => 2,
                            _ => 0,
                        };
                        // mostly the matching type definition
                        let td = match (cls, rng.weighted(&[14, 1, 1, 1])) {
                            (1, 0) => "58",
                            (2, 0) => "63",
                            (_, 1) => "-",
                            (_, 2) => "85",
                            (1, _) => "63",
                            _ => "58",
                        };
                        let attrs = b(!rng.chance(1, 15));
                        let rts = rt(rng);
                        if can && si == 0 && cls != 0 && name != "-" && rts != "x" {
                            match req {
                                None => {
                                    while made.contains(&(ID_BASE + counter)) {
                                        counter += 1;
                                    }
                                    if counter < N_REL {
                                        made.push(ID_BASE + counter);
                                    }
                                    counter += 1;
                                }
                                Some(r) => {
                                    if r < UNREG_BASE && !made.contains(&r) {
                                        made.push(r);
                                    }
                                }
                            }
                        }
                        let reqs = req.map_or("-".to_string(), |r| r.to_string());
                        out.push(format!("addnode {} {} {} {} {} {} {} {}", reqs, si, parent, rts, name, cls, td, attrs));
                    }
                    1 => {
                        // AddReferences; sometimes the
                        // previous request again (duplicate)
                        if let (Some(l), true) = (&last_ref, rng.chance(1, 5)) {
                            out.push(l.clone());
                            continue;
                        }
                        let src = pick_node(rng, &made);
                        let mut tgt = pick_node(rng, &made);
                        // a reference from a node to itself is answered BadReferenceNotAllowed; keep it rare
                        if tgt == src && !rng.chance(1, 4) {
                            tgt = if src == 85 { ID_BASE } else { 85 };
                        }
                        let si = if rng.chance(1, 25) { 1 } else { 0 };
                        let uri = b(!rng.chance(1, 25));
                        let tcls = match rng.weighted(&[12, 2, 1]) {
                            0 => 1,
                            1 => 2,
                            _ => 0,
                        };
                        let l = format!("addref {} {} {} {} {} {} {}", src, tgt, si, uri, rt(rng), b(rng.chance(3, 4)), tcls);
                        last_ref = Some(l.clone());
                        out.push(l);
                    }
                    2 => {
                        let x = if !made.is_empty() && rng.chance(3, 4) { *rng.pick(&made) } else { ID_BASE + rng.below(k as u64) as u32 };
                        made.retain(|m| *m != x);
                        out.push(format!("delnode {} {}", x, b(rng.chance(2, 3))));
                    }
                    _ => {
                        let src = if rng.chance(1, 25) { "-".to_string() } else { pick_node(rng, &made).to_string() };
                        let tgt = if rng.chance(1, 25) { "-".to_string() } else { pick_node(rng, &made).to_string() };
                        let si = if rng.chance(1, 25) { 1 } else { 0 };
                        out.push(format!("delref {} {} {} {} {} {}", src, tgt, si, rt(rng), b(rng.chance(2, 3)), b(rng.chance(1, 3))));
                    }
                }
            }
            merge_into_requests(rng, out, case_start + 1);
        }
    }

    fn runner(&self) -> Box<dyn Runner> {
        let fx = fixtures::server();
        Box::new(R {
            base: 0,
            space: Arc::new(RwLock::new(small_space())),
            session: Arc::new(RwLock::new(Session::new(fx.server_state.clone()))),
            state: fx.server_state.clone(),
            svc: VNodeManagementService::new(),
            known: Default::default(),
        })
    }
}

impl Runner for R {
    fn step(&mut self, toks: &[&str]) -> (String, Verdict) {
        match toks {
            ["reset", c, full] => {
                let fx = fixtures::server();
                self.state = if *c == "1" { fx.server_state.clone() } else { readonly_state() };
                self.session = Arc::new(RwLock::new(Session::new(self.state.clone())));
                let mut space = if *full == "1" { AddressSpace::new() } else { small_space() };
                // as `set_server_state` does with the application uri: namespace 1 is registered, 2 is not
                let _ = space.register_namespace("urn:verif-c34");
                self.space = Arc::new(RwLock::new(space));
                self.known.clear();
                // the id counter is global to the process: ids are counted from its current value
                self.base = match NodeId::next_numeric(1).identifier {
                    Identifier::Numeric(v) => v + 1,
                    _ => 0,
                };
                ("ok".to_string(), Verdict::Ok)
            }
            ["multi", kind, limit, n, rest @ ..] => {
                // one request with several items (or none / a missing list), with the server's
                // max_nodes_per_node_management set to `limit` for this call
                let Ok(limit) = limit.parse::<usize>() else { return ("bad-op".into(), Verdict::Ok) };
                let arity = match *kind { "addnode" => 8, "addref" => 7, "delnode" => 2, "delref" => 6, _ => return ("bad-op".into(), Verdict::Ok) };
                let count: Option<usize> = if *n == "null" { None } else { n.parse().ok() };
                if *n != "null" && (count.is_none() || rest.len() != count.unwrap() * arity) {
                    return ("bad-op".into(), Verdict::Ok);
                }
                let chunks: Vec<&[&str]> = rest.chunks(arity).collect();
                let before = self.observe();
                let pre_existing: std::collections::HashSet<NodeId> = {
                    let a = self.space.read();
                    self.known.iter().filter(|k| a.node_exists(k)).cloned().collect()
                };
                self.set_limit(limit);
                let hdr = RequestHeader::dummy();
                let resp = match *kind {
                    "addnode" => self.svc.add_nodes(self.state.clone(), self.session.clone(), self.space.clone(),
                        &AddNodesRequest { request_header: hdr, nodes_to_add: count.map(|_| chunks.iter().map(|c| self.mk_addnode(c)).collect()) }),
                    "addref" => self.svc.add_references(self.state.clone(), self.session.clone(), self.space.clone(),
                        &AddReferencesRequest { request_header: hdr, references_to_add: count.map(|_| chunks.iter().map(|c| self.mk_addref(c)).collect()) }),
                    "delnode" => self.svc.delete_nodes(self.state.clone(), self.session.clone(), self.space.clone(),
                        &DeleteNodesRequest { request_header: hdr, nodes_to_delete: count.map(|_| chunks.iter().map(|c| DeleteNodesItem { node_id: self.nid(c[0].parse().unwrap_or(0)), delete_target_references: c[1] == "1" }).collect()) }),
                    _ => self.svc.delete_references(self.state.clone(), self.session.clone(), self.space.clone(),
                        &DeleteReferencesRequest { request_header: hdr, references_to_delete: count.map(|_| chunks.iter().map(|c| self.mk_delref(c)).collect()) }),
                };
                self.set_limit(100);
                let after = self.observe();
                let class = format!("multi-{}", kind);
                // (status, returned id) per item, or the service fault
                let results: Result<Vec<(StatusCode, Option<NodeId>)>, StatusCode> = match resp {
                    SupportedMessage::AddNodesResponse(r) => Ok(r.results.unwrap_or_default().iter().map(|x| (x.status_code, Some(x.added_node_id.clone()))).collect()),
                    SupportedMessage::AddReferencesResponse(r) => Ok(r.results.unwrap_or_default().iter().map(|x| (*x, None)).collect()),
                    SupportedMessage::DeleteNodesResponse(r) => Ok(r.results.unwrap_or_default().iter().map(|x| (*x, None)).collect()),
                    SupportedMessage::DeleteReferencesResponse(r) => Ok(r.results.unwrap_or_default().iter().map(|x| (*x, None)).collect()),
                    SupportedMessage::ServiceFault(f) => Err(f.response_header.service_result),
                    _ => Err(StatusCode::BadUnexpectedError),
                };
                match results {
                    Err(st) => {
                        let v = if before != after {
                            Verdict::fail("bad_is_noop", &class, format!("service fault {} but the address space changed", status_name(st)))
                        } else {
                            Verdict::Ok
                        };
                        (format!("fault {} {}", status_name(st), after.render()), v)
                    }
                    Ok(rs) => {
                        let mut v = Verdict::Ok;
                        if rs.len() != count.unwrap_or(0) {
                            v = Verdict::fail("one_result_per_item", &class, format!("{} results for {} items", rs.len(), count.unwrap_or(0)));
                        } else if rs.iter().all(|(st, _)| st.is_bad()) && before != after {
                            v = Verdict::fail("bad_is_noop", &class, "every item Bad but the address space changed");
                        }
                        let mut shown = Vec::new();
                        let mut seen: Vec<NodeId> = Vec::new();
                        for (k, (st, id)) in rs.iter().enumerate() {
                            if *kind == "addnode" {
                                let id = id.clone().unwrap_or_else(NodeId::null);
                                if st.is_good() {
                                    let a = self.space.read();
                                    let c = chunks[k];
                                    let parent = self.nid(c[2].parse().unwrap_or(0));
                                    if pre_existing.contains(&id) || seen.contains(&id) || self.tok(&id).map_or(false, |t| before.nodes.contains(&t)) {
                                        v = Verdict::fail("assigned_ids_fresh", &class, format!("item {}: Good with an id that was a node already", k));
                                    } else if !a.node_exists(&id) {
                                        v = Verdict::fail("add_good_means_present", &class, format!("item {}: Good but no node with the returned id", k));
                                    } else if !a.node_exists(&parent) || !a.has_reference(&parent, &id, self.opt_id(c[3])) {
                                        // a later item of the same request may have deleted nothing: adds only
                                        v = Verdict::fail("parent_link", &class, format!("item {}: the parent does not reference the new node", k));
                                    }
                                    seen.push(id.clone());
                                } else if !id.is_null() {
                                    v = Verdict::fail("bad_is_noop", &class, format!("item {}: Bad status with a node id", k));
                                }
                                shown.push(format!("{}:{}", status_name(*st), if id.is_null() { "-".to_string() } else { self.tok(&id).map_or("?".to_string(), |t| t.to_string()) }));
                            } else {
                                shown.push(status_name(*st));
                            }
                        }
                        for id in seen {
                            self.known.insert(id);
                        }
                        (format!("ok [{}] {}", shown.join(","), after.render()), v)
                    }
                }
            }
            ["fill", a, n] => {
                // `n` AddNodes items with the requested ids a, a+1, …: occupies a run of ids
                let (Ok(a), Ok(n)) = (a.parse::<u32>(), n.parse::<u32>()) else { return ("bad-op".into(), Verdict::Ok) };
                let mut good = 0;
                let mut verdict = Verdict::Ok;
                let mut parent = 85u32;
                for i in 0..n {
                    let id = self.nid(a + i);
                    let existed = self.space.read().node_exists(&id);
                    let name = format!("n{}", a + i);
                    let item = AddNodesItem {
                        parent_node_id: ExpandedNodeId::from(self.nid(parent)),
                        reference_type_id: NodeId::new(0, 35u32),
                        requested_new_node_id: ExpandedNodeId::from(id.clone()),
                        browse_name: QualifiedName::new(0, name.as_str()),
                        node_class: NodeClass::Object,
                        node_attributes: object_attributes("o"),
                        type_definition: ExpandedNodeId::from(NodeId::new(0, 58u32)),
                    };
                    let resp = self.svc.add_nodes(
                        self.state.clone(),
                        self.session.clone(),
                        self.space.clone(),
                        &AddNodesRequest { request_header: RequestHeader::dummy(), nodes_to_add: Some(vec![item]) },
                    );
                    let SupportedMessage::AddNodesResponse(resp) = resp else {
                        return ("err service-fault".to_string(), Verdict::fail("response", "fill", "service fault"));
                    };
                    let r = &resp.results.as_ref().unwrap()[0];
                    if r.status_code.is_good() {
                        good += 1;
                        if existed || r.added_node_id != id || !self.space.read().node_exists(&id) {
                            verdict = Verdict::fail("add_good_means_present", "requested-id", format!("fill item {}: Good but not a new node under the requested id", a + i));
                        }
                        self.known.insert(r.added_node_id.clone());
                    }
                    parent = a + i;
                }
                (format!("ok {} {}", good, self.observe().render()), verdict)
            }
            ["addnode", req, si, parent, rt, name, cls, td, attrs] => {
                let before = self.observe();
                // which of the ids handed out so far are nodes right now
                let pre_existing: std::collections::HashSet<NodeId> = {
                    let a = self.space.read();
                    self.known.iter().filter(|k| a.node_exists(k)).cloned().collect()
                };
                let cls_n: u32 = cls.parse().unwrap_or(0);
                let nm = if *name == "-" { None } else { Some(format!("n{}", name)) };
                let attributes = match (cls_n, *attrs == "1") {
                    (2, true) | (1, false) => variable_attributes("v"),
                    (_, true) => object_attributes("o"),
                    (_, false) => ExtensionObject::null(),
                };
                let parent_n: u32 = parent.parse().unwrap_or(0);
                let item = AddNodesItem {
                    parent_node_id: ExpandedNodeId::from(self.nid(parent_n)),
                    reference_type_id: self.opt_id(rt),
                    requested_new_node_id: ExpandedNodeId {
                        node_id: self.opt_id(req),
                        namespace_uri: UAString::null(),
                        server_index: si.parse().unwrap_or(0),
                    },
                    browse_name: match &nm {
                        Some(s) => QualifiedName::new(0, s.as_str()),
                        None => QualifiedName::null(),
                    },
                    node_class: node_class(cls_n),
                    node_attributes: attributes,
                    type_definition: ExpandedNodeId::from(self.opt_id(td)),
                };
                let class = if *req == "-" { "auto-id" } else { "requested-id" };
                let resp = self.svc.add_nodes(
                    self.state.clone(),
                    self.session.clone(),
                    self.space.clone(),
                    &AddNodesRequest { request_header: RequestHeader::dummy(), nodes_to_add: Some(vec![item]) },
                );
                let SupportedMessage::AddNodesResponse(resp) = resp else {
                    return ("err service-fault".to_string(), Verdict::fail("response", class, "service fault"));
                };
                let r = &resp.results.as_ref().unwrap()[0];
                let after = self.observe();
                let id_tok = if r.added_node_id.is_null() { None } else { self.tok(&r.added_node_id) };
                let verdict = if r.status_code.is_good() {
                    // Good ⇒ a NEW node with the returned id exists …
                    let a = self.space.read();
                    let id = &r.added_node_id;
                    let existed_before = id_tok.map_or(false, |t| before.nodes.contains(&t)) || pre_existing.contains(id);
                    if existed_before {
                        Verdict::fail("assigned_ids_fresh", class, format!("Good with id {:?} which existed before the request", id_tok))
                    } else if !a.node_exists(id) {
                        Verdict::fail("add_good_means_present", class, "Good but no node with the returned id")
                    } else if a.find_node(id).map(|n| n.as_node().browse_name().name.as_ref().to_string()) != nm
                        || a.find_node(id).map(|n| n.node_class()) != Some(node_class(cls_n))
                    {
                        Verdict::fail("add_good_means_present", class, "the node under the returned id is not the requested one")
                    } else if !a.node_exists(&self.nid(parent_n)) {
                        Verdict::fail("parent_link", class, "Good although the given parent is not a node")
                    } else if !a.has_reference(&self.nid(parent_n), id, self.opt_id(rt)) {
                        // … and the parent references it with the given type
                        Verdict::fail("parent_link", class, "the parent holds no reference of the given type to the new node")
                    } else {
                        Verdict::Ok
                    }
                } else if before != after {
                    Verdict::fail("bad_is_noop", class, format!("{} but the address space changed: {} -> {}", status_name(r.status_code), before.render(), after.render()))
                } else if !r.added_node_id.is_null() {
                    Verdict::fail("bad_is_noop", class, "Bad status with a node id")
                } else {
                    Verdict::Ok
                };
                if r.status_code.is_good() {
                    self.known.insert(r.added_node_id.clone());
                }
                let idn = id_tok.map_or("-".to_string(), |t| t.to_string());
                (format!("ok {} {} {}", status_name(r.status_code), idn, after.render()), verdict)
            }
            ["addref", src, tgt, si, uri, rt, fwd, tcls] => {
                let before = self.observe();
                let item = AddReferencesItem {
                    source_node_id: self.opt_id(src),
                    reference_type_id: self.opt_id(rt),
                    is_forward: *fwd == "1",
                    target_server_uri: if *uri == "1" { UAString::null() } else { UAString::from("urn:other") },
                    target_node_id: ExpandedNodeId {
                        node_id: self.opt_id(tgt),
                        namespace_uri: UAString::null(),
                        server_index: si.parse().unwrap_or(0),
                    },
                    target_node_class: node_class(tcls.parse().unwrap_or(0)),
                };
                let resp = self.svc.add_references(
                    self.state.clone(),
                    self.session.clone(),
                    self.space.clone(),
                    &AddReferencesRequest { request_header: RequestHeader::dummy(), references_to_add: Some(vec![item]) },
                );
                let SupportedMessage::AddReferencesResponse(resp) = resp else {
                    return ("err service-fault".to_string(), Verdict::fail("response", "addref", "service fault"));
                };
                let st = resp.results.as_ref().unwrap()[0];
                let after = self.observe();
                let v = if st.is_bad() && before != after {
                    Verdict::fail("bad_is_noop", "addref", format!("{} but the address space changed", status_name(st)))
                } else {
                    Verdict::Ok
                };
                (format!("ok {} {}", status_name(st), after.render()), v)
            }
            ["delnode", n, d] => {
                let before = self.observe();
                let n: u32 = n.parse().unwrap_or(0);
                let existed = before.nodes.contains(&n);
                let class = if existed { "delnode-existing" } else { "delnode-absent" };
                let item = DeleteNodesItem { node_id: self.nid(n), delete_target_references: *d == "1" };
                let resp = self.svc.delete_nodes(
                    self.state.clone(),
                    self.session.clone(),
                    self.space.clone(),
                    &DeleteNodesRequest { request_header: RequestHeader::dummy(), nodes_to_delete: Some(vec![item]) },
                );
                let SupportedMessage::DeleteNodesResponse(resp) = resp else {
                    return ("err service-fault".to_string(), Verdict::fail("response", class, "service fault"));
                };
                let st = resp.results.as_ref().unwrap()[0];
                let after = self.observe();
                let v = if st.is_bad() && before != after {
                    Verdict::fail("bad_is_noop", class, format!("{} but the address space changed: {} -> {}", status_name(st), before.render(), after.render()))
                } else {
                    Verdict::Ok
                };
                (format!("ok {} {}", status_name(st), after.render()), v)
            }
            ["delref", src, tgt, si, rt, fwd, bidi] => {
                let before = self.observe();
                let item = DeleteReferencesItem {
                    source_node_id: self.opt_id(src),
                    reference_type_id: self.opt_id(rt),
                    is_forward: *fwd == "1",
                    target_node_id: ExpandedNodeId {
                        node_id: self.opt_id(tgt),
                        namespace_uri: UAString::null(),
                        server_index: si.parse().unwrap_or(0),
                    },
                    delete_bidirectional: *bidi == "1",
                };
                let resp = self.svc.delete_references(
                    self.state.clone(),
                    self.session.clone(),
                    self.space.clone(),
                    &DeleteReferencesRequest { request_header: RequestHeader::dummy(), references_to_delete: Some(vec![item]) },
                );
                let SupportedMessage::DeleteReferencesResponse(resp) = resp else {
                    return ("err service-fault".to_string(), Verdict::fail("response", "delref", "service fault"));
                };
                let st = resp.results.as_ref().unwrap()[0];
                let after = self.observe();
                let v = if st.is_bad() && before != after {
                    Verdict::fail("bad_is_noop", "delref", format!("{} but the address space changed", status_name(st)))
                } else {
                    Verdict::Ok
                };
                (format!("ok {} {}", status_name(st), after.render()), v)
            }
            ["obs"] => (format!("ok {}", self.observe().render()), Verdict::Ok),
            _ => ("bad-op".to_string(), Verdict::Ok),
        }
    }

    /// since the C33 fixes none of the generated inputs can panic (theorem `run_total` for the
    /// model); a panic here is reported
    fn on_panic(&self, _toks: &[&str]) -> Verdict {
        Verdict::fail("no_panic", "c33-territory", "node management panicked")
    }
}
