//! C42 — JSON encoding of the built-in types round-trips.
//!
//! Values and JSON trees travel as ONE token in a small term notation `name` | `name(t1,t2,…)` | `name()`:
//!   JSON : n | t | f | i<int> | d<16 hex f64 bits> | s<hex utf8> | a(…) | o(s<key>,v,s<key>,v,…)
//!   typed: strings `-`/s<hex>, bytes `-`/x<hex>, N(ns,kind,val), E(svr,uri,ns,kind,val), T(secs1601,nanos),
//!          Q(ns,name), L(locale,text), D(var|-,status|-,T|-,pico|-,T|-,pico|-), variants e, b(1), i8(v) … arr
use super::c04::{opt_shex, opt_sunhex, opt_xhex, opt_xunhex, shex, sunhex, xhex, FRAGMENTS};
use crate::common::*;
use opcua::types::*;
use serde::{de::DeserializeOwned, Serialize};
use serde_json::Value;
use std::panic::{catch_unwind, AssertUnwindSafe};

pub struct C42;
pub static P: C42 = C42;

// ------------------------------------------------------------------------------------------------
// term notation
// ------------------------------------------------------------------------------------------------

#[derive(Clone, Debug, PartialEq)]
pub struct T(pub String, pub Vec<T>);

fn leaf(s: impl Into<String>) -> T {
    T(s.into(), vec![])
}

fn parse_t(s: &[u8], pos: &mut usize) -> Option<T> {
    let start = *pos;
    while *pos < s.len() && !matches!(s[*pos], b'(' | b')' | b',') {
        *pos += 1;
    }
    let name = String::from_utf8(s[start..*pos].to_vec()).ok()?;
    if *pos < s.len() && s[*pos] == b'(' {
        *pos += 1;
        let mut kids = vec![];
        if *pos < s.len() && s[*pos] == b')' {
            *pos += 1;
            return Some(T(name, kids));
        }
        loop {
            kids.push(parse_t(s, pos)?);
            if *pos >= s.len() {
                return None;
            }
            match s[*pos] {
                b',' => *pos += 1,
                b')' => {
                    *pos += 1;
                    return Some(T(name, kids));
                }
                _ => return None,
            }
        }
    }
    Some(T(name, kids_none()))
}

fn kids_none() -> Vec<T> {
    vec![]
}

pub fn tree_of(s: &str) -> Option<T> {
    let mut pos = 0;
    let t = parse_t(s.as_bytes(), &mut pos)?;
    if pos == s.len() {
        Some(t)
    } else {
        None
    }
}

pub fn tree_out(t: &T) -> String {
    if t.1.is_empty() {
        // `a()` / `o()` keep their parentheses so that they differ from leaves
        if t.0 == "a" || t.0 == "o" {
            format!("{}()", t.0)
        } else {
            t.0.clone()
        }
    } else {
        let k: Vec<String> = t.1.iter().map(tree_out).collect();
        format!("{}({})", t.0, k.join(","))
    }
}

// ------------------------------------------------------------------------------------------------
// JSON <-> tree
// ------------------------------------------------------------------------------------------------

fn json_of(t: &T) -> Option<Value> {
    let n = t.0.as_str();
    if t.0 == "a" {
        return t.1.iter().map(json_of).collect::<Option<Vec<_>>>().map(Value::Array);
    }
    if t.0 == "o" {
        if t.1.len() % 2 != 0 {
            return None;
        }
        let mut m = serde_json::Map::new();
        for kv in t.1.chunks(2) {
            if !kv[0].1.is_empty() {
                return None;
            }
            m.insert(sunhex(&kv[0].0)?, json_of(&kv[1])?);
        }
        return Some(Value::Object(m));
    }
    if !t.1.is_empty() {
        return None;
    }
    match n {
        "n" => Some(Value::Null),
        "t" => Some(Value::Bool(true)),
        "f" => Some(Value::Bool(false)),
        _ => {
            if let Some(r) = n.strip_prefix('i') {
                let z: i128 = r.parse().ok()?;
                if z >= 0 {
                    Some(Value::Number(serde_json::Number::from(u64::try_from(z).ok()?)))
                } else {
                    Some(Value::Number(serde_json::Number::from(i64::try_from(z).ok()?)))
                }
            } else if let Some(r) = n.strip_prefix('d') {
                let b = u64::from_str_radix(r, 16).ok()?;
                serde_json::Number::from_f64(f64::from_bits(b)).map(Value::Number)
            } else if n.starts_with('s') {
                sunhex(n).map(Value::String)
            } else {
                None
            }
        }
    }
}

fn json_tree(v: &Value) -> T {
    match v {
        Value::Null => leaf("n"),
        Value::Bool(true) => leaf("t"),
        Value::Bool(false) => leaf("f"),
        Value::Number(n) => {
            let text = n.to_string();
            if let Ok(z) = text.parse::<i128>() {
                leaf(format!("i{}", z))
            } else {
                match n.as_f64() {
                    Some(f) => leaf(format!("d{:016x}", f.to_bits())),
                    None => leaf(format!("r{}", hex(text.as_bytes()))),
                }
            }
        }
        Value::String(s) => leaf(shex(s)),
        Value::Array(a) => T("a".into(), a.iter().map(json_tree).collect()),
        Value::Object(m) => {
            let mut kids = vec![];
            // BTreeMap order = code point order of the keys
            for (k, v) in m {
                kids.push(leaf(shex(k)));
                kids.push(json_tree(v));
            }
            T("o".into(), kids)
        }
    }
}

// ------------------------------------------------------------------------------------------------
// typed values <-> tree
// ------------------------------------------------------------------------------------------------

const EPOCH_1601_UNIX: i64 = -11_644_473_600;

fn dt_of(t: &T) -> Option<DateTime> {
    if t.0 != "T" || t.1.len() != 2 {
        return None;
    }
    let secs: i64 = t.1[0].0.parse().ok()?;
    let nanos: u32 = t.1[1].0.parse().ok()?;
    let c = chrono::DateTime::<chrono::Utc>::from_timestamp(secs + EPOCH_1601_UNIX, nanos)?;
    Some(DateTime::from(c))
}

fn dt_tree(d: &DateTime) -> T {
    let c = d.as_chrono();
    T("T".into(), vec![leaf((c.timestamp() - EPOCH_1601_UNIX).to_string()), leaf(c.timestamp_subsec_nanos().to_string())])
}

fn ident_of(k: &T, v: &T) -> Option<Identifier> {
    match k.0.as_str() {
        "i" => v.0.parse::<u32>().ok().map(Identifier::Numeric),
        "s" => opt_sunhex(&v.0).map(Identifier::String),
        "g" => {
            let b = unhex(v.0.strip_prefix('x')?)?;
            Some(Identifier::Guid(Guid::from_bytes(b.try_into().ok()?)))
        }
        "b" => opt_xunhex(&v.0).map(Identifier::ByteString),
        _ => None,
    }
}

fn ident_trees(i: &Identifier) -> (T, T) {
    match i {
        Identifier::Numeric(n) => (leaf("i"), leaf(n.to_string())),
        Identifier::String(s) => (leaf("s"), leaf(opt_shex(s))),
        Identifier::Guid(g) => (leaf("g"), leaf(xhex(g.as_bytes()))),
        Identifier::ByteString(b) => (leaf("b"), leaf(opt_xhex(b))),
    }
}

fn nid_of(t: &T) -> Option<NodeId> {
    if t.0 != "N" || t.1.len() != 3 {
        return None;
    }
    Some(NodeId { namespace: t.1[0].0.parse().ok()?, identifier: ident_of(&t.1[1], &t.1[2])? })
}

fn nid_tree(n: &NodeId) -> T {
    let (k, v) = ident_trees(&n.identifier);
    T("N".into(), vec![leaf(n.namespace.to_string()), k, v])
}

fn xnid_of(t: &T) -> Option<ExpandedNodeId> {
    if t.0 != "E" || t.1.len() != 5 {
        return None;
    }
    Some(ExpandedNodeId {
        server_index: t.1[0].0.parse().ok()?,
        namespace_uri: opt_sunhex(&t.1[1].0)?,
        node_id: NodeId { namespace: t.1[2].0.parse().ok()?, identifier: ident_of(&t.1[3], &t.1[4])? },
    })
}

fn xnid_tree(e: &ExpandedNodeId) -> T {
    let (k, v) = ident_trees(&e.node_id.identifier);
    T(
        "E".into(),
        vec![leaf(e.server_index.to_string()), leaf(opt_shex(&e.namespace_uri)), leaf(e.node_id.namespace.to_string()), k, v],
    )
}

fn qn_of(t: &T) -> Option<QualifiedName> {
    if t.0 != "Q" || t.1.len() != 2 {
        return None;
    }
    Some(QualifiedName { namespace_index: t.1[0].0.parse().ok()?, name: opt_sunhex(&t.1[1].0)? })
}

fn qn_tree(q: &QualifiedName) -> T {
    T("Q".into(), vec![leaf(q.namespace_index.to_string()), leaf(opt_shex(&q.name))])
}

fn lt_of(t: &T) -> Option<LocalizedText> {
    if t.0 != "L" || t.1.len() != 2 {
        return None;
    }
    Some(LocalizedText { locale: opt_sunhex(&t.1[0].0)?, text: opt_sunhex(&t.1[1].0)? })
}

fn lt_tree(l: &LocalizedText) -> T {
    T("L".into(), vec![leaf(opt_shex(&l.locale)), leaf(opt_shex(&l.text))])
}

fn opt_of<X>(t: &T, f: impl Fn(&T) -> Option<X>) -> Option<Option<X>> {
    if t.0 == "-" && t.1.is_empty() {
        Some(None)
    } else {
        f(t).map(Some)
    }
}

fn dv_of(t: &T) -> Option<DataValue> {
    if t.0 != "D" || t.1.len() != 6 {
        return None;
    }
    Some(DataValue {
        value: opt_of(&t.1[0], var_of)?,
        status: opt_of(&t.1[1], |t| t.0.parse::<u32>().ok().map(StatusCode::from_bits_truncate))?,
        source_timestamp: opt_of(&t.1[2], dt_of)?,
        source_picoseconds: opt_of(&t.1[3], |t| t.0.parse::<u16>().ok())?,
        server_timestamp: opt_of(&t.1[4], dt_of)?,
        server_picoseconds: opt_of(&t.1[5], |t| t.0.parse::<u16>().ok())?,
    })
}

fn opt_tree<X>(o: &Option<X>, f: impl Fn(&X) -> T) -> T {
    match o {
        None => leaf("-"),
        Some(x) => f(x),
    }
}

fn dv_tree(d: &DataValue) -> T {
    T(
        "D".into(),
        vec![
            opt_tree(&d.value, var_tree),
            opt_tree(&d.status, |s| leaf(s.bits().to_string())),
            opt_tree(&d.source_timestamp, dt_tree),
            opt_tree(&d.source_picoseconds, |p| leaf(p.to_string())),
            opt_tree(&d.server_timestamp, dt_tree),
            opt_tree(&d.server_picoseconds, |p| leaf(p.to_string())),
        ],
    )
}

fn var_of(t: &T) -> Option<Variant> {
    let one = || if t.1.len() == 1 { Some(&t.1[0]) } else { None };
    Some(match t.0.as_str() {
        "e" if t.1.is_empty() => Variant::Empty,
        "arr" if t.1.is_empty() => Variant::from(vec![1i32, 2, 3]),
        "b" => Variant::Boolean(one()?.0 == "1"),
        "i8" => Variant::SByte(one()?.0.parse().ok()?),
        "u8" => Variant::Byte(one()?.0.parse().ok()?),
        "i16" => Variant::Int16(one()?.0.parse().ok()?),
        "u16" => Variant::UInt16(one()?.0.parse().ok()?),
        "i32" => Variant::Int32(one()?.0.parse().ok()?),
        "u32" => Variant::UInt32(one()?.0.parse().ok()?),
        "i64" => Variant::Int64(one()?.0.parse().ok()?),
        "u64" => Variant::UInt64(one()?.0.parse().ok()?),
        "f32" => Variant::Float(f32::from_bits(u32::from_str_radix(&one()?.0, 16).ok()?)),
        "f64" => Variant::Double(f64::from_bits(u64::from_str_radix(&one()?.0, 16).ok()?)),
        "str" => Variant::String(opt_sunhex(&one()?.0)?),
        "dt" => Variant::DateTime(Box::new(dt_of(one()?)?)),
        "guid" => Variant::Guid(Box::new(Guid::from_bytes(unhex(one()?.0.strip_prefix('x')?)?.try_into().ok()?))),
        "bs" => Variant::ByteString(opt_xunhex(&one()?.0)?),
        "xml" => Variant::XmlElement(opt_sunhex(&one()?.0)?),
        "nid" => Variant::NodeId(Box::new(nid_of(one()?)?)),
        "xnid" => Variant::ExpandedNodeId(Box::new(xnid_of(one()?)?)),
        "sc" => Variant::StatusCode(StatusCode::from_bits_truncate(one()?.0.parse().ok()?)),
        "qn" => Variant::QualifiedName(Box::new(qn_of(one()?)?)),
        "lt" => Variant::LocalizedText(Box::new(lt_of(one()?)?)),
        "dv" => Variant::DataValue(Box::new(dv_of(one()?)?)),
        "var" => Variant::Variant(Box::new(var_of(one()?)?)),
        _ => return None,
    })
}

fn f32_txt(f: f32) -> String {
    if f.is_nan() {
        "nan".into()
    } else {
        format!("{:08x}", f.to_bits())
    }
}

fn f64_txt(f: f64) -> String {
    if f.is_nan() {
        "nan".into()
    } else {
        format!("{:016x}", f.to_bits())
    }
}

fn var_tree(v: &Variant) -> T {
    let n = |name: &str, k: T| T(name.into(), vec![k]);
    match v {
        Variant::Empty => leaf("e"),
        Variant::Boolean(b) => n("b", leaf(if *b { "1" } else { "0" })),
        Variant::SByte(x) => n("i8", leaf(x.to_string())),
        Variant::Byte(x) => n("u8", leaf(x.to_string())),
        Variant::Int16(x) => n("i16", leaf(x.to_string())),
        Variant::UInt16(x) => n("u16", leaf(x.to_string())),
        Variant::Int32(x) => n("i32", leaf(x.to_string())),
        Variant::UInt32(x) => n("u32", leaf(x.to_string())),
        Variant::Int64(x) => n("i64", leaf(x.to_string())),
        Variant::UInt64(x) => n("u64", leaf(x.to_string())),
        Variant::Float(x) => n("f32", leaf(f32_txt(*x))),
        Variant::Double(x) => n("f64", leaf(f64_txt(*x))),
        Variant::String(s) => n("str", leaf(opt_shex(s))),
        Variant::DateTime(d) => n("dt", dt_tree(d)),
        Variant::Guid(g) => n("guid", leaf(xhex(g.as_bytes()))),
        Variant::ByteString(b) => n("bs", leaf(opt_xhex(b))),
        Variant::XmlElement(s) => n("xml", leaf(opt_shex(s))),
        Variant::NodeId(x) => n("nid", nid_tree(x)),
        Variant::ExpandedNodeId(x) => n("xnid", xnid_tree(x)),
        Variant::StatusCode(s) => n("sc", leaf(s.bits().to_string())),
        Variant::QualifiedName(q) => n("qn", qn_tree(q)),
        Variant::LocalizedText(l) => n("lt", lt_tree(l)),
        Variant::DataValue(d) => n("dv", dv_tree(d)),
        Variant::Variant(x) => n("var", var_tree(x)),
        Variant::Array(_) => leaf("arr"),
        _ => leaf("unmodelled"),
    }
}

// ------------------------------------------------------------------------------------------------
// input features (class tags): what about this value lies outside the quantifier or is a recorded class
// ------------------------------------------------------------------------------------------------

#[derive(Default)]
struct Feat(Vec<&'static str>);

impl Feat {
    fn add(&mut self, f: &'static str) {
        if !self.0.contains(&f) {
            self.0.push(f);
        }
    }
    fn ident(&mut self, i: &Identifier) {
        match i {
            Identifier::String(s) if s.is_empty() => self.add("nid-empty"),
            Identifier::ByteString(b) if b.is_null_or_empty() => self.add("nid-empty"),
            _ => {}
        }
    }
    fn dt(&mut self, d: &DateTime) {
        if d.as_chrono().timestamp_subsec_nanos() % 1_000_000 != 0 {
            self.add("dt-subms");
        }
    }
    fn dv(&mut self, d: &DataValue) {
        if let Some(v) = &d.value {
            self.var(v);
        }
        if let Some(t) = &d.source_timestamp {
            self.dt(t);
        }
        if let Some(t) = &d.server_timestamp {
            self.dt(t);
        }
    }
    fn var(&mut self, v: &Variant) {
        match v {
            Variant::Float(f) if f.abs() == f32::MAX => self.add("f32max"),
            Variant::XmlElement(s) if s.is_null() => self.add("xml-null"),
            Variant::DateTime(d) => self.dt(d),
            Variant::NodeId(n) => self.ident(&n.identifier),
            Variant::ExpandedNodeId(e) => self.xnid(e),
            Variant::DataValue(d) => self.dv(d),
            Variant::Variant(x) => self.var(x),
            Variant::Array(_) => self.add("array"),
            _ => {}
        }
    }
    fn xnid(&mut self, e: &ExpandedNodeId) {
        self.ident(&e.node_id.identifier);
        // a namespace uri takes the single `Namespace` slot of the JSON form: an index != 0 next to it is lost
        if !e.namespace_uri.is_null() && e.node_id.namespace != 0 {
            self.add("xnid-uri-ns");
        }
    }
    /// outside the property's quantifier?
    fn outside(&self) -> bool {
        self.0.iter().any(|f| *f == "nid-empty" || *f == "dt-subms")
    }
    fn tag(&self, ty: &str) -> String {
        if self.0.is_empty() {
            format!("{}:plain", ty)
        } else {
            let mut v = self.0.clone();
            v.sort();
            format!("{}:{}", ty, v.join("+"))
        }
    }
}

// ------------------------------------------------------------------------------------------------
// the generic round trip
// ------------------------------------------------------------------------------------------------

fn rt<X: Serialize + DeserializeOwned>(x: &X, out: impl Fn(&X) -> String, class: &str, outside: bool) -> (String, Verdict) {
    let ser = catch_unwind(AssertUnwindSafe(|| serde_json::to_value(x)));
    let j = match ser {
        Err(_) => return ("panic".into(), Verdict::fail("no_panic", class, "serialisation panicked")),
        Ok(Err(e)) => return ("err".into(), Verdict::fail("roundtrip", class, format!("does not serialise: {}", e))),
        Ok(Ok(j)) => j,
    };
    let want = out(x);
    let back = catch_unwind(AssertUnwindSafe(|| serde_json::from_value::<X>(j.clone())));
    let (r, mut verdict) = match back {
        Err(_) => return ("panic".into(), Verdict::fail("no_panic", class, "deserialisation panicked")),
        Ok(Err(e)) => ("err".to_string(), Verdict::fail("roundtrip", class, format!("own JSON {} rejected: {}", j, e))),
        Ok(Ok(y)) => {
            let got = out(&y);
            let v = if got != want { Verdict::fail("roundtrip", class, format!("{} came back as {}", want, got)) } else { Verdict::Ok };
            (got, v)
        }
    };
    // the same through JSON text (what goes over the wire)
    if matches!(verdict, Verdict::Ok) {
        let text = catch_unwind(AssertUnwindSafe(|| serde_json::to_string(x).ok().and_then(|s| serde_json::from_str::<X>(&s).ok().map(|y| (s, out(&y))))));
        match text {
            Err(_) => verdict = Verdict::fail("no_panic", class, "text round trip panicked"),
            Ok(None) => verdict = Verdict::fail("roundtrip_text", class, format!("{} does not survive JSON text", want)),
            Ok(Some((s, got))) => {
                if got != want {
                    verdict = Verdict::fail("roundtrip_text", class, format!("{} via text {} came back as {}", want, s, got))
                }
            }
        }
    }
    if outside {
        verdict = Verdict::Ok;
    }
    (format!("ok j={} r={}", tree_out(&json_tree(&j)), r), verdict)
}

fn de<X: DeserializeOwned>(j: Value, out: impl Fn(&X) -> String, class: &str) -> (String, Verdict) {
    match catch_unwind(AssertUnwindSafe(|| serde_json::from_value::<X>(j))) {
        Err(_) => ("panic".into(), Verdict::fail("no_panic", class, "deserialisation panicked")),
        Ok(Err(_)) => ("err".into(), Verdict::Ok),
        Ok(Ok(y)) => (format!("ok {}", out(&y)), Verdict::Ok),
    }
}

/// the special features of a typed value given as a tree
fn feat_of(ty: &str, t: &T) -> Option<Feat> {
    let mut f = Feat::default();
    match ty {
        "dt" => f.dt(&dt_of(t)?),
        "nid" => f.ident(&nid_of(t)?.identifier),
        "xnid" => f.xnid(&xnid_of(t)?),
        "dv" => f.dv(&dv_of(t)?),
        "var" => f.var(&var_of(t)?),
        _ => {}
    }
    Some(f)
}

const TYPES: &[&str] = &["str", "bs", "guid", "dt", "sc", "nid", "xnid", "qn", "lt", "dv", "var"];

fn run_rt(ty: &str, t: &T) -> Option<(String, Verdict)> {
    let mut f = Feat::default();
    Some(match ty {
        "str" => rt(&opt_sunhex(&t.0)?, |s: &UAString| opt_shex(s), "str:plain", false),
        "bs" => rt(&opt_xunhex(&t.0)?, |s: &ByteString| opt_xhex(s), "bs:plain", false),
        "guid" => {
            let g = Guid::from_bytes(unhex(t.0.strip_prefix('x')?)?.try_into().ok()?);
            rt(&g, |g: &Guid| xhex(g.as_bytes()), "guid:plain", false)
        }
        "dt" => {
            let d = dt_of(t)?;
            f.dt(&d);
            rt(&d, |d: &DateTime| tree_out(&dt_tree(d)), &f.tag(ty), f.outside())
        }
        "sc" => rt(&StatusCode::from_bits_truncate(t.0.parse().ok()?), |s: &StatusCode| s.bits().to_string(), "sc:plain", false),
        "nid" => {
            let n = nid_of(t)?;
            f.ident(&n.identifier);
            rt(&n, |n: &NodeId| tree_out(&nid_tree(n)), &f.tag(ty), f.outside())
        }
        "xnid" => {
            let e = xnid_of(t)?;
            f.xnid(&e);
            rt(&e, |e: &ExpandedNodeId| tree_out(&xnid_tree(e)), &f.tag(ty), f.outside())
        }
        "qn" => rt(&qn_of(t)?, |q: &QualifiedName| tree_out(&qn_tree(q)), "qn:plain", false),
        "lt" => rt(&lt_of(t)?, |l: &LocalizedText| tree_out(&lt_tree(l)), "lt:plain", false),
        "dv" => {
            let d = dv_of(t)?;
            f.dv(&d);
            rt(&d, |d: &DataValue| tree_out(&dv_tree(d)), &f.tag(ty), f.outside())
        }
        "var" => {
            let v = var_of(t)?;
            f.var(&v);
            rt(&v, |v: &Variant| tree_out(&var_tree(v)), &f.tag(ty), f.outside())
        }
        _ => return None,
    })
}

fn run_de(ty: &str, j: Value) -> Option<(String, Verdict)> {
    let c = format!("de-{}", ty);
    Some(match ty {
        "str" => de(j, |s: &UAString| opt_shex(s), &c),
        "bs" => de(j, |s: &ByteString| opt_xhex(s), &c),
        "guid" => de(j, |g: &Guid| xhex(g.as_bytes()), &c),
        "dt" => de(j, |d: &DateTime| tree_out(&dt_tree(d)), &c),
        "sc" => de(j, |s: &StatusCode| s.bits().to_string(), &c),
        "nid" => de(j, |n: &NodeId| tree_out(&nid_tree(n)), &c),
        "xnid" => de(j, |e: &ExpandedNodeId| tree_out(&xnid_tree(e)), &c),
        "qn" => de(j, |q: &QualifiedName| tree_out(&qn_tree(q)), &c),
        "lt" => de(j, |l: &LocalizedText| tree_out(&lt_tree(l)), &c),
        "dv" => de(j, |d: &DataValue| tree_out(&dv_tree(d)), &c),
        "var" => de(j, |v: &Variant| tree_out(&var_tree(v)), &c),
        _ => return None,
    })
}

// ------------------------------------------------------------------------------------------------
// generators
// ------------------------------------------------------------------------------------------------

fn g_str(rng: &mut Rng) -> UAString {
    match rng.weighted(&[1, 1, 8, 2]) {
        0 => UAString::null(),
        1 => UAString::from(""),
        3 => UAString::from(*rng.pick(SLOT_STRINGS)),
        _ => {
            let n = rng.range(1, 5);
            let mut s = String::new();
            for _ in 0..n {
                s.push_str(*rng.pick(FRAGMENTS));
            }
            UAString::from(s)
        }
    }
}

fn g_bytes(rng: &mut Rng) -> ByteString {
    match rng.weighted(&[1, 1, 6]) {
        0 => ByteString::null(),
        1 => ByteString::from(Vec::<u8>::new()),
        _ => {
            let n = rng.range(1, 9) as usize;
            ByteString::from(rng.bytes(n))
        }
    }
}

fn g_u32(rng: &mut Rng) -> u32 {
    match rng.below(6) {
        0 => 0,
        1 => 1,
        2 => u32::MAX,
        3 => 65535,
        4 => 65536,
        _ => rng.next() as u32,
    }
}

fn g_ident(rng: &mut Rng, allow_empty: bool) -> Identifier {
    match rng.below(4) {
        0 => Identifier::Numeric(g_u32(rng)),
        1 => {
            let s = g_str(rng);
            if s.is_empty() && !(allow_empty && rng.chance(1, 3)) {
                Identifier::String(UAString::from("x"))
            } else {
                Identifier::String(s)
            }
        }
        2 => Identifier::Guid(Guid::from_bytes(rng.bytes(16).try_into().unwrap())),
        _ => {
            let b = g_bytes(rng);
            if b.is_null_or_empty() && !(allow_empty && rng.chance(1, 3)) {
                Identifier::ByteString(ByteString::from(vec![0u8]))
            } else {
                Identifier::ByteString(b)
            }
        }
    }
}

fn g_nid(rng: &mut Rng) -> NodeId {
    NodeId { namespace: *rng.pick(&[0u16, 0, 1, 2, 255, 65535]), identifier: g_ident(rng, true) }
}

const END_SECS: i64 = 265046774399;

fn g_dt(rng: &mut Rng) -> DateTime {
    let secs = match rng.below(6) {
        0 => 0,
        1 => END_SECS,
        2 => END_SECS - 1,
        _ => (rng.next() % (END_SECS as u64 + 1)) as i64,
    };
    let nanos = if secs == END_SECS {
        0
    } else {
        match rng.weighted(&[3, 5, 1, 1]) {
            0 => 0,
            1 => (rng.below(1000) * 1_000_000) as u32,
            2 => 999_000_000,
            _ => (rng.below(10_000_000) * 100) as u32, // sub-millisecond: outside the quantifier
        }
    };
    DateTime::from(chrono::DateTime::<chrono::Utc>::from_timestamp(secs + EPOCH_1601_UNIX, nanos).unwrap())
}

fn g_status(rng: &mut Rng) -> StatusCode {
    match rng.below(4) {
        0 => StatusCode::Good,
        1 => StatusCode::BadDecodingError,
        2 => StatusCode::UncertainLastUsableValue | StatusCode::OVERFLOW,
        _ => StatusCode::from_bits_truncate(rng.next() as u32),
    }
}

pub const F32_BITS: &[u32] = &[
    0, 0x8000_0000, 1, 0x007f_ffff, 0x0080_0000, 0x3f80_0000, 0x3f7f_ffff, 0x3f80_0001, 0x7f7f_ffff, 0xff7f_ffff, 0x7f7f_fffe,
    0x7f80_0000, 0xff80_0000, 0x7fc0_0000, 0x7fa0_0001, 0x3dcc_cccd, 0x4b00_0000, 0x4b80_0000, 0x5f00_0000, 0x0000_0002, 0x4f00_0000,
    0x0040_0000, 0x7f00_0000, 0x3400_0000, 0x3380_0000, 0x42f6_e979,
];

pub const F64_BITS: &[u64] = &[
    0, 0x8000_0000_0000_0000, 1, 0x000f_ffff_ffff_ffff, 0x0010_0000_0000_0000, 0x3ff0_0000_0000_0000, 0x7fef_ffff_ffff_ffff,
    0xffef_ffff_ffff_ffff, 0x7ff0_0000_0000_0000, 0xfff0_0000_0000_0000, 0x7ff8_0000_0000_0000, 0x7ff0_0000_0000_0001,
    0x3fb9_9999_9999_999a, 0x4330_0000_0000_0000, 0x4340_0000_0000_0000, 0x43e0_0000_0000_0000, 0x43f0_0000_0000_0000,
    // around f32::MAX and the f32 rounding boundaries
    0x47ef_ffff_e000_0000, 0x47ef_ffff_e000_0001, 0x47ef_ffff_efff_ffff, 0x47ef_ffff_f000_0000, 0x47f0_0000_0000_0000,
    0x47ef_ffff_e091_ff3d, 0x36a0_0000_0000_0000, 0x3690_0000_0000_0000, 0x3690_0000_0000_0001, 0x3810_0000_0000_0000,
    0x380f_ffff_ffff_ffff, 0x3ff0_0000_1000_0000, 0x3ff0_0000_3000_0000, 0x3ff0_0000_1000_0001,
    // inside the binade after f32::MAX (exponent field exactly 255 with a non-zero fraction), and the next one
    0x47f8_0000_0000_0000, 0xc7f8_0000_0000_0000, 0x47ff_ffff_ffff_ffff, 0x4800_0000_0000_0000, 0x4808_0000_0000_0000,
];

fn g_f32(rng: &mut Rng) -> f32 {
    if rng.chance(1, 2) {
        f32::from_bits(*rng.pick(F32_BITS))
    } else {
        let f = f32::from_bits(rng.next() as u32);
        if f.is_nan() {
            1.5
        } else {
            f
        }
    }
}

fn g_f64(rng: &mut Rng) -> f64 {
    if rng.chance(1, 2) {
        f64::from_bits(*rng.pick(F64_BITS))
    } else {
        let f = f64::from_bits(rng.next());
        if f.is_nan() {
            2.5
        } else {
            f
        }
    }
}

/// strings that, in a JSON slot shared with a number or a keyword, could be taken for one
pub const SLOT_STRINGS: &[&str] = &[
    "7", "0", "1", "65535", "65536", "4294967295", "4294967296", "-1", "+1", "00", "007", " 7", "7 ", "1e3", "1.0", "0x10", "true", "false", "null",
    "NaN", "Infinity", "-Infinity", "~", "i=5", "ns=1;i=5", "nsu=7;i=5", "svr=1;i=5", "\"7\"", "[]", "{}",
];

/// every string-typed field of every typed value holding each of `SLOT_STRINGS` (round trip through the real JSON text)
fn slot_string_ops() -> Vec<String> {
    let mut out = vec![];
    for s in SLOT_STRINGS {
        let u = UAString::from(*s);
        for ns in [0u16, 2, 7] {
            for svr in [0u32, 1] {
                for id in [Identifier::Numeric(5), Identifier::String(u.clone())] {
                    let e = ExpandedNodeId { node_id: NodeId { namespace: ns, identifier: id }, namespace_uri: u.clone(), server_index: svr };
                    out.push(format!("rt xnid {}", tree_out(&xnid_tree(&e))));
                    if ns == 0 && svr == 0 {
                        out.push(format!("rt var {}", tree_out(&var_tree(&Variant::from(e.clone())))));
                    }
                }
            }
            let n = NodeId { namespace: ns, identifier: Identifier::String(u.clone()) };
            out.push(format!("rt nid {}", tree_out(&nid_tree(&n))));
            out.push(format!("rt var {}", tree_out(&var_tree(&Variant::from(n)))));
            let q = QualifiedName { namespace_index: ns, name: u.clone() };
            out.push(format!("rt qn {}", tree_out(&qn_tree(&q))));
            out.push(format!("rt var {}", tree_out(&var_tree(&Variant::from(q)))));
        }
        for l in [
            LocalizedText { locale: u.clone(), text: u.clone() },
            LocalizedText { locale: UAString::null(), text: u.clone() },
            LocalizedText { locale: u.clone(), text: UAString::null() },
        ] {
            out.push(format!("rt lt {}", tree_out(&lt_tree(&l))));
            out.push(format!("rt var {}", tree_out(&var_tree(&Variant::from(l)))));
        }
        out.push(format!("rt str {}", opt_shex(&u)));
        out.push(format!("rt var {}", tree_out(&var_tree(&Variant::String(u.clone())))));
        out.push(format!("rt var {}", tree_out(&var_tree(&Variant::XmlElement(u.clone())))));
        let dv = DataValue { value: Some(Variant::String(u.clone())), ..DataValue::null() };
        out.push(format!("rt dv {}", tree_out(&dv_tree(&dv))));
    }
    out
}

fn g_xnid(rng: &mut Rng) -> ExpandedNodeId {
    ExpandedNodeId {
        node_id: g_nid(rng),
        namespace_uri: match rng.below(8) {
            0 => UAString::from(format!("urn:{}", rng.below(100))),
            1 => UAString::from(*rng.pick(SLOT_STRINGS)),
            2 => g_str(rng),
            _ => UAString::null(),
        },
        server_index: *rng.pick(&[0u32, 0, 1, u32::MAX]),
    }
}

fn g_var(rng: &mut Rng, depth: u32) -> Variant {
    let k = if depth == 0 { rng.below(23) } else { rng.below(26) };
    match k {
        0 => Variant::Empty,
        1 => Variant::Boolean(rng.chance(1, 2)),
        2 => Variant::SByte(*rng.pick(&[0i8, -1, 1, i8::MIN, i8::MAX])),
        3 => Variant::Byte(*rng.pick(&[0u8, 1, 255])),
        4 => Variant::Int16(*rng.pick(&[0i16, -1, i16::MIN, i16::MAX])),
        5 => Variant::UInt16(*rng.pick(&[0u16, 1, u16::MAX])),
        6 => Variant::Int32(*rng.pick(&[0i32, -1, i32::MIN, i32::MAX, 123456])),
        7 => Variant::UInt32(g_u32(rng)),
        8 => Variant::Int64(*rng.pick(&[0i64, -1, i64::MIN, i64::MAX, 1 << 53, -(1 << 53) - 1])),
        9 => Variant::UInt64(*rng.pick(&[0u64, 1, u64::MAX, 1 << 63, (1 << 53) + 1])),
        10 => Variant::Float(g_f32(rng)),
        11 => Variant::Double(g_f64(rng)),
        12 => Variant::String(g_str(rng)),
        13 => Variant::DateTime(Box::new(g_dt(rng))),
        14 => Variant::Guid(Box::new(Guid::from_bytes(rng.bytes(16).try_into().unwrap()))),
        15 => Variant::ByteString(g_bytes(rng)),
        16 => Variant::XmlElement(g_str(rng)),
        17 => Variant::NodeId(Box::new(g_nid(rng))),
        18 => Variant::ExpandedNodeId(Box::new(g_xnid(rng))),
        19 => Variant::StatusCode(g_status(rng)),
        20 => Variant::QualifiedName(Box::new(QualifiedName { namespace_index: *rng.pick(&[0u16, 1, 65535]), name: g_str(rng) })),
        21 => Variant::LocalizedText(Box::new(LocalizedText { locale: g_str(rng), text: g_str(rng) })),
        22 => Variant::from(vec![1i32, 2, 3]),
        23 | 24 => Variant::DataValue(Box::new(g_dv(rng, depth - 1))),
        _ => Variant::Variant(Box::new(g_var(rng, depth - 1))),
    }
}

fn g_dv(rng: &mut Rng, depth: u32) -> DataValue {
    DataValue {
        value: if rng.chance(3, 4) { Some(g_var(rng, depth)) } else { None },
        status: if rng.chance(1, 2) { Some(g_status(rng)) } else { None },
        source_timestamp: if rng.chance(1, 2) { Some(g_dt(rng)) } else { None },
        source_picoseconds: if rng.chance(1, 3) { Some(*rng.pick(&[0u16, 1, 9999, u16::MAX])) } else { None },
        server_timestamp: if rng.chance(1, 3) { Some(g_dt(rng)) } else { None },
        server_picoseconds: if rng.chance(1, 4) { Some(rng.below(65536) as u16) } else { None },
    }
}

/// a random typed value as (type tag, value tree, its JSON if it serialises)
fn g_typed(rng: &mut Rng) -> (&'static str, T, Option<Value>) {
    fn j<X: Serialize>(x: &X) -> Option<Value> {
        catch_unwind(AssertUnwindSafe(|| serde_json::to_value(x).ok())).ok().flatten()
    }
    match rng.weighted(&[1, 1, 1, 2, 1, 3, 3, 1, 1, 5, 8]) {
        0 => {
            let s = g_str(rng);
            ("str", leaf(opt_shex(&s)), j(&s))
        }
        1 => {
            let b = g_bytes(rng);
            ("bs", leaf(opt_xhex(&b)), j(&b))
        }
        2 => {
            let g = Guid::from_bytes(rng.bytes(16).try_into().unwrap());
            ("guid", leaf(xhex(g.as_bytes())), j(&g))
        }
        3 => {
            let d = g_dt(rng);
            ("dt", dt_tree(&d), j(&d))
        }
        4 => {
            let s = g_status(rng);
            ("sc", leaf(s.bits().to_string()), j(&s))
        }
        5 => {
            let n = g_nid(rng);
            ("nid", nid_tree(&n), j(&n))
        }
        6 => {
            let e = g_xnid(rng);
            ("xnid", xnid_tree(&e), j(&e))
        }
        7 => {
            let q = QualifiedName { namespace_index: *rng.pick(&[0u16, 1, 65535]), name: g_str(rng) };
            ("qn", qn_tree(&q), j(&q))
        }
        8 => {
            let l = LocalizedText { locale: g_str(rng), text: g_str(rng) };
            ("lt", lt_tree(&l), j(&l))
        }
        9 => {
            let d = g_dv(rng, 2);
            ("dv", dv_tree(&d), j(&d))
        }
        _ => {
            let v = g_var(rng, 2);
            ("var", var_tree(&v), j(&v))
        }
    }
}

const STRINGS: &[&str] = &[
    "", "Infinity", "-Infinity", "NaN", "infinity", "123", "-5", "+5", "18446744073709551615", "18446744073709551616", "-9223372036854775808",
    "-9223372036854775809", "AQID", "AQI=", "AQ==", "AQ", "A===", "f9e561f3-351c-47a2-b969-b8d6d7226fee", "{f9e561f3-351c-47a2-b969-b8d6d7226fee}",
    "f9e561f3351c47a2b969b8d6d7226fee", "urn:uuid:f9e561f3-351c-47a2-b969-b8d6d7226fee", "2020-01-01T00:00:00Z", "2020-01-01T00:00:00.000Z",
    "2020-01-01t00:00:00.5z", "2020-01-01 00:00:00.123456789+01:00", "2020-06-30T23:59:60Z", "2020-06-30T23:59:60.75-00:30", "1600-12-31T23:59:59Z",
    "1601-01-01T00:00:00+00:01", "9999-12-31T23:59:59.001Z", "9999-12-31T23:59:59-00:01", "0000-01-01T00:00:00Z", "2020-02-30T00:00:00Z",
    "2020-01-01T24:00:00Z", "2020-01-01T00:00:00+24:00", "2020-01-01T00:00:00+23:60", "2020-01-01T00:00:00\u{2212}01:00", "2020-01-01T00:00:00",
    "2020-01-01T00:00:00.Z", "2020-01-01T00:00:00.1234567891234Z", "2020-1-01T00:00:00Z", "2020-01-01T00:00:00Zx", "20200-01-01T00:00:00Z", "é", "a\nb",
];

const KEYS: &[&str] = &[
    "Type", "Body", "Dimensions", "Id", "Namespace", "ServerUri", "Uri", "Name", "Locale", "Text", "Value", "Status", "SourceTimestamp",
    "SourcePicoseconds", "ServerTimestamp", "ServerPicoseconds", "type", "X",
];

fn g_json(rng: &mut Rng, depth: u32) -> T {
    match rng.weighted(&[2, 2, 6, 3, 5, if depth > 0 { 2 } else { 0 }, if depth > 0 { 3 } else { 0 }]) {
        0 => leaf("n"),
        1 => leaf(if rng.chance(1, 2) { "t" } else { "f" }),
        2 => {
            let z: i128 = match rng.below(12) {
                0 => 0,
                1 => 1,
                2 => -1,
                3 => 255,
                4 => 256,
                5 => 65535,
                6 => 65536,
                7 => u32::MAX as i128,
                8 => u32::MAX as i128 + 1,
                9 => u64::MAX as i128,
                10 => i64::MIN as i128,
                _ => rng.range(0, 30) as i128,
            };
            leaf(format!("i{}", z))
        }
        3 => {
            let mut f = g_f64(rng);
            if !f.is_finite() {
                f = 1.0;
            }
            leaf(format!("d{:016x}", f.to_bits()))
        }
        4 => leaf(shex(if rng.chance(3, 4) { *rng.pick(STRINGS) } else { *rng.pick(FRAGMENTS) })),
        5 => {
            let n = rng.below(4);
            T("a".into(), (0..n).map(|_| g_json(rng, depth - 1)).collect())
        }
        _ => {
            let n = rng.below(4) as usize;
            let mut keys: Vec<&str> = vec![];
            let mut kids = vec![];
            for _ in 0..n {
                let k = *rng.pick(KEYS);
                if keys.contains(&k) {
                    continue;
                }
                keys.push(k);
                kids.push(leaf(shex(k)));
                kids.push(g_json(rng, depth - 1));
            }
            T("o".into(), kids)
        }
    }
}

/// all paths to subtrees of a JSON tree (values only, not keys)
fn paths(t: &T, cur: &mut Vec<usize>, out: &mut Vec<Vec<usize>>) {
    out.push(cur.clone());
    let step = if t.0 == "o" { 2 } else { 1 };
    let first = if t.0 == "o" { 1 } else { 0 };
    let mut i = first;
    while i < t.1.len() {
        cur.push(i);
        paths(&t.1[i], cur, out);
        cur.pop();
        i += step;
    }
}

fn at<'a>(t: &'a mut T, p: &[usize]) -> &'a mut T {
    let mut x = t;
    for i in p {
        x = &mut x.1[*i];
    }
    x
}

fn mutate_json(rng: &mut Rng, t: &mut T) {
    let mut ps = vec![];
    paths(t, &mut vec![], &mut ps);
    let p = rng.pick(&ps).clone();
    let node = at(t, &p);
    match rng.below(8) {
        0 => *node = g_json(rng, 1),
        1 => {
            // drop one key (objects) / one element (arrays)
            if node.0 == "o" && node.1.len() >= 2 {
                let k = (rng.below(node.1.len() as u64 / 2) * 2) as usize;
                node.1.drain(k..k + 2);
            } else if node.0 == "a" && !node.1.is_empty() {
                let k = rng.below(node.1.len() as u64) as usize;
                node.1.remove(k);
            } else {
                *node = leaf("n");
            }
        }
        2 => {
            // rename a key
            if node.0 == "o" && node.1.len() >= 2 {
                let k = (rng.below(node.1.len() as u64 / 2) * 2) as usize;
                let new = shex(*rng.pick(KEYS));
                if !node.1.iter().step_by(2).any(|x| x.0 == new) {
                    node.1[k] = leaf(new);
                }
            } else {
                *node = leaf(shex(*rng.pick(STRINGS)));
            }
        }
        3 => {
            // integer neighbours / type ids
            if let Some(r) = node.0.strip_prefix('i') {
                if let Ok(z) = r.parse::<i128>() {
                    let z2 = match rng.below(5) {
                        0 => z + 1,
                        1 => z - 1,
                        2 => rng.range(0, 26) as i128,
                        3 => -z,
                        _ => z + (1i128 << 32),
                    };
                    let z2 = z2.clamp(i64::MIN as i128, u64::MAX as i128);
                    *node = leaf(format!("i{}", z2));
                }
            } else {
                *node = leaf(format!("i{}", rng.range(0, 26)));
            }
        }
        4 => {
            // the positional (array) form of a struct: values of an object in key order
            if node.0 == "o" {
                let vals: Vec<T> = node.1.iter().skip(1).step_by(2).cloned().collect();
                *node = T("a".into(), vals);
            } else {
                *node = T("a".into(), vec![node.clone()]);
            }
        }
        5 => {
            // add a key
            if node.0 == "o" {
                let new = shex(*rng.pick(KEYS));
                if !node.1.iter().step_by(2).any(|x| x.0 == new) {
                    node.1.push(leaf(new));
                    let v = g_json(rng, 1);
                    node.1.push(v);
                }
            } else {
                *node = leaf(shex(*rng.pick(STRINGS)));
            }
        }
        6 => {
            // float / integer forms of the same number
            if node.0.starts_with('i') || node.0.starts_with('d') {
                let f = g_f64(rng);
                *node = leaf(format!("d{:016x}", if f.is_finite() { f } else { 3.0 }.to_bits()));
            } else {
                *node = leaf("n");
            }
        }
        _ => *node = leaf(shex(*rng.pick(STRINGS))),
    }
}

/// ExtensionObject (22) and DiagnosticInfo (25) bodies are not modelled: keep those type ids out
fn mentions_unmodelled(t: &T) -> bool {
    (t.1.is_empty() && (t.0 == "i22" || t.0 == "i25")) || t.1.iter().any(mentions_unmodelled)
}


/// small-scope enumeration: every variant type id x every kind of body at and around its limits; the index
/// fields of node ids / qualified names / data values at and around their limits; structs in positional form
fn boundary_ops() -> Vec<String> {
    let k = |s: &str| shex(s);
    let mut out = vec![];
    let var = |t: i64, body: Option<&str>| match body {
        Some(b) => format!("de var o({},i{},{},{})", shex("Type"), t, shex("Body"), b),
        None => format!("de var o({},i{})", shex("Type"), t),
    };
    // integer kinds
    let ranges: [(i64, i128, i128); 6] =
        [(2, -128, 127), (3, 0, 255), (4, -32768, 32767), (5, 0, 65535), (6, -2147483648, 2147483647), (7, 0, 4294967295)];
    for (t, lo, hi) in ranges {
        let mut vals = vec![lo - 2, lo - 1, lo, lo + 1, -1, 0, 1, hi - 1, hi, hi + 1, hi + 2, i64::MIN as i128, u64::MAX as i128];
        vals.dedup();
        for v in vals {
            out.push(var(t, Some(&format!("i{}", v))));
        }
        for b in ["d3ff8000000000000", "d3ff0000000000000", "n", "t", "a()", "o()"] {
            out.push(var(t, Some(b)));
        }
        out.push(var(t, Some(&shex("1"))));
        out.push(var(t, None));
    }
    // 64-bit integers as strings
    for t in [8i64, 9] {
        for sv in [
            "0", "1", "-1", "+5", "-0", "9223372036854775807", "9223372036854775808", "-9223372036854775808", "-9223372036854775809",
            "18446744073709551615", "18446744073709551616", "", "+", "-", "-x", "1.0", " 1", "1e3", "0x10",
        ] {
            out.push(var(t, Some(&shex(sv))));
        }
        out.push(var(t, Some("i5")));
        out.push(var(t, None));
    }
    // floats: special strings, integers, and the patterns around the f32 limits
    for t in [10i64, 11] {
        for sv in ["Infinity", "-Infinity", "NaN", "infinity", "inf", "", "1.5"] {
            out.push(var(t, Some(&shex(sv))));
        }
        for iv in ["i0", "i1", "i-1", "i16777216", "i16777217", "i9007199254740993", "i18446744073709551615", "i-9223372036854775808"] {
            out.push(var(t, Some(iv)));
        }
        for b in F64_BITS {
            if f64::from_bits(*b).is_finite() {
                out.push(var(t, Some(&format!("d{:016x}", b))));
            }
        }
        out.push(var(t, Some("n")));
        out.push(var(t, Some("t")));
        out.push(var(t, None));
    }
    // every other type id with a missing body, a null body and a body of the wrong kind; unknown ids; Dimensions
    for t in (0..=27i64).filter(|t| *t != 22 && *t != 25) {
        out.push(var(t, None));
        out.push(var(t, Some("n")));
        out.push(var(t, Some("i5")));
        out.push(var(t, Some(&shex("x"))));
        out.push(var(t, Some("o()")));
        out.push(var(t, Some("a()")));
        out.push(format!("de var o({},i{},{},a(i1))", k("Type"), t, k("Dimensions")));
        out.push(format!("de var a(i{},t,n)", t));
    }
    out.push(format!("de var o({},n)", k("Type")));
    out.push(format!("de var o({},{})", k("Type"), k("1")));
    out.push("de var n".into());
    out.push("de var o()".into());
    out.push(format!("de var o({},i4294967296)", k("Type")));
    out.push(format!("de var o({},i-1)", k("Type")));
    // index fields
    for ns in ["i0", "i1", "i65535", "i65536", "i70000", "i-1", "d3ff0000000000000", "n"] {
        out.push(format!("de nid o({},i5,{},{})", k("Id"), k("Namespace"), ns));
        out.push(format!("de xnid o({},i5,{},{})", k("Id"), k("Namespace"), ns));
        out.push(format!("de qn o({},{},{},{})", k("Uri"), ns, k("Name"), k("x")));
        out.push(format!("de dv o({},{})", k("SourcePicoseconds"), ns));
        out.push(format!("de dv o({},{})", k("ServerPicoseconds"), ns));
    }
    out.push(format!("de nid o({},i5,{},{})", k("Id"), k("Namespace"), k("urn:x")));
    out.push(format!("de xnid o({},i5,{},{})", k("Id"), k("Namespace"), k("urn:x")));
    out.push(format!("de xnid o({},i5,{},{})", k("Id"), k("Namespace"), k("")));
    for su in ["i0", "i1", "i4294967295", "i4294967296", "i4294967297", "i18446744073709551615", "i-1", k("x").as_str()] {
        out.push(format!("de xnid o({},i5,{},{})", k("Id"), k("ServerUri"), su));
    }
    // identifier kinds x (ok, empty, malformed, wrong kind), numeric truncation
    for (t, ok, bad) in [(1, "x", ""), (2, "f9e561f3-351c-47a2-b969-b8d6d7226fee", "zz"), (3, "AQID", "A")] {
        for id in [k(ok), k(""), k(bad), "i5".to_string(), "n".to_string()] {
            out.push(format!("de nid o({},i{},{},{})", k("Type"), t, k("Id"), id));
        }
    }
    out.push(format!("de nid o({},{})", k("Id"), k("f9e561f3351c47a2b969b8d6d7226fee")));
    out.push(format!("de guid {}", k("f9e561f3351c47a2b969b8d6d7226fee")));
    out.push(format!("de guid {}", k("{f9e561f3-351c-47a2-b969-b8d6d7226fee}")));
    out.push(format!("de guid {}", k("urn:uuid:f9e561f3-351c-47a2-b969-b8d6d7226fee")));
    for id in ["i0", "i4294967295", "i4294967296", "i18446744073709551615", "i-1", "d3ff0000000000000"] {
        out.push(format!("de nid o({},{})", k("Id"), id));
        out.push(format!("de nid o({},i0,{},{})", k("Type"), k("Id"), id));
    }
    for t in ["i4", "i-1", "i4294967296", "n", k("1").as_str()] {
        out.push(format!("de nid o({},{},{},i5)", k("Type"), t, k("Id")));
    }
    out.push("de nid o()".into());
    // positional (array) forms of every struct
    out.push("de nid a(n,i5,n)".into());
    out.push("de nid a(i1,s78,i2)".into());
    out.push("de nid a(n,i5)".into());
    out.push("de xnid a(n,i5,n,i7)".into());
    out.push("de xnid a(n,i5,n)".into());
    out.push("de qn a(i1,s78)".into());
    out.push("de qn a(i1)".into());
    out.push("de lt a(s656e,s78)".into());
    out.push("de lt a(n,n)".into());
    out.push("de lt a(n)".into());
    out.push(format!("de dv a(o({},i1,{},t),i0,n,i1,n,i65535)", k("Type"), k("Body")));
    out.push("de dv a(n,n,n,n,n)".into());
    out.push("de dv n".into());
    out.push("de dv s78".into());
    // date-time texts: every field at its first / last valid value and the next one, per month and leap rule, offsets at +-23:59
    let mut dts: Vec<String> = vec![];
    for mo in [0, 1, 2, 11, 12, 13, 99] {
        dts.push(format!("2020-{:02}-01T00:00:00Z", mo));
        dts.push(format!("2020-{:02}-31T00:00:00Z", mo));
    }
    for (y, mo) in [(2020, 2), (2021, 2), (1900, 2), (2000, 2), (2020, 4), (2020, 6), (2020, 9), (2020, 11), (2020, 1), (2020, 12)] {
        for d in [0, 1, 28, 29, 30, 31, 32] {
            dts.push(format!("{:04}-{:02}-{:02}T12:00:00Z", y, mo, d));
        }
    }
    for h in [0, 23, 24, 99] {
        dts.push(format!("2020-01-01T{:02}:00:00Z", h));
    }
    for mi in [59, 60, 99] {
        dts.push(format!("2020-01-01T00:{:02}:00Z", mi));
    }
    for sec in [59, 60, 61, 99] {
        dts.push(format!("2020-01-01T00:00:{:02}Z", sec));
        dts.push(format!("2020-01-01T00:00:{:02}.5Z", sec));
    }
    for off in ["+23:59", "-23:59", "+24:00", "-24:00", "+00:59", "+00:60", "+99:59", "-00:00", "+00:00", "+0000", "+00", "+1:00"] {
        dts.push(format!("2020-01-01T00:00:00{}", off));
    }
    for t in [
        "1601-01-01T00:00:00Z", "1601-01-01T00:00:00.000000001Z", "1600-12-31T23:59:59.999999999Z", "1601-01-01T23:59:00+23:59", "1601-01-01T00:00:00+00:01",
        "1600-12-31T00:01:00-23:59", "9999-12-31T23:59:59Z", "9999-12-31T23:59:59.000000001Z", "9999-12-31T23:59:60Z", "9999-12-31T23:59:58.999999999Z",
        "9999-12-31T23:59:59-00:01", "9999-12-31T23:59:59+00:01", "0000-01-01T00:00:00Z", "0001-01-01T00:00:00Z", "2020-1-01T00:00:00Z", "02020-01-01T00:00:00Z",
        "2020-01-01T00:00:00.Z", "2020-01-01T00:00:00.123456789Z", "2020-01-01T00:00:00.1234567891Z", "2020-01-01T00:00:00,5Z", "2020-01-01", "2020-01-01T00:00Z",
    ] {
        dts.push(t.to_string());
    }
    for t in &dts {
        out.push(format!("de dt {}", k(t)));
    }
    for t in dts.iter().step_by(5) {
        out.push(format!("de dv o({},{})", k("SourceTimestamp"), k(t)));
        out.push(var(13, Some(&k(t))));
    }
    // status codes
    for sc in ["i0", "i1", "i4294967295", "i4294967296", "i-1", "d3ff0000000000000", "n", "s30"] {
        out.push(format!("de sc {}", sc));
        out.push(format!("de dv o({},{})", k("Status"), sc));
        out.push(var(19, Some(sc)));
    }
    out
}

impl Prop for C42 {
    fn id(&self) -> &'static str {
        "C42"
    }

    fn gen(&self, rng: &mut Rng, n: usize, _tier: Tier, out: &mut Vec<String>) {
        let mask = StatusCode::all().bits();
        // serialising an array variant panics (recorded finding): keep the generator quiet about it
        std::panic::set_hook(Box::new(|_| {}));
        // every listed float pattern once, as Float and as Double
        out.push(format!("reset {}", mask));
        for b in F32_BITS {
            out.push(format!("rt var f32({})", f32_txt(f32::from_bits(*b)).replace("nan", "7fc00000")));
        }
        for b in F64_BITS {
            out.push(format!("rt var f64({})", f64_txt(f64::from_bits(*b)).replace("nan", "7ff8000000000000")));
            if f64::from_bits(*b).is_finite() {
                out.push(format!("de var o({},i10,{},d{:016x})", shex("Type"), shex("Body"), b));
            }
        }
        for s in STRINGS {
            out.push(format!("de dt {}", shex(s)));
        }
        for op in boundary_ops() {
            out.push(op);
        }
        for op in slot_string_ops() {
            out.push(op);
        }
        for _ in 0..n {
            out.push(format!("reset {}", mask));
            let len = rng.range(1, 5);
            for _ in 0..len {
                if rng.chance(1, 2) {
                    // values of the quantifier (and a few outside it), at most one special feature each
                    let (ty, t, _) = loop {
                        let (ty, t, j) = g_typed(rng);
                        if feat_of(ty, &t).map(|f| f.0.len()).unwrap_or(0) <= 1 {
                            break (ty, t, j);
                        }
                    };
                    out.push(format!("rt {} {}", ty, tree_out(&t)));
                } else {
                    // malformed stream: mutated JSON of a real value, or random JSON, read as some type
                    let (ty, _, j) = g_typed(rng);
                    let mut t = match j {
                        Some(j) if rng.chance(5, 6) => json_tree(&j),
                        _ => g_json(rng, 2),
                    };
                    let k = rng.range(0, 2);
                    for _ in 0..k {
                        mutate_json(rng, &mut t);
                    }
                    if mentions_unmodelled(&t) {
                        continue;
                    }
                    let ty = if rng.chance(1, 6) { *rng.pick(TYPES) } else { ty };
                    out.push(format!("de {} {}", ty, tree_out(&t)));
                }
            }
        }
    }

    fn runner(&self) -> Box<dyn Runner> {
        Box::new(R)
    }
}

struct R;

impl Runner for R {
    fn step(&mut self, toks: &[&str]) -> (String, Verdict) {
        let bad = || ("bad-op".to_string(), Verdict::Ok);
        match toks {
            ["reset", m] => {
                // the model needs the union of all defined StatusCode bits
                if m.parse::<u32>().ok() == Some(StatusCode::all().bits()) {
                    ("ok".into(), Verdict::Ok)
                } else {
                    ("bad-op".into(), Verdict::fail("status_mask", "reset", format!("StatusCode::all() is {}", StatusCode::all().bits())))
                }
            }
            ["rt", ty, v] => {
                let Some(t) = tree_of(v) else { return bad() };
                run_rt(ty, &t).unwrap_or_else(bad)
            }
            ["de", ty, v] => {
                let Some(j) = tree_of(v).and_then(|t| json_of(&t)) else { return bad() };
                run_de(ty, j).unwrap_or_else(bad)
            }
            _ => bad(),
        }
    }
}
