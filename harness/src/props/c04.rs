//! C04 — textual identifiers parse back to the value they were printed from; parsing never panics.
use crate::common::*;
use opcua::types::*;
use std::panic::{catch_unwind, AssertUnwindSafe};
use std::str::FromStr;

pub struct C04;
pub static P: C04 = C04;

// ------------------------------------------------------------------------------------------------
// helpers shared with the other textual properties (C05, C41, C42)
// ------------------------------------------------------------------------------------------------

/// `s<hex of UTF-8>`
pub fn shex(s: &str) -> String {
    format!("s{}", hex(s.as_bytes()))
}

pub fn sunhex(t: &str) -> Option<String> {
    let t = t.strip_prefix('s')?;
    String::from_utf8(unhex(t)?).ok()
}

pub fn opt_shex(s: &UAString) -> String {
    match s.value() {
        None => "-".to_string(),
        Some(v) => shex(v),
    }
}

pub fn opt_sunhex(t: &str) -> Option<UAString> {
    if t == "-" {
        Some(UAString::null())
    } else {
        sunhex(t).map(UAString::from)
    }
}

pub fn xhex(b: &[u8]) -> String {
    format!("x{}", hex(b))
}

pub fn opt_xhex(b: &ByteString) -> String {
    match &b.value {
        None => "-".to_string(),
        Some(v) => xhex(v),
    }
}

pub fn opt_xunhex(t: &str) -> Option<ByteString> {
    if t == "-" {
        Some(ByteString::null())
    } else if t.starts_with('x') {
        unhex(t).map(ByteString::from)
    } else {
        None
    }
}

/// fragments that matter to the textual grammars, plus multi-byte characters
pub const FRAGMENTS: &[&str] = &[
    "a", "Z", "0", "9", "7", ";", "=", "%", "\n", " ", "é", "€", "😀", "n", "s", "i", "g", "b", "+", "-", ":", ",",
    "[", "{", "}", "%3b", "%25", "ns=", "svr=", "nsu=", "x", "\t", "\u{0}", "#", "!", "&", "/", ".", "<", ">",
    "\"", "'", "\\", "~", "null",
    // the first / last scalar value of each UTF-8 length
    "\u{7f}", "\u{80}", "\u{7ff}", "\u{800}", "\u{ffff}", "\u{10000}", "\u{10ffff}",
];

pub fn rand_string(rng: &mut Rng, max_frag: usize) -> String {
    let n = rng.range(1, max_frag as i64) as usize;
    let mut s = String::new();
    for _ in 0..n {
        s.push_str(*rng.pick(FRAGMENTS));
    }
    s
}

/// one random edit of a text (char level, stays valid UTF-8)
pub fn mutate(rng: &mut Rng, s: &str) -> String {
    let mut cs: Vec<char> = s.chars().collect();
    let frag: Vec<char> = rng.pick(FRAGMENTS).chars().collect();
    let pos = if cs.is_empty() { 0 } else { rng.below(cs.len() as u64 + 1) as usize };
    match rng.below(7) {
        0 => {
            if pos < cs.len() {
                cs.remove(pos);
            }
        }
        1 => {
            for (k, c) in frag.iter().enumerate() {
                cs.insert(pos + k, *c);
            }
        }
        2 => {
            if pos < cs.len() {
                cs[pos] = frag[0];
            }
        }
        3 => cs.truncate(pos),
        4 => {
            if pos < cs.len() {
                let c = cs[pos];
                cs[pos] = if c.is_ascii_lowercase() { c.to_ascii_uppercase() } else { c.to_ascii_lowercase() };
            }
        }
        5 => {
            let tail: Vec<char> = cs[pos.min(cs.len())..].to_vec();
            cs.extend(tail);
        }
        _ => {
            if pos < cs.len() {
                // bump a digit / symbol
                let c = cs[pos] as u32;
                cs[pos] = char::from_u32(c + 1).unwrap_or('x');
            }
        }
    }
    cs.into_iter().collect()
}

// ------------------------------------------------------------------------------------------------
// value <-> token
// ------------------------------------------------------------------------------------------------

fn ident_from(kind: &str, val: &str) -> Option<Identifier> {
    match kind {
        "i" => val.parse::<u32>().ok().map(Identifier::Numeric),
        "s" => opt_sunhex(val).map(Identifier::String),
        "g" => {
            let b = if val.starts_with('x') { unhex(val)? } else { return None };
            let a: [u8; 16] = b.try_into().ok()?;
            Some(Identifier::Guid(Guid::from_bytes(a)))
        }
        "b" => opt_xunhex(val).map(Identifier::ByteString),
        _ => None,
    }
}

fn ident_tok(i: &Identifier) -> (String, String) {
    match i {
        Identifier::Numeric(n) => ("i".into(), n.to_string()),
        Identifier::String(s) => ("s".into(), opt_shex(s)),
        Identifier::Guid(g) => ("g".into(), xhex(g.as_bytes())),
        Identifier::ByteString(b) => ("b".into(), opt_xhex(b)),
    }
}

fn ident_out(i: &Identifier) -> String {
    let (k, v) = ident_tok(i);
    format!("{}:{}", k, v)
}

fn node_out(n: &NodeId) -> String {
    format!("{}:{}", n.namespace, ident_out(&n.identifier))
}

fn exp_out(e: &ExpandedNodeId) -> String {
    format!("{}|{}|{}", e.server_index, opt_shex(&e.namespace_uri), node_out(&e.node_id))
}

fn dim_from(t: &str) -> Option<NumericRange> {
    if t == "n" {
        Some(NumericRange::None)
    } else if let Some(r) = t.strip_prefix('i') {
        r.parse::<u32>().ok().map(NumericRange::Index)
    } else if let Some(r) = t.strip_prefix('r') {
        let (a, b) = r.split_once(':')?;
        Some(NumericRange::Range(a.parse().ok()?, b.parse().ok()?))
    } else {
        None
    }
}

fn nr_from(t: &str) -> Option<NumericRange> {
    if let Some(r) = t.strip_prefix("m[") {
        let inner = r.strip_suffix(']')?;
        if inner.is_empty() {
            return Some(NumericRange::MultipleRanges(vec![]));
        }
        let ds: Option<Vec<NumericRange>> = inner.split(',').map(dim_from).collect();
        ds.map(NumericRange::MultipleRanges)
    } else {
        dim_from(t)
    }
}

fn nr_out(r: &NumericRange) -> String {
    match r {
        NumericRange::None => "n".into(),
        NumericRange::Index(i) => format!("i{}", i),
        NumericRange::Range(a, b) => format!("r{}:{}", a, b),
        NumericRange::MultipleRanges(v) => {
            let p: Vec<String> = v.iter().map(nr_out).collect();
            format!("m[{}]", p.join(","))
        }
    }
}

/// identifier kinds the property quantifies over: numeric, NON-EMPTY string, guid, NON-EMPTY bytes
fn ident_in_domain(i: &Identifier) -> bool {
    match i {
        Identifier::Numeric(_) | Identifier::Guid(_) => true,
        Identifier::String(s) => !s.is_empty(),
        Identifier::ByteString(b) => !b.is_null_or_empty(),
    }
}

fn kind_tag(i: &Identifier) -> &'static str {
    match i {
        Identifier::Numeric(_) => "i",
        Identifier::String(_) => "s",
        Identifier::Guid(_) => "g",
        Identifier::ByteString(_) => "b",
    }
}

/// print-then-parse result line + oracle `from_str(to_string(x)) == Ok(x)`
fn rt_line<T: PartialEq, E>(
    printed: String,
    parse: impl FnOnce(&str) -> Result<T, E>,
    orig: &T,
    out: impl Fn(&T) -> String,
    in_domain: bool,
    class: &str,
) -> (String, Verdict) {
    let r = catch_unwind(AssertUnwindSafe(|| parse(&printed)));
    match r {
        Err(_) => ("panic".into(), Verdict::fail("no_panic", class, format!("parsing {:?} panicked", printed))),
        Ok(Ok(v)) => {
            let verdict = if in_domain && v != *orig {
                Verdict::fail("roundtrip", class, format!("{:?} parsed to a different value: {}", printed, out(&v)))
            } else {
                Verdict::Ok
            };
            (format!("ok p={} r={}", shex(&printed), out(&v)), verdict)
        }
        Ok(Err(_)) => {
            let verdict = if in_domain {
                Verdict::fail("roundtrip", class, format!("{:?} does not parse", printed))
            } else {
                Verdict::Ok
            };
            (format!("ok p={} r=err", shex(&printed)), verdict)
        }
    }
}

fn parse_line<T, E>(text: &str, parse: impl FnOnce(&str) -> Result<T, E>, out: impl Fn(&T) -> String, class: &str) -> (String, Verdict) {
    match catch_unwind(AssertUnwindSafe(|| parse(text))) {
        Err(_) => ("panic".into(), Verdict::fail("no_panic", class, format!("parsing {:?} panicked", text))),
        Ok(Ok(v)) => (format!("ok {}", out(&v)), Verdict::Ok),
        Ok(Err(_)) => ("err".into(), Verdict::Ok),
    }
}

fn multi_is_regular(v: &[NumericRange]) -> bool {
    v.len() >= 2 && v.len() <= 10 && v.iter().all(|d| matches!(d, NumericRange::Index(_) | NumericRange::Range(_, _)))
}

const END_TICKS: i64 = 2650467743990000000;

// ------------------------------------------------------------------------------------------------
// generator
// ------------------------------------------------------------------------------------------------

fn gen_ns(rng: &mut Rng) -> u16 {
    match rng.weighted(&[4, 2, 1, 1, 1, 1, 2]) {
        0 => 0,
        1 => 1,
        2 => 2,
        3 => 255,
        4 => 256,
        5 => 65535,
        _ => rng.below(65536) as u16,
    }
}

fn gen_u32(rng: &mut Rng) -> u32 {
    match rng.weighted(&[2, 2, 1, 1, 1, 1, 2, 3]) {
        0 => 0,
        1 => 1,
        2 => 255,
        3 => 256,
        4 => 65535,
        5 => 65536,
        6 => u32::MAX,
        _ => rng.next() as u32,
    }
}

fn gen_ident(rng: &mut Rng) -> Identifier {
    match rng.weighted(&[3, 5, 2, 3]) {
        0 => Identifier::Numeric(gen_u32(rng)),
        1 => match rng.weighted(&[1, 1, 14]) {
            0 => Identifier::String(UAString::null()),
            1 => Identifier::String(UAString::from("")),
            _ => Identifier::String(UAString::from(rand_string(rng, 8))),
        },
        2 => {
            let b: [u8; 16] = match rng.below(4) {
                0 => [0; 16],
                1 => [0xff; 16],
                _ => rng.bytes(16).try_into().unwrap(),
            };
            Identifier::Guid(Guid::from_bytes(b))
        }
        _ => match rng.weighted(&[1, 1, 10]) {
            0 => Identifier::ByteString(ByteString::null()),
            1 => Identifier::ByteString(ByteString::from(Vec::<u8>::new())),
            _ => {
                let n = rng.range(1, 10) as usize;
                Identifier::ByteString(ByteString::from(rng.bytes(n)))
            }
        },
    }
}

fn gen_dim(rng: &mut Rng, allow_none: bool) -> NumericRange {
    match rng.weighted(&[if allow_none { 1 } else { 0 }, 6, 6, 1]) {
        0 => NumericRange::None,
        1 => NumericRange::Index(gen_u32(rng)),
        2 => {
            let a = gen_u32(rng);
            let b = gen_u32(rng);
            if a < b {
                NumericRange::Range(a, b)
            } else if b < a {
                NumericRange::Range(b, a)
            } else {
                NumericRange::Range(a.min(u32::MAX - 1), a.min(u32::MAX - 1) + 1)
            }
        }
        _ => NumericRange::Range(gen_u32(rng), gen_u32(rng)), // possibly min >= max (invalid)
    }
}

fn gen_range(rng: &mut Rng) -> NumericRange {
    match rng.weighted(&[1, 4, 8, 2]) {
        0 => NumericRange::None,
        1 => gen_dim(rng, false),
        2 => {
            let n = rng.range(2, 10) as usize;
            NumericRange::MultipleRanges((0..n).map(|_| gen_dim(rng, false)).collect())
        }
        _ => {
            // degenerate lists: 0, 1 or 11..12 entries, or containing None
            let n = *rng.pick(&[0usize, 1, 1, 3, 11, 12]);
            NumericRange::MultipleRanges((0..n).map(|_| gen_dim(rng, n == 3)).collect())
        }
    }
}

fn gen_ticks(rng: &mut Rng) -> i64 {
    match rng.weighted(&[1, 1, 1, 4, 4, 4]) {
        0 => 0,
        1 => END_TICKS,
        2 => END_TICKS - 1,
        // whole seconds / milliseconds / full 100 ns resolution
        3 => (rng.next() % (END_TICKS as u64 / 10_000_000)) as i64 * 10_000_000,
        4 => (rng.next() % (END_TICKS as u64 / 10_000)) as i64 * 10_000,
        _ => (rng.next() % (END_TICKS as u64 + 1)) as i64,
    }
}

/// last days of months, leap days, year boundaries
fn gen_boundary_ticks(rng: &mut Rng) -> i64 {
    let y = *rng.pick(&[1601u16, 1602, 1604, 1700, 1800, 1900, 2000, 2001, 2023, 2024, 2100, 2400, 9999]);
    let m = rng.range(1, 12) as u16;
    let dim = match m {
        2 => {
            if (y % 4 == 0 && y % 100 != 0) || y % 400 == 0 {
                29
            } else {
                28
            }
        }
        4 | 6 | 9 | 11 => 30,
        _ => 31,
    };
    let d = *rng.pick(&[1u16, dim, dim - 1, 15]);
    let (h, mi, s) = *rng.pick(&[(0u16, 0u16, 0u16), (23, 59, 59), (12, 30, 30)]);
    let nanos = *rng.pick(&[0u32, 999_999_900, 100, 123_000_000, 123_456_000]);
    DateTime::ymd_hms_nano(y, m, d, h, mi, s, nanos).ticks()
}

fn printed_sample(rng: &mut Rng) -> (&'static str, String) {
    match rng.below(6) {
        0 => ("nodeid", NodeId { namespace: gen_ns(rng), identifier: gen_ident(rng) }.to_string()),
        1 => ("ident", gen_ident(rng).to_string()),
        2 => {
            let uri = match rng.below(3) {
                0 => UAString::null(),
                _ => UAString::from(rand_string(rng, 5)),
            };
            (
                "exp",
                ExpandedNodeId {
                    node_id: NodeId { namespace: gen_ns(rng), identifier: gen_ident(rng) },
                    namespace_uri: uri,
                    server_index: gen_u32(rng),
                }
                .to_string(),
            )
        }
        3 => ("guid", Guid::from_bytes(rng.bytes(16).try_into().unwrap()).to_string()),
        4 => ("range", gen_range(rng).as_string()),
        _ => ("dt", DateTime::from(gen_ticks(rng)).to_string()),
    }
}

const HAND_WRITTEN: &[(&str, &str)] = &[
    ("nodeid", "ns=65536;i=1"),
    ("nodeid", "ns=065535;i=1"),
    ("nodeid", "i=4294967296"),
    ("nodeid", "i=4294967295"),
    ("nodeid", "i=+5"),
    ("nodeid", "i=-5"),
    ("nodeid", "i=+"),
    ("nodeid", "i= 5"),
    ("nodeid", "ns=+1;i=5"),
    ("nodeid", "ns=1;ns=2;i=5"),
    ("nodeid", "s=ns=1;i=5"),
    ("nodeid", "ns=1;s="),
    ("nodeid", "b=AA=="),
    ("nodeid", "b=AB=="),
    ("nodeid", "b=AA"),
    ("nodeid", "b=AAA="),
    ("nodeid", "b=AAB="),
    ("nodeid", "b=A==="),
    ("nodeid", "b====="),
    ("nodeid", "b=AA==AAAA"),
    ("nodeid", "b=AAAA\n"),
    ("nodeid", "b= AAAA"),
    ("nodeid", "g=urn:uuid:67e55044-10b1-426f-9247-bb680e5fe0c8"),
    ("nodeid", "g={67e55044-10b1-426f-9247-bb680e5fe0c8}"),
    ("nodeid", "g=67e5504410b1426f9247bb680e5fe0c8"),
    ("nodeid", "g=67E55044-10B1-426F-9247-BB680E5FE0C8"),
    ("nodeid", "g={67e55044-10b1-426f-9247-bb680e5fe0c8"),
    ("nodeid", "g=67e55044-10b1-426f-9247-bb680e5fe0cé"),
    ("nodeid", "g=67e55044-10b1-426f-9247_bb680e5fe0c8"),
    ("ident", "aé"),
    ("ident", "é"),
    ("ident", "€"),
    ("ident", "😀"),
    ("ident", "a"),
    ("ident", ""),
    ("ident", "ié"),
    ("ident", "s="),
    ("exp", "svr=0;i=5"),
    ("exp", "svr=4294967296;i=5"),
    ("exp", "svr=1;ns=65536;i=5"),
    ("exp", "svr=1;nsu=a%3bb%25;s=x"),
    ("exp", "svr=1;nsu=%253b;s=x"),
    ("exp", "svr=1;nsu=\n;s=x"),
    ("exp", "svr=1;nsu=;s=x"),
    ("exp", "svr=1;ns=1;nsu=x;s=x"),
    ("exp", "svr=+1;i=5"),
    ("exp", "i=5"),
    ("exp", "ns=1;i=5"),
    ("range", "0123456789"),
    ("range", "01234567890"),
    ("range", "4294967296"),
    ("range", "0:4294967296"),
    ("range", "9999999999:9999999999"),
    ("nodeid", "s=\u{7f}\u{80}\u{7ff}\u{800}\u{ffff}\u{10000}\u{10ffff}"),
    ("nodeid", "ns=1;s=\u{80}"),
    ("ident", "s=\u{800}"),
    ("ident", "\u{80}"),
    ("ident", "\u{7f}="),
    ("ident", "\u{80}=5"),
    ("ident", "i\u{80}"),
    ("exp", "svr=1;nsu=\u{80}\u{800}\u{10000};s=\u{7ff}\u{ffff}"),
    ("range", "1:1"),
    // 11 digits with leading zeros: in range as a number, rejected by `{1,10}`; 10 digits with leading zeros accepted
    ("range", "1:00000000005"),
    ("range", "00000000001:5"),
    ("range", "00000000005"),
    ("range", "1:0000000005"),
    ("range", "0000000001:5"),
    ("range", "0000000005"),
    ("range", "1:"),
    ("range", ":5"),
    ("range", "1:5:7"),
    ("range", "1:5x"),
    ("range", "+1"),
    ("range", "1:+2"),
    ("range", "1,"),
    ("range", "0,1,2,3,4,5,6,7,8,9"),
    ("range", "0,1,2,3,4,5,6,7,8,9,10"),
    ("range", "1\n"),
    ("range", "١"),
    ("dt", "2020-01-01T00:00:00Z"),
    ("dt", "2020-01-01 00:00:00 UTC"),
    ("dt", "+10000-01-01T00:00:00Z"),
    ("dt", "-0001-01-01T00:00:00Z"),
    ("dt", "2020-02-30T00:00:00Z"),
    ("dt", "2016-12-31T23:59:60Z"),
    ("dt", "2020-01-01T00:00:00+23:59"),
    ("dt", "9999-12-31T23:59:59-23:59"),
    ("dt", "0000-01-01T00:00:00+23:59"),
    ("dt", "262143-12-31T23:59:59Z"),
    ("dt", "+262143-12-31T23:59:59.999999999-23:59"),
    ("dt", "-262144-01-01T00:00:00+23:59"),
    ("dt", "2020-01-01T00:00:00.123456789123456789Z"),
];

impl Prop for C04 {
    fn id(&self) -> &'static str {
        "C04"
    }

    fn gen(&self, rng: &mut Rng, n: usize, _tier: Tier, out: &mut Vec<String>) {
        // the hand-written malformed inputs run in every generated batch
        out.push("reset".into());
        for (t, s) in HAND_WRITTEN {
            out.push("reset".into());
            out.push(format!("parse {} {}", t, shex(s)));
        }
        for _ in 0..n {
            out.push("reset".into());
            let len = rng.range(1, 6);
            for _ in 0..len {
                match rng.weighted(&[5, 2, 6, 1, 4, 3, 6, 3, 2]) {
                    0 => {
                        let (k, v) = ident_tok(&gen_ident(rng));
                        out.push(format!("rt nodeid {} {} {}", gen_ns(rng), k, v));
                    }
                    1 => {
                        let (k, v) = ident_tok(&gen_ident(rng));
                        out.push(format!("rt ident {} {}", k, v));
                    }
                    2 => {
                        let (k, v) = ident_tok(&gen_ident(rng));
                        let uri = match rng.weighted(&[6, 1, 6]) {
                            0 => "-".to_string(),
                            1 => "s".to_string(),
                            _ => shex(&rand_string(rng, 6)),
                        };
                        out.push(format!("rt exp {} {} {} {} {}", gen_u32(rng), uri, gen_ns(rng), k, v));
                    }
                    3 => out.push(format!("rt guid {}", xhex(&rng.bytes(16)))),
                    4 => out.push(format!("rt range {}", nr_out(&gen_range(rng)))),
                    5 => {
                        let t = if rng.chance(1, 3) { gen_boundary_ticks(rng) } else { gen_ticks(rng) };
                        out.push(format!("rt dt {}", t));
                    }
                    6 => {
                        // malformed stream: mutations of printed forms and random fragment strings
                        let (t, s) = printed_sample(rng);
                        let mut s = if rng.chance(1, 5) { rand_string(rng, 10) } else { s };
                        let k = rng.range(0, 2);
                        for _ in 0..k {
                            s = mutate(rng, &s);
                        }
                        let t = if rng.chance(1, 8) { *rng.pick(&["nodeid", "ident", "exp", "guid", "range", "dt"]) } else { t };
                        out.push(format!("parse {} {}", t, shex(&s)));
                    }
                    7 => {
                        // printed-form grammar of DateTime with field values around their limits
                        // mostly valid fields, each one at a boundary / invalid value with probability 1/5
                        let y = if rng.chance(1, 5) { *rng.pick(&[0u32, 1, 1600, 1601, 1900, 2000, 2024, 2100, 9999]) } else { rng.range(1601, 9999) as u32 };
                        let m = if rng.chance(1, 5) { *rng.pick(&[0u32, 1, 2, 12, 13, 99]) } else { rng.range(1, 12) as u32 };
                        let d = if rng.chance(1, 5) { *rng.pick(&[0u32, 1, 28, 29, 30, 31, 32, 99]) } else { rng.range(1, 28) as u32 };
                        let h = if rng.chance(1, 5) { *rng.pick(&[0u32, 23, 24, 99]) } else { rng.range(0, 23) as u32 };
                        let mi = if rng.chance(1, 5) { *rng.pick(&[0u32, 59, 60, 99]) } else { rng.range(0, 59) as u32 };
                        let s = if rng.chance(1, 5) { *rng.pick(&[0u32, 59, 60, 61, 99]) } else { rng.range(0, 59) as u32 };
                        let fl = rng.below(10) as u32;
                        let fr = if fl == 0 { 0 } else { rng.below(10u64.pow(fl)) };
                        out.push(format!("parse dtp {} {} {} {} {} {} {} {}", y, m, d, h, mi, s, fl, fr));
                    }
                    _ => {
                        let (t, s) = *rng.pick(HAND_WRITTEN);
                        let s = if rng.chance(1, 2) { mutate(rng, s) } else { s.to_string() };
                        out.push(format!("parse {} {}", t, shex(&s)));
                    }
                }
            }
        }
    }

    fn runner(&self) -> Box<dyn Runner> {
        Box::new(R)
    }
}

struct R;

impl Runner for R {
    fn step(&mut self, toks: &[&str]) -> (String, Verdict) {
        let bad = || ("bad-op".to_string(), Verdict::Ok);
        match toks {
            ["reset"] => ("ok".into(), Verdict::Ok),
            ["rt", "nodeid", ns, k, v] => {
                let (Ok(ns), Some(i)) = (ns.parse::<u16>(), ident_from(k, v)) else { return bad() };
                let n = NodeId { namespace: ns, identifier: i };
                let class = format!("nodeid-{}", kind_tag(&n.identifier));
                // the second public printer, `impl Into<String> for NodeId`, must be the same text
                let via_into: String = n.clone().into();
                if via_into != n.to_string() {
                    return ("wrapper".into(), Verdict::fail("wrapper", &class, format!("Into<String> gives {:?}, Display {:?}", via_into, n.to_string())));
                }
                rt_line(n.to_string(), NodeId::from_str, &n, node_out, ident_in_domain(&n.identifier), &class)
            }
            ["rt", "ident", k, v] => {
                let Some(i) = ident_from(k, v) else { return bad() };
                let class = format!("ident-{}", kind_tag(&i));
                rt_line(i.to_string(), Identifier::from_str, &i, ident_out, ident_in_domain(&i), &class)
            }
            ["rt", "exp", svr, uri, ns, k, v] => {
                let (Ok(svr), Some(uri), Ok(ns), Some(i)) = (svr.parse::<u32>(), opt_sunhex(uri), ns.parse::<u16>(), ident_from(k, v)) else {
                    return bad();
                };
                let uri_tag = if uri.is_null() {
                    "nouri"
                } else if uri.is_empty() {
                    "emptyuri"
                } else {
                    "uri"
                };
                let class = format!("exp-{}-{}-{}", uri_tag, if ns == 0 { "ns0" } else { "nsN" }, kind_tag(&i));
                let dom = ident_in_domain(&i);
                let e = ExpandedNodeId { node_id: NodeId { namespace: ns, identifier: i }, namespace_uri: uri, server_index: svr };
                rt_line(e.to_string(), ExpandedNodeId::from_str, &e, exp_out, dom, &class)
            }
            ["rt", "guid", g] => {
                let Some(b) = (if g.starts_with('x') { unhex(g) } else { None }) else { return bad() };
                let Ok(a): Result<[u8; 16], _> = b.try_into() else { return bad() };
                let g = Guid::from_bytes(a);
                rt_line(g.to_string(), Guid::from_str, &g, |g| xhex(g.as_bytes()), true, "guid")
            }
            ["rt", "range", r] => {
                let Some(r) = nr_from(r) else { return bad() };
                let class = match &r {
                    NumericRange::MultipleRanges(v) if !multi_is_regular(v) => "range-multi-degenerate",
                    NumericRange::MultipleRanges(_) => "range-multi",
                    _ => "range-one",
                };
                // "all valid NumericRanges": validity as the crate itself defines it
                let dom = r.is_valid();
                let (line, verdict) = rt_line(r.as_string(), NumericRange::from_str, &r, nr_out, dom, class);
                // the crate's validity verdict is part of the compared result
                (if line.starts_with("ok ") { format!("{} v={}", line, b(dom)) } else { line }, verdict)
            }
            ["rt", "dt", t] => {
                let Ok(t) = t.parse::<i64>() else { return bad() };
                if !(0..=END_TICKS).contains(&t) {
                    return bad();
                }
                let d = DateTime::from(t);
                let printed = d.to_string();
                match catch_unwind(AssertUnwindSafe(|| DateTime::from_str(&printed))) {
                    Err(_) => ("panic".into(), Verdict::fail("no_panic", "dt", format!("parsing {:?} panicked", printed))),
                    Ok(Ok(v)) => {
                        let verdict = if v != d || v.ticks() != t {
                            Verdict::fail("roundtrip", "dt", format!("{} printed {:?} parsed to ticks {}", t, printed, v.ticks()))
                        } else {
                            Verdict::Ok
                        };
                        (format!("ok p={} r={}", shex(&printed), v.ticks()), verdict)
                    }
                    Ok(Err(_)) => (
                        format!("ok p={} r=err", shex(&printed)),
                        Verdict::fail("roundtrip", "dt", format!("{:?} does not parse", printed)),
                    ),
                }
            }
            ["parse", "nodeid", s] => {
                let Some(s) = sunhex(s) else { return bad() };
                parse_line(&s, NodeId::from_str, node_out, "parse-nodeid")
            }
            ["parse", "ident", s] => {
                let Some(s) = sunhex(s) else { return bad() };
                parse_line(&s, Identifier::from_str, ident_out, "parse-ident")
            }
            ["parse", "exp", s] => {
                let Some(s) = sunhex(s) else { return bad() };
                parse_line(&s, ExpandedNodeId::from_str, exp_out, "parse-exp")
            }
            ["parse", "guid", s] => {
                let Some(s) = sunhex(s) else { return bad() };
                parse_line(&s, Guid::from_str, |g| xhex(g.as_bytes()), "parse-guid")
            }
            ["parse", "range", s] => {
                let Some(s) = sunhex(s) else { return bad() };
                // the second public parser, `NumericRange::new`, must agree with `from_str`
                let a = catch_unwind(AssertUnwindSafe(|| NumericRange::new(s.clone()).ok().map(|r| nr_out(&r))));
                let b2 = catch_unwind(AssertUnwindSafe(|| NumericRange::from_str(&s).ok().map(|r| nr_out(&r))));
                if let (Ok(a), Ok(b2)) = (&a, &b2) {
                    if a != b2 {
                        return ("wrapper".into(), Verdict::fail("wrapper", "parse-range", format!("new() gives {:?}, from_str {:?}", a, b2)));
                    }
                }
                parse_line(&s, NumericRange::from_str, nr_out, "parse-range")
            }
            ["parse", "dt", s] => {
                let Some(s) = sunhex(s) else { return bad() };
                // only "returns without panicking" is compared (chrono's grammar is not modelled)
                match catch_unwind(AssertUnwindSafe(|| DateTime::from_str(&s).is_ok())) {
                    Err(_) => ("panic".into(), Verdict::fail("no_panic", "parse-dt", format!("parsing {:?} panicked", s))),
                    Ok(_) => ("ok".into(), Verdict::Ok),
                }
            }
            ["parse", "dtp", y, m, d, h, mi, s, fl, fr] => {
                let p: Vec<Option<u64>> = [y, m, d, h, mi, s, fl, fr].iter().map(|t| t.parse::<u64>().ok()).collect();
                if p.iter().any(|x| x.is_none()) {
                    return bad();
                }
                let p: Vec<u64> = p.into_iter().map(|x| x.unwrap()).collect();
                let (y, m, d, h, mi, s, fl, fr) = (p[0], p[1], p[2], p[3], p[4], p[5], p[6], p[7]);
                if y > 9999 || m > 99 || d > 99 || h > 99 || mi > 99 || s > 99 || fl > 9 || fr >= 10u64.pow(fl as u32) {
                    return bad();
                }
                let frac = if fl == 0 { String::new() } else { format!(".{:0w$}", fr, w = fl as usize) };
                let text = format!("{:04}-{:02}-{:02}T{:02}:{:02}:{:02}{}+00:00", y, m, d, h, mi, s, frac);
                match catch_unwind(AssertUnwindSafe(|| DateTime::from_str(&text).map(|d| d.ticks()))) {
                    Err(_) => ("panic".into(), Verdict::fail("no_panic", "parse-dtp", format!("parsing {:?} panicked", text))),
                    Ok(Ok(t)) => (format!("ok p={} r={}", shex(&text), t), Verdict::Ok),
                    Ok(Err(_)) => (format!("ok p={} r=err", shex(&text)), Verdict::Ok),
                }
            }
            _ => bad(),
        }
    }
}
