//! C24 — monitored item queues keep the right values and survive resizing.
use crate::common::*;
use crate::fixtures;
use opcua::server::prelude::*;
use opcua::server::subscriptions::monitored_item::Notification;
use opcua::verif_hooks::subs::VMonitoredItem as MonitoredItem;
use std::collections::VecDeque;

pub struct C24;
pub static P: C24 = C24;

impl Prop for C24 {
    fn id(&self) -> &'static str {
        "C24"
    }

    fn gen(&self, rng: &mut Rng, n: usize, _tier: Tier, out: &mut Vec<String>) {
        for _ in 0..n {
            let max_q = *rng.pick(&[1u64, 2, 3, 5, 8, 10]);
            // requested sizes around 0, 1, the limit and beyond
            let req = |rng: &mut Rng| -> u64 {
                match rng.weighted(&[1, 1, 6, 1, 1]) {
                    0 => 0,
                    1 => 1,
                    2 => rng.range(1, max_q as i64 + 1) as u64,
                    3 => max_q + 1 + rng.below(5),
                    _ => u32::MAX as u64,
                }
            };
            let r0 = req(rng);
            out.push(format!("reset {} {} {}", max_q, r0, b(rng.chance(1, 2))));
            let len = rng.range(1, 40);
            let mut next = 1u64;
            for _ in 0..len {
                match rng.weighted(&[12, 2, 3, 1]) {
                    0 => {
                        out.push(format!("enq {}", next));
                        next += 1;
                    }
                    1 => out.push("drain".to_string()),
                    3 => {
                        // a modify the server rejects; small sizes, so that it would shrink a filled queue
                        let r = if rng.chance(2, 3) { rng.range(0, 4) as u64 } else { req(rng) };
                        out.push(format!("modbad {} {}", r, b(rng.chance(1, 2))))
                    }
                    _ => {
                        let r = req(rng);
                        out.push(format!("modify {} {}", r, b(rng.chance(1, 2))))
                    }
                }
            }
        }
    }

    fn runner(&self) -> Box<dyn Runner> {
        Box::new(R {
            item: None,
            reference: VecDeque::new(),
            ref_size: 1,
            ref_discard_oldest: true,
        })
    }
}

struct R {
    item: Option<MonitoredItem>,
    /// reference queue written from the property text: (sample, displaced-another-entry)
    reference: VecDeque<(i64, bool)>,
    ref_size: usize,
    ref_discard_oldest: bool,
}

fn create_request(queue_size: u32, discard_oldest: bool) -> MonitoredItemCreateRequest {
    MonitoredItemCreateRequest {
        item_to_monitor: ReadValueId {
            node_id: NodeId::new(2, "verif"),
            attribute_id: AttributeId::Value as u32,
            index_range: UAString::null(),
            data_encoding: QualifiedName::null(),
        },
        monitoring_mode: MonitoringMode::Reporting,
        requested_parameters: MonitoringParameters {
            client_handle: 7,
            sampling_interval: 0.0,
            filter: ExtensionObject::null(),
            queue_size,
            discard_oldest,
        },
    }
}

impl R {
    fn show(&self) -> (String, Vec<(i64, bool)>) {
        let it = self.item.as_ref().unwrap();
        let mut q = Vec::new();
        for n in it.notification_queue() {
            match n {
                Notification::MonitoredItemNotification(m) => {
                    let v = match &m.value.value {
                        Some(Variant::Int64(v)) => *v,
                        _ => -1,
                    };
                    let ov = m.value.status().contains(StatusCode::OVERFLOW);
                    q.push((v, ov));
                }
                _ => q.push((-2, false)),
            }
        }
        let qs: Vec<String> = q.iter().map(|(v, o)| format!("{}:{}", v, b(*o))).collect();
        (
            format!(
                "ok size={} q=[{}] of={}",
                it.queue_size(),
                qs.join(","),
                b(it.queue_overflow())
            ),
            q,
        )
    }

    /// the property, evaluated on the implementation's state alone
    fn oracle(&self, q: &[(i64, bool)], class: &str) -> Verdict {
        let it = self.item.as_ref().unwrap();
        if q.len() > it.queue_size() {
            return Verdict::fail("len_le_size", class, format!("{} > {}", q.len(), it.queue_size()));
        }
        let want: Vec<(i64, bool)> = self.reference.iter().cloned().collect();
        let got_vals: Vec<i64> = q.iter().map(|x| x.0).collect();
        let want_vals: Vec<i64> = want.iter().map(|x| x.0).collect();
        if got_vals != want_vals {
            return Verdict::fail("contents", class, format!("got {:?} want {:?}", got_vals, want_vals));
        }
        for (g, w) in q.iter().zip(want.iter()) {
            if g.1 != w.1 {
                return Verdict::fail("overflow_bit", class, format!("got {:?} want {:?}", q, want));
            }
        }
        Verdict::Ok
    }
}

fn sanitized(max_q: usize, req: usize) -> usize {
    // property C23: revised queue size is between 1 and the server maximum
    req.clamp(1, max_q.max(1))
}

impl Runner for R {
    fn step(&mut self, toks: &[&str]) -> (String, Verdict) {
        let fx = fixtures::server();
        match toks {
            ["reset", m, r, d] => {
                let max_q: usize = m.parse().unwrap();
                let req: u64 = r.parse().unwrap();
                let d = *d == "1";
                let now = chrono::Utc::now();
                let item = {
                    let mut ss = fx.server_state.write();
                    ss.max_monitored_item_queue_size = max_q;
                    MonitoredItem::new(&now, 1, TimestampsToReturn::Neither, &ss, &create_request(req as u32, d))
                        .expect("item")
                };
                self.ref_size = sanitized(max_q, req as usize);
                self.ref_discard_oldest = d;
                self.reference.clear();
                self.item = Some(item);
                let (s, q) = self.show();
                (s, self.oracle(&q, "create"))
            }
            ["enq", x] => {
                let x: i64 = x.parse().unwrap();
                let it = self.item.as_mut().unwrap();
                it.enqueue(MonitoredItemNotification {
                    client_handle: 7,
                    value: DataValue::value_only(Variant::Int64(x)),
                });
                // reference, from the property text
                let mut displaced = false;
                if self.reference.len() >= self.ref_size {
                    displaced = true;
                    if self.ref_discard_oldest {
                        self.reference.pop_front();
                    } else {
                        self.reference.pop_back();
                    }
                }
                self.reference.push_back((x, displaced && self.ref_size > 1));
                let (s, q) = self.show();
                (s, self.oracle(&q, "enq"))
            }
            ["drain"] => {
                let it = self.item.as_mut().unwrap();
                let drained = it.all_notifications();
                let want: Vec<i64> = self.reference.iter().map(|x| x.0).collect();
                self.reference.clear();
                let (s, q) = self.show();
                let (txt, got): (String, Vec<i64>) = match drained {
                    None => ("none".to_string(), vec![]),
                    Some(v) => {
                        let vals: Vec<(i64, bool)> = v
                            .iter()
                            .map(|n| match n {
                                Notification::MonitoredItemNotification(m) => (
                                    match &m.value.value {
                                        Some(Variant::Int64(v)) => *v,
                                        _ => -1,
                                    },
                                    m.value.status().contains(StatusCode::OVERFLOW),
                                ),
                                _ => (-2, false),
                            })
                            .collect();
                        let t: Vec<String> = vals.iter().map(|(v, o)| format!("{}:{}", v, b(*o))).collect();
                        (format!("[{}]", t.join(",")), vals.iter().map(|x| x.0).collect())
                    }
                };
                let v = if got != want {
                    Verdict::fail("drain_contents", "drain", format!("got {:?} want {:?}", got, want))
                } else {
                    self.oracle(&q, "drain")
                };
                (format!("ok {} {}", txt, s), v)
            }
            ["modify", r, d] => {
                let req: u64 = r.parse().unwrap();
                let d = *d == "1";
                let max_q = fx.server_state.read().max_monitored_item_queue_size;
                let new_size = sanitized(max_q, req as usize);
                let class = if new_size < self.reference.len() { "shrink-nonempty" } else { "modify" };
                let req = MonitoredItemModifyRequest {
                    monitored_item_id: 1,
                    requested_parameters: MonitoringParameters {
                        client_handle: 7,
                        sampling_interval: 0.0,
                        filter: ExtensionObject::null(),
                        queue_size: req as u32,
                        discard_oldest: d,
                    },
                };
                let res = {
                    let ss = fx.server_state.read();
                    let asp = fx.address_space.read();
                    let it = self.item.as_mut().unwrap();
                    std::panic::catch_unwind(std::panic::AssertUnwindSafe(|| {
                        it.modify(&ss, &asp, TimestampsToReturn::Neither, &req)
                    }))
                };
                match res {
                    Err(_) => ("panic".to_string(), Verdict::fail("modify_total", class, "modify panicked")),
                    Ok(Err(e)) => (
                        format!("err {}", e),
                        Verdict::fail("modify_total", class, format!("modify failed unexpectedly: {}", e)),
                    ),
                    Ok(Ok(_)) => {
                        self.ref_size = new_size;
                        self.ref_discard_oldest = d;
                        while self.reference.len() > new_size {
                            self.reference.pop_front();
                        }
                        let (s, q) = self.show();
                        (s, self.oracle(&q, class))
                    }
                }
            }
            ["modbad", r, d] => {
                // a ModifyMonitoredItems entry that the server REJECTS (percent deadband is not
                // supported): whatever size it asked for, the item must be as it was — in particular
                // the queue must still fit the size the item reports (seed C24c: the smaller size was
                // stored before the filter was looked at, and the drain was skipped)
                let req: u64 = r.parse().unwrap();
                let d = *d == "1";
                let class = "modify-rejected";
                let req = MonitoredItemModifyRequest {
                    monitored_item_id: 1,
                    requested_parameters: MonitoringParameters {
                        client_handle: 7,
                        sampling_interval: 0.0,
                        filter: ExtensionObject::from_encodable(
                            ObjectId::DataChangeFilter_Encoding_DefaultBinary,
                            &DataChangeFilter {
                                trigger: DataChangeTrigger::StatusValue,
                                deadband_type: DeadbandType::Percent as u32,
                                deadband_value: 10f64,
                            },
                        ),
                        queue_size: req as u32,
                        discard_oldest: d,
                    },
                };
                let res = {
                    let ss = fx.server_state.read();
                    let asp = fx.address_space.read();
                    let it = self.item.as_mut().unwrap();
                    std::panic::catch_unwind(std::panic::AssertUnwindSafe(|| {
                        it.modify(&ss, &asp, TimestampsToReturn::Neither, &req)
                    }))
                };
                match res {
                    Err(_) => ("panic".to_string(), Verdict::fail("modify_total", class, "modify panicked")),
                    Ok(Ok(_)) => ("ok accepted".to_string(), Verdict::Ok),
                    Ok(Err(e)) => {
                        let (s, q) = self.show();
                        (format!("err {} {}", e.name(), s), self.oracle(&q, class))
                    }
                }
            }
            _ => ("bad-op".to_string(), Verdict::Ok),
        }
    }
}
