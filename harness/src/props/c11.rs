//! C11 — framing is independent of how the byte stream is segmented (TcpCodec::decode), and the
//! client SendBuffer emits exactly the concatenation of its secured chunks under partial writes.
use crate::common::*;
use crate::fixtures;
use bytes::BytesMut;
use opcua::core::comms::chunker::Chunker;
use opcua::core::comms::message_chunk::MessageChunk;
use opcua::core::comms::secure_channel::{Role, SecureChannel};
use opcua::core::comms::tcp_codec::{Message, TcpCodec};
use opcua::core::comms::tcp_types::{AcknowledgeMessage, ErrorMessage, HelloMessage, MessageHeader, MessageType};
use opcua::core::supported_message::SupportedMessage;
use opcua::crypto::CertificateStore;
use opcua::types::*;
use opcua::verif_hooks::transport::VSendBuffer;
use parking_lot::RwLock;
use std::io::Cursor;
use std::pin::Pin;
use std::sync::Arc;
use std::task::{Context, Poll};
use tokio_util::codec::Decoder;

pub struct C11;
pub static P: C11 = C11;

// ------------------------------------------------------------------------------------------------
// shared helpers (also used by C12 / C10)
// ------------------------------------------------------------------------------------------------

pub fn render_frame(m: &Message) -> String {
    fn s(u: &UAString) -> String {
        match u.value() {
            None => "-".to_string(),
            Some(v) => format!("x{}", hex(v.as_bytes())),
        }
    }
    match m {
        Message::Hello(h) => format!(
            "H:{}:{}:{}:{}:{}:{}",
            h.protocol_version, h.receive_buffer_size, h.send_buffer_size, h.max_message_size, h.max_chunk_count,
            s(&h.endpoint_url)
        ),
        Message::Acknowledge(a) => format!(
            "A:{}:{}:{}:{}:{}",
            a.protocol_version, a.receive_buffer_size, a.send_buffer_size, a.max_message_size, a.max_chunk_count
        ),
        Message::Error(e) => format!("E:{}:{}", e.error, s(&e.reason)),
        Message::Chunk(c) => format!("C:x{}", hex(&c.data)),
    }
}

pub fn decoding_options(max_msg: usize, max_str: usize) -> DecodingOptions {
    DecodingOptions {
        max_message_size: max_msg,
        max_string_length: max_str,
        ..DecodingOptions::default()
    }
}

/// What `tokio_util::codec::FramedRead` does with the bytes of one read: `decode` until `Ok(None)`
/// or the first error.  Returns (frames, errored).
pub fn drain(codec: &mut TcpCodec, buf: &mut BytesMut) -> (Vec<String>, bool) {
    let mut frames = Vec::new();
    loop {
        match codec.decode(buf) {
            Ok(Some(m)) => frames.push(render_frame(&m)),
            Ok(None) => return (frames, false),
            Err(_) => return (frames, true),
        }
    }
}

pub fn client_channel(channel_id: u32, token_id: u32, client: bool) -> SecureChannel {
    let store = Arc::new(RwLock::new(CertificateStore::new(&fixtures::scratch_dir().join("c11pki"))));
    let mut sc = SecureChannel::new(
        store,
        if client { Role::Client } else { Role::Server },
        DecodingOptions::default(),
    );
    sc.set_secure_channel_id(channel_id);
    sc.set_token_id(token_id);
    sc
}

/// node id + body of a message, as `Chunker::encode` lays it out
pub fn message_bytes(m: &SupportedMessage) -> (usize, Vec<u8>) {
    let nid = m.node_id();
    let mut c = Cursor::new(Vec::new());
    nid.encode(&mut c).unwrap();
    let n = c.get_ref().len();
    m.encode(&mut c).unwrap();
    (n, c.into_inner())
}

pub fn message_from_bytes(b: &[u8]) -> Option<SupportedMessage> {
    let opts = DecodingOptions::default();
    let mut c = Cursor::new(b);
    let nid = NodeId::decode(&mut c, &opts).ok()?;
    let oid = nid.as_object_id().ok()?;
    let m = SupportedMessage::decode_by_object_id(&mut c, oid, &opts).ok()?;
    if let SupportedMessage::Invalid(_) = m {
        return None;
    }
    // the op line must denote the message exactly
    if message_bytes(&m).1 != b {
        return None;
    }
    Some(m)
}

pub fn read_request(rng: &mut Rng, n: usize) -> SupportedMessage {
    read_request_padded(rng, n, None)
}

/// a ReadRequest with `n` nodes; with `total = Some(t)` the audit entry id is padded so that node
/// id + body are exactly `t` bytes long (when `t` is large enough)
pub fn read_request_padded(rng: &mut Rng, n: usize, total: Option<usize>) -> SupportedMessage {
    let nodes: Vec<ReadValueId> = (0..n)
        .map(|i| ReadValueId {
            node_id: NodeId::new((rng.below(3)) as u16, (i as u32).wrapping_mul(2654435761) % 70000),
            attribute_id: 1 + rng.below(22) as u32,
            index_range: UAString::null(),
            data_encoding: QualifiedName::null(),
        })
        .collect();
    let mut r = ReadRequest {
        request_header: RequestHeader::new(&NodeId::null(), &DateTime::null(), rng.below(1000) as u32),
        max_age: 0.0,
        timestamps_to_return: TimestampsToReturn::Both,
        nodes_to_read: Some(nodes),
    };
    if let Some(t) = total {
        let l0 = message_bytes(&r.clone().into()).1.len();
        if t >= l0 {
            r.request_header.audit_entry_id = UAString::from("a".repeat(t - l0));
        }
    }
    r.into()
}

/// OpenSecureChannel / CloseSecureChannel messages (they travel in OPN / CLO chunks; an OPN chunk has the
/// asymmetric security header). `nonce` bytes make the OPN message as long as wanted.
pub fn channel_message(kind: &str, nonce: usize) -> SupportedMessage {
    match kind {
        "opn-req" => OpenSecureChannelRequest {
            request_header: RequestHeader::new(&NodeId::null(), &DateTime::null(), 1),
            client_protocol_version: 0,
            request_type: SecurityTokenRequestType::Issue,
            security_mode: MessageSecurityMode::None,
            client_nonce: if nonce == 0 { ByteString::null() } else { ByteString::from(vec![5u8; nonce]) },
            requested_lifetime: 60000,
        }
        .into(),
        "opn-resp" => OpenSecureChannelResponse {
            response_header: ResponseHeader::new_good(&RequestHeader::new(&NodeId::null(), &DateTime::null(), 1)),
            server_protocol_version: 0,
            security_token: ChannelSecurityToken { channel_id: 1, token_id: 1, created_at: DateTime::null(), revised_lifetime: 60000 },
            server_nonce: if nonce == 0 { ByteString::null() } else { ByteString::from(vec![6u8; nonce]) },
        }
        .into(),
        "clo-resp" => CloseSecureChannelResponse {
            response_header: ResponseHeader::new_good(&RequestHeader::new(&NodeId::null(), &DateTime::null(), 1)),
        }
        .into(),
        _ => CloseSecureChannelRequest { request_header: RequestHeader::new(&NodeId::null(), &DateTime::null(), 4) }.into(),
    }
}

/// An `AsyncWrite` that accepts at most `accept` bytes of one write.
struct Sink {
    accept: usize,
    got: Vec<u8>,
}

impl tokio::io::AsyncWrite for Sink {
    fn poll_write(mut self: Pin<&mut Self>, _cx: &mut Context<'_>, buf: &[u8]) -> Poll<std::io::Result<usize>> {
        let n = self.accept.min(buf.len());
        self.got.extend_from_slice(&buf[..n]);
        Poll::Ready(Ok(n))
    }
    fn poll_flush(self: Pin<&mut Self>, _cx: &mut Context<'_>) -> Poll<std::io::Result<()>> {
        Poll::Ready(Ok(()))
    }
    fn poll_shutdown(self: Pin<&mut Self>, _cx: &mut Context<'_>) -> Poll<std::io::Result<()>> {
        Poll::Ready(Ok(()))
    }
}

// ------------------------------------------------------------------------------------------------
// generator
// ------------------------------------------------------------------------------------------------

fn enc<T: BinaryEncoder<T>>(t: &T) -> Vec<u8> {
    let mut c = Cursor::new(Vec::new());
    t.encode(&mut c).unwrap();
    c.into_inner()
}

fn raw_chunk(rng: &mut Rng, body_len: usize) -> Vec<u8> {
    let ty: &[u8] = *rng.pick(&[&b"MSG"[..], &b"OPN"[..], &b"CLO"[..]]);
    let fin = *rng.pick(&[b'F', b'F', b'C', b'A']);
    let mut v = Vec::new();
    v.extend_from_slice(ty);
    v.push(fin);
    v.extend_from_slice(&((12 + body_len) as u32).to_le_bytes());
    v.extend_from_slice(&(rng.below(5) as u32).to_le_bytes());
    v.extend(rng.bytes(body_len));
    v
}

fn hello_with_url(rng: &mut Rng, url: Option<Vec<u8>>, declared: Option<u32>) -> Vec<u8> {
    // hand-made HEL so that the url bytes / declared length can be anything
    let mut v = b"HELF".to_vec();
    v.extend_from_slice(&[0, 0, 0, 0]);
    for _ in 0..5 {
        v.extend_from_slice(&(*rng.pick(&[0u32, 1, 8196, 65535, 65536, u32::MAX])).to_le_bytes());
    }
    match &url {
        None => v.extend_from_slice(&declared.unwrap_or(u32::MAX).to_le_bytes()),
        Some(u) => {
            v.extend_from_slice(&declared.unwrap_or(u.len() as u32).to_le_bytes());
            v.extend_from_slice(u);
        }
    }
    let n = v.len() as u32;
    v[4..8].copy_from_slice(&n.to_le_bytes());
    v
}

fn gen_frame(rng: &mut Rng, max_str: usize) -> Vec<u8> {
    match rng.weighted(&[3, 2, 2, 6, 2, 2]) {
        0 => {
            let url = match rng.below(4) {
                0 => "".to_string(),
                1 => "opc.tcp://localhost:4855/".to_string(),
                2 => "opc.tcp://ü€𝄞/".to_string(),
                _ => "x".repeat(rng.below(max_str.min(40) as u64 + 3) as usize),
            };
            enc(&HelloMessage::new(&url, 8196 + rng.below(3) as usize, 65536, rng.below(100000) as usize, rng.below(10) as usize))
        }
        1 => {
            let mut a = AcknowledgeMessage {
                message_header: MessageHeader::new(MessageType::Acknowledge),
                protocol_version: rng.below(2) as u32,
                receive_buffer_size: 8196,
                send_buffer_size: 65535,
                max_message_size: rng.next() as u32,
                max_chunk_count: rng.below(7) as u32,
            };
            a.message_header.message_size = a.byte_len() as u32;
            enc(&a)
        }
        2 => enc(&ErrorMessage::from_status_code(*rng.pick(&[
            StatusCode::BadTcpMessageTooLarge,
            StatusCode::BadCommunicationError,
            StatusCode::Good,
        ]))),
        3 => {
            let n = match rng.below(5) {
                0 => 0,
                1 => 1,
                2 => 12,
                _ => rng.below(60) as usize,
            };
            raw_chunk(rng, n)
        }
        4 => {
            // string corner cases in a HEL
            match rng.below(6) {
                0 => hello_with_url(rng, None, None),
                1 => hello_with_url(rng, None, Some(0xFFFF_FFFE)),
                2 => hello_with_url(rng, Some(vec![0xC3, 0x28]), None),
                3 => hello_with_url(rng, Some(vec![0xE2, 0x82, 0xAC, 0xF0, 0x9D, 0x84, 0x9E, 0xED, 0x9F, 0xBF]), None),
                4 => {
                    let u = rng.bytes(6);
                    hello_with_url(rng, Some(u), None)
                }
                _ => {
                    let l = if max_str > 100 { 5 } else { max_str as u32 + rng.below(2) as u32 };
                    hello_with_url(rng, Some(vec![b'a'; l as usize]), None)
                }
            }
        }
        _ => {
            // UTF-8 boundary sequences in an ERR reason
            let seqs: [&[u8]; 10] = [
                &[0xC0, 0x80], &[0xC2, 0x80], &[0xE0, 0x9F, 0x80], &[0xE0, 0xA0, 0x80], &[0xED, 0xA0, 0x80],
                &[0xF0, 0x8F, 0x80, 0x80], &[0xF0, 0x90, 0x80, 0x80], &[0xF4, 0x8F, 0xBF, 0xBF], &[0xF4, 0x90, 0x80, 0x80],
                &[0xF5, 0x80, 0x80, 0x80],
            ];
            let s = *rng.pick(&seqs);
            let mut v = b"ERRF".to_vec();
            v.extend_from_slice(&((16 + s.len()) as u32).to_le_bytes());
            v.extend_from_slice(&0x80010000u32.to_le_bytes());
            v.extend_from_slice(&(s.len() as u32).to_le_bytes());
            v.extend_from_slice(s);
            v
        }
    }
}

fn mutate(rng: &mut Rng, v: &mut Vec<u8>) {
    if v.is_empty() {
        return;
    }
    match rng.below(6) {
        0 => {
            let i = rng.below(v.len() as u64) as usize;
            v[i] ^= 1 << rng.below(8);
        }
        1 => {
            // rewrite the size field
            if v.len() >= 8 {
                let s = *rng.pick(&[0u32, 1, 7, 8, 9, 11, 12, 13, 27, 28, 29, 0x7fffffff, u32::MAX]);
                let s = if rng.chance(1, 2) { s } else { (v.len() as i64 + rng.range(-2, 2)).max(0) as u32 };
                v[4..8].copy_from_slice(&s.to_le_bytes());
            }
        }
        2 => {
            let n = rng.below(v.len() as u64) as usize;
            v.truncate(n);
        }
        3 => {
            let k = 1 + rng.below(4) as usize;
            v.extend(rng.bytes(k))
        }
        4 => {
            let i = rng.below(v.len().min(4) as u64) as usize;
            v[i] = *rng.pick(&[b'F', b'C', b'A', b'H', b'M', b'X', 0]);
        }
        _ => {}
    }
}

fn cuts(rng: &mut Rng, len: usize) -> Vec<usize> {
    let mut out = Vec::new();
    let mut left = len;
    let style = rng.below(4);
    while left > 0 {
        let k = match style {
            0 => 1,
            1 => 1 + rng.below(4) as usize,
            2 => *rng.pick(&[1usize, 7, 8, 9, 12, 28]),
            _ => 1 + rng.below(left as u64) as usize,
        }
        .min(left);
        out.push(k);
        left -= k;
    }
    out
}

fn gen_rx(rng: &mut Rng, tier: Tier, out: &mut Vec<String>) {
    let max_msg = *rng.pick(&[0usize, 0, 32, 64, 327675]);
    let max_str = *rng.pick(&[0usize, 4, 30, 65535]);
    out.push(format!("reset rx {} {}", max_msg, max_str));
    let nframes = rng.range(1, if tier == Tier::Thorough { 12 } else { 6 });
    let mut stream = Vec::new();
    for _ in 0..nframes {
        let mut f = gen_frame(rng, max_str);
        if rng.chance(1, 6) {
            mutate(rng, &mut f);
        }
        stream.extend(f);
    }
    if rng.chance(1, 10) {
        let k = rng.below(24) as usize;
        stream = rng.bytes(k);
    }
    let cs = cuts(rng, stream.len());
    if rng.chance(1, 2) {
        let mut p = 0;
        for k in &cs {
            out.push(format!("feed x{}", hex(&stream[p..p + k])));
            p += k;
        }
        if rng.chance(1, 5) {
            out.push("feed x".to_string());
        }
        out.push("eof".to_string());
    } else {
        let l: Vec<String> = cs.iter().map(|k| k.to_string()).collect();
        out.push(format!("stream [{}] x{}", l.join(","), hex(&stream)));
        // the same stream in one read
        out.push(format!("stream [] x{}", hex(&stream)));
    }
}

/// every segmentation of one short stream (thorough tier)
fn gen_rx_exhaustive(rng: &mut Rng, out: &mut Vec<String>) {
    let k = rng.below(3) as usize;
    let mut stream = raw_chunk(rng, k);
    if rng.chance(1, 2) {
        stream.extend(raw_chunk(rng, 0));
    }
    stream.truncate(14);
    let n = stream.len();
    out.push("reset rx 0 100".to_string());
    for mask in 0u32..(1 << (n - 1)) {
        let mut cs = Vec::new();
        let mut run = 1;
        for i in 0..n - 1 {
            if mask & (1 << i) != 0 {
                cs.push(run.to_string());
                run = 1;
            } else {
                run += 1;
            }
        }
        out.push(format!("stream [{}] x{}", cs.join(","), hex(&stream)));
    }
}

fn gen_tx(rng: &mut Rng, _tier: Tier, out: &mut Vec<String>) {
    let bs = *rng.pick(&[8196usize, 8196, 8197, 9000, 8195, 0]);
    let max_msg = *rng.pick(&[0usize, 0, 100, 20000, 81960]);
    let max_chunks = *rng.pick(&[0usize, 1, 2, 5]);
    out.push(format!(
        "reset tx {} {} {} {} {} {}",
        bs, max_msg, max_chunks, rng.below(3), rng.below(100), b(rng.chance(1, 2))
    ));
    let nops = rng.range(2, 14);
    let mut big_left = 1;
    for _ in 0..nops {
        match rng.weighted(&[5, 2, 4, 4, 1]) {
            0 => {
                let m = if big_left > 0 && rng.chance(1, 6) {
                    big_left -= 1;
                    // around the body capacity of one / two chunks (buffer size - 24)
                    let cap = bs.max(8196) - 24;
                    let t = *rng.pick(&[cap - 1, cap, cap + 1, 2 * cap - 1, 2 * cap, 2 * cap + 1, 20000]);
                    let k = rng.below(4) as usize;
                    read_request_padded(rng, k, Some(t))
                } else if rng.chance(1, 4) {
                    // OPN / CLO chunk types on the sender
                    let nonce = *rng.pick(&[0usize, 0, 32, 8100, 8200, 17000]);
                    channel_message(*rng.pick(&["opn-req", "opn-req", "clo-req", "opn-resp", "clo-resp"]), nonce)
                } else {
                    let k = rng.below(6) as usize;
                    read_request(rng, k)
                };
                let (nid, bytes) = message_bytes(&m);
                out.push(format!("write {} {} x{}", 1 + rng.below(5000), nid, hex(&bytes)));
                if rng.chance(1, 2) {
                    // encode and let the socket take the chunk in small pieces
                    out.push("enc".to_string());
                    for _ in 0..rng.range(1, 3) {
                        out.push(format!("sink {}", *rng.pick(&[1u64, 2, 23, 24, 25, 40, 4098])));
                    }
                }
            }
            1 => out.push("enc".to_string()),
            2 => {
                let k = *rng.pick(&[0u64, 1, 2, 23, 24, 25, 100, 4098, 8196, 100000]);
                out.push(format!("sink {}", k));
            }
            3 => {
                let n = rng.range(1, 12);
                let ks: Vec<String> = (0..n)
                    .map(|_| (*rng.pick(&[1u64, 3, 24, 57, 1000, 4098, 8196, 8197, 20000])).to_string())
                    .collect();
                out.push(format!("pump [{}]", ks.join(",")));
            }
            _ => out.push("nextid".to_string()),
        }
    }
    // flush everything
    out.push("pump [100000,100000,100000,100000,100000,100000,100000,100000]".to_string());
}


// ------------------------------------------------------------------------------------------------
// systematic part: every frame type x declared size x delivered length at the boundaries, every
// string / UTF-8 class, every send-buffer guard at its boundary
// ------------------------------------------------------------------------------------------------

fn frame_with(code: &[u8; 4], declared: u32, total_len: usize, fill: u8) -> Vec<u8> {
    let mut v = code.to_vec();
    v.extend_from_slice(&declared.to_le_bytes());
    while v.len() < total_len {
        v.push(fill);
    }
    v.truncate(total_len.max(8));
    v
}

fn err_frame_with_reason(len_field: u32, reason: &[u8]) -> Vec<u8> {
    let mut v = b"ERRF".to_vec();
    v.extend_from_slice(&((16 + reason.len()) as u32).to_le_bytes());
    v.extend_from_slice(&0x80010000u32.to_le_bytes());
    v.extend_from_slice(&len_field.to_le_bytes());
    v.extend_from_slice(reason);
    v
}

fn hel_frame_with_url(len_field: u32, url: &[u8], extra: usize) -> Vec<u8> {
    let mut v = b"HELF".to_vec();
    v.extend_from_slice(&((32 + url.len() + extra) as u32).to_le_bytes());
    for x in [0u32, 8196, 8196, 0, 0] {
        v.extend_from_slice(&x.to_le_bytes());
    }
    v.extend_from_slice(&len_field.to_le_bytes());
    v.extend_from_slice(url);
    v.extend(std::iter::repeat(0u8).take(extra));
    v
}

pub fn gen_systematic(rng: &mut Rng, out: &mut Vec<String>) {
    // (1) header x size x delivered length
    let codes: [&[u8; 4]; 11] = [b"HELF", b"ACKF", b"ERRF", b"MSGF", b"MSGC", b"MSGA", b"OPNF", b"CLOF", b"HELC", b"XXXF", b"MSGX"];
    for max_msg in [0u32, 64] {
        for code in codes {
            out.push(format!("reset rx {} 100", max_msg));
            let mut sizes: Vec<u32> = vec![0, 1, 7, 8, 9, 11, 12, 13, 27, 28, 29, 32, 40];
            if max_msg > 0 {
                sizes.extend([max_msg - 1, max_msg, max_msg + 1, max_msg + 2, u32::MAX]);
            }
            for size in sizes {
                for delivered in [size as i64 - 1, size as i64, size as i64 + 1, 8, 9] {
                    if delivered < 1 || delivered > 200 {
                        continue;
                    }
                    let f = frame_with(code, size, delivered as usize, 0);
                    out.push(format!("stream [] x{}", hex(&f[..(delivered as usize).min(f.len())])));
                }
            }
        }
    }
    // (1b) type codes that agree with a valid code in only one or two of the three letters (and every letter of one
    //      code combined with the letters of the others), with each final flag
    out.push("reset rx 0 100".to_string());
    let valid: [&[u8; 3]; 6] = [b"HEL", b"ACK", b"ERR", b"MSG", b"OPN", b"CLO"];
    for a in valid {
        for b2 in valid {
            for c in valid {
                if a == b2 && b2 == c {
                    continue;
                }
                // letters taken position-wise from three codes; skip most of the 216 combinations deterministically
                let code = [a[0], b2[1], c[2]];
                let same01 = a == b2;
                let same12 = b2 == c;
                let same02 = a == c;
                if !(same01 || same12 || same02) && (a[0] as usize + b2[1] as usize + c[2] as usize) % 5 != 0 {
                    continue;
                }
                for fin in [b'F', b'C'] {
                    let f = frame_with(&[code[0], code[1], code[2], fin], 28, 28, 0);
                    out.push(format!("stream [] x{}", hex(&f)));
                }
            }
        }
    }
    for a in valid {
        for pos in 0..3 {
            let mut code = *a;
            code[pos] = b'X';
            let f = frame_with(&[code[0], code[1], code[2], b'F'], 28, 28, 0);
            out.push(format!("stream [] x{}", hex(&f)));
        }
    }
    // (2) strings: null, negative, around max_string_length, short, trailing bytes — in HEL and ERR
    for max_str in [0u32, 4, 30] {
        out.push(format!("reset rx 0 {}", max_str));
        for len_field in [u32::MAX, u32::MAX - 1, 0x8000_0000, 0x7fff_ffff] {
            out.push(format!("stream [] x{}", hex(&err_frame_with_reason(len_field, b""))));
            out.push(format!("stream [] x{}", hex(&hel_frame_with_url(len_field, b"", 0))));
        }
        for l in [0u32, 1, max_str.saturating_sub(1), max_str, max_str + 1, max_str + 2] {
            let body = vec![b'a'; l as usize];
            out.push(format!("stream [] x{}", hex(&err_frame_with_reason(l, &body))));
            out.push(format!("stream [] x{}", hex(&hel_frame_with_url(l, &body, 0))));
            out.push(format!("stream [] x{}", hex(&hel_frame_with_url(l, &body, 3)))); // trailing bytes
            if l > 0 {
                out.push(format!("stream [] x{}", hex(&err_frame_with_reason(l, &body[1..])))); // one byte short
                out.push(format!("stream [] x{}", hex(&hel_frame_with_url(l + 5, &body, 0)))); // far short
            }
        }
    }
    // (3) UTF-8: every class of `String::from_utf8`, valid and at each way of being invalid
    out.push("reset rx 0 100".to_string());
    let seqs: Vec<Vec<u8>> = vec![
        vec![0x41], vec![0x7f], vec![0x80], vec![0xbf], vec![0xc0, 0x80], vec![0xc1, 0xbf], vec![0xc2, 0x80], vec![0xdf, 0xbf],
        vec![0xc2], vec![0xc2, 0x7f], vec![0xc2, 0xc0],
        vec![0xe0, 0xa0, 0x80], vec![0xe0, 0x9f, 0x80], vec![0xe0, 0xa0], vec![0xe0, 0xa0, 0x7f],
        vec![0xe1, 0x80, 0x80], vec![0xe1, 0x7f, 0x80], vec![0xe1, 0x80, 0xc0], vec![0xec, 0xbf, 0xbf],
        vec![0xed, 0x9f, 0xbf], vec![0xed, 0xa0, 0x80], vec![0xed, 0x80, 0x7f], vec![0xee, 0x80, 0x80], vec![0xef, 0xbf, 0xbf],
        vec![0xf0, 0x90, 0x80, 0x80], vec![0xf0, 0x8f, 0x80, 0x80], vec![0xf0, 0x90, 0x80], vec![0xf0, 0x90, 0x7f, 0x80],
        vec![0xf0, 0x90, 0x80, 0xc0], vec![0xf1, 0x80, 0x80, 0x80], vec![0xf1, 0xc0, 0x80, 0x80], vec![0xf3, 0xbf, 0xbf, 0xbf],
        vec![0xf3, 0x80, 0x80, 0x7f], vec![0xf4, 0x8f, 0xbf, 0xbf], vec![0xf4, 0x90, 0x80, 0x80], vec![0xf4, 0x80, 0x7f, 0x80],
        vec![0xf5, 0x80, 0x80, 0x80], vec![0xff],
    ];
    for sq in &seqs {
        for prefix in [&b""[..], &b"a"[..]] {
            let mut b = prefix.to_vec();
            b.extend_from_slice(sq);
            out.push(format!("stream [] x{}", hex(&err_frame_with_reason(b.len() as u32, &b))));
            b.push(b'z');
            out.push(format!("stream [] x{}", hex(&err_frame_with_reason(b.len() as u32, &b))));
        }
    }
    // (4) segmentation of two frames at every single cut and bytewise; feed ops incl. empty segment, after error, eof
    let mut two = frame_with(b"MSGF", 14, 14, 7);
    two.extend(frame_with(b"ACKF", 28, 28, 1));
    out.push("reset rx 0 100".to_string());
    for cut in 1..two.len() {
        out.push(format!("stream [{}] x{}", cut, hex(&two)));
    }
    let ones: Vec<String> = (0..two.len()).map(|_| "1".to_string()).collect();
    out.push(format!("stream [{}] x{}", ones.join(","), hex(&two)));
    out.push("reset rx 0 100".to_string());
    out.push("eof".to_string());
    out.push("feed x".to_string());
    out.push(format!("feed x{}", hex(&two[..1])));
    out.push(format!("feed x{}", hex(&two[1..20])));
    out.push("eof".to_string());
    out.push(format!("feed x{}", hex(&two[20..])));
    out.push("eof".to_string());
    out.push("feed x58585846090000000000".to_string());
    out.push("feed x00".to_string());
    out.push("eof".to_string());
    // (5) send buffer: buffer size around the minimum, body around max_message_size, chunk count around the limit
    for bs in [0usize, 100, 8195, 8196, 8197] {
        out.push(format!("reset tx {} 0 0 1 1 1", bs));
        let m = read_request_padded(rng, 0, Some(60));
        let (nid, bytes) = message_bytes(&m);
        out.push(format!("write 7 {} x{}", nid, hex(&bytes)));
        out.push("pump [100000,100000]".to_string());
    }
    let opn_cap = 8196 - 79;
    let base = message_bytes(&channel_message("opn-req", 1)).1.len() - 1;
    for kind in ["opn-req", "opn-resp", "clo-req", "clo-resp"] {
        for total in [0usize, opn_cap - 1, opn_cap, opn_cap + 1, 2 * opn_cap, 2 * opn_cap + 1] {
            for mc in [0usize, 2] {
                out.push(format!("reset tx 8196 0 {} 3 9 1", mc));
                let nonce = if total == 0 { 0 } else { total.saturating_sub(base) };
                let m = channel_message(kind, nonce);
                let (nid, bytes) = message_bytes(&m);
                out.push(format!("write 7 {} x{}", nid, hex(&bytes)));
                out.push("write 8 4 x01007702000000000000000000008202000000000000ffffffff0000000000000000000000000000000200000000000000".to_string());
                out.push("pump [100000,100000,100000,100000,100000,100000]".to_string());
                if kind.starts_with("clo") {
                    break;
                }
            }
            if kind.starts_with("clo") {
                break;
            }
        }
    }
    for mm in [99usize, 100, 101] {
        // node id (4) + body: body = 96 + ... ; total 104 -> body 100
        out.push(format!("reset tx 8196 {} 0 1 1 {}", mm, b(mm % 2 == 0)));
        let m = read_request_padded(rng, 0, Some(104));
        let (nid, bytes) = message_bytes(&m);
        out.push(format!("write 7 {} x{}", nid, hex(&bytes)));
    }
    let cap = 8196 - 24;
    for mc in [0usize, 1, 2, 3] {
        for total in [cap - 1, cap, cap + 1, 2 * cap - 1, 2 * cap, 2 * cap + 1, 3 * cap, 3 * cap + 1] {
            out.push(format!("reset tx 8196 0 {} 1 1 1", mc));
            let m = read_request_padded(rng, 0, Some(total));
            let (nid, bytes) = message_bytes(&m);
            out.push(format!("write 7 {} x{}", nid, hex(&bytes)));
            out.push("enc".to_string());
            out.push("write 8 4 x01007702000000000000000000008202000000000000ffffffff0000000000000000000000000000000200000000000000".to_string());
            out.push("enc".to_string());
            // accept 0, 1, all-but-one, exactly what is left, more than what is left
            out.push("sink 0".to_string());
            out.push("sink 1".to_string());
            let first = total.min(cap) + 24;
            out.push(format!("sink {}", first - 3));
            out.push("sink 1".to_string());
            out.push("sink 1".to_string());
            out.push("sink 5".to_string());
            out.push("enc".to_string());
            out.push(format!("sink {}", 8196));
            out.push("enc".to_string());
            out.push(format!("sink {}", 100000));
            out.push("pump [1,100000,100000,100000]".to_string());
            out.push("sink 3".to_string());
            out.push("enc".to_string());
            out.push("nextid".to_string());
        }
    }
}

impl Prop for C11 {
    fn id(&self) -> &'static str {
        "C11"
    }

    fn gen(&self, rng: &mut Rng, n: usize, tier: Tier, out: &mut Vec<String>) {
        gen_systematic(&mut Rng::new(7), out);
        for i in 0..n {
            if tier == Tier::Thorough && i % 500 == 0 {
                gen_rx_exhaustive(rng, out);
            }
            if rng.chance(3, 4) {
                gen_rx(rng, tier, out)
            } else {
                gen_tx(rng, tier, out)
            }
        }
    }

    fn runner(&self) -> Box<dyn Runner> {
        Box::new(R::new())
    }
}

// ------------------------------------------------------------------------------------------------
// runner
// ------------------------------------------------------------------------------------------------

struct Rx {
    max_msg: usize,
    max_str: usize,
    codec: TcpCodec,
    buf: BytesMut,
    dead: bool,
    /// every byte delivered so far and every frame produced so far (for the oracle)
    all_bytes: Vec<u8>,
    all_frames: Vec<String>,
}

pub struct Tx {
    pub sb: VSendBuffer,
    pub sc: SecureChannel,
    rt: tokio::runtime::Runtime,
    buffer_size: usize,
    max_msg: usize,
    /// (request id, number of chunks) of every accepted write — used by C12
    pub writes: Vec<(u32, usize)>,
    /// reference, written from the property text: the concatenation of the secured chunks of every
    /// accepted message, in order; and what the sink received so far
    pub expected: Vec<u8>,
    pub emitted: Vec<u8>,
    pub chunks_total: u32,
    messages: Vec<SupportedMessage>,
    pub lost: bool,
}

pub struct R {
    rx: Option<Rx>,
    pub tx: Option<Tx>,
}

impl R {
    pub fn new() -> R {
        R { rx: None, tx: None }
    }
}

/// frames of the whole stream delivered in ONE read to a fresh codec
fn reference_frames(max_msg: usize, max_str: usize, bytes: &[u8]) -> (Vec<String>, bool) {
    let mut codec = TcpCodec::new(decoding_options(max_msg, max_str));
    let mut buf = BytesMut::from(bytes);
    drain(&mut codec, &mut buf)
}

impl Rx {
    fn new(max_msg: usize, max_str: usize) -> Rx {
        Rx {
            max_msg,
            max_str,
            codec: TcpCodec::new(decoding_options(max_msg, max_str)),
            buf: BytesMut::new(),
            dead: false,
            all_bytes: Vec::new(),
            all_frames: Vec::new(),
        }
    }

    fn feed(&mut self, seg: &[u8]) -> (Vec<String>, bool) {
        self.all_bytes.extend_from_slice(seg);
        if self.dead {
            return (vec![], true);
        }
        self.buf.extend_from_slice(seg);
        let (fs, e) = drain(&mut self.codec, &mut self.buf);
        self.all_frames.extend(fs.iter().cloned());
        if e {
            self.dead = true;
        }
        (fs, e)
    }

    /// the property on the implementation's outputs: frames (and the error) produced by the
    /// segmented delivery equal those of the unsegmented delivery of the same bytes
    fn oracle(&self, class: &str) -> Verdict {
        let (want, want_err) = reference_frames(self.max_msg, self.max_str, &self.all_bytes);
        if self.all_frames != want {
            return Verdict::fail(
                "frames_equal",
                class,
                format!("segmented run gave {} frames, one read gives {}", self.all_frames.len(), want.len()),
            );
        }
        if self.dead != want_err {
            return Verdict::fail("error_equal", class, format!("segmented err={} whole err={}", self.dead, want_err));
        }
        Verdict::Ok
    }
}

impl Tx {
    fn flags(&self) -> String {
        format!("cr={} se={}", b(self.sb.can_read()), b(self.sb.should_encode_chunks()))
    }

    fn sink(&mut self, k: usize) -> Vec<u8> {
        let mut s = Sink { accept: k, got: Vec::new() };
        let sb = &mut self.sb;
        self.rt.block_on(async { sb.read_into_async(&mut s).await }).expect("sink never fails");
        self.emitted.extend_from_slice(&s.got);
        s.got
    }

    fn oracle(&self, class: &str) -> Verdict {
        if self.lost {
            return Verdict::Ok; // an error was reported to the caller; the transport closes
        }
        if !self.expected.starts_with(&self.emitted) {
            return Verdict::fail("emitted_is_prefix", class, "sink bytes are not a prefix of the secured chunks");
        }
        // should_encode_chunks = !chunks.is_empty() && !can_read, so this means "nothing queued, nothing buffered"
        let idle = !self.sb.can_read() && !self.sb.should_encode_chunks();
        if idle && self.emitted.len() != self.expected.len() {
            return Verdict::fail(
                "nothing_lost",
                class,
                format!("idle with {} of {} bytes emitted", self.emitted.len(), self.expected.len()),
            );
        }
        if idle {
            // end to end: the emitted stream frames and reassembles to the messages written
            let mut codec = TcpCodec::new(DecodingOptions::default());
            let mut buf = BytesMut::from(&self.emitted[..]);
            let mut chunks: Vec<MessageChunk> = Vec::new();
            let mut got = Vec::new();
            loop {
                match codec.decode(&mut buf) {
                    Ok(Some(Message::Chunk(c))) => {
                        let fin = c.data[3] == b'F';
                        chunks.push(c);
                        if fin {
                            match Chunker::decode(&chunks, &self.sc, None) {
                                Ok(m) => got.push(message_bytes(&m).1),
                                Err(e) => return Verdict::fail("reassembles", class, format!("{}", e)),
                            }
                            chunks.clear();
                        }
                    }
                    Ok(None) => break,
                    _ => return Verdict::fail("reassembles", class, "emitted stream does not frame"),
                }
            }
            let want: Vec<Vec<u8>> = self.messages.iter().map(|m| message_bytes(m).1).collect();
            if got != want || !buf.is_empty() || !chunks.is_empty() {
                return Verdict::fail("reassembles", class, "messages read back differ from messages written");
            }
        }
        Verdict::Ok
    }
}

impl Runner for R {
    fn step(&mut self, toks: &[&str]) -> (String, Verdict) {
        match toks {
            ["reset", "rx", m, l] => {
                self.tx = None;
                self.rx = Some(Rx::new(m.parse().unwrap(), l.parse().unwrap()));
                ("ok".to_string(), Verdict::Ok)
            }
            ["reset", "tx", bs, mm, mc, ch, tk, cl] => {
                self.rx = None;
                let bs: usize = bs.parse().unwrap();
                let mm: usize = mm.parse().unwrap();
                self.tx = Some(Tx {
                    sb: VSendBuffer::new(bs, mm, mc.parse().unwrap()),
                    sc: client_channel(ch.parse().unwrap(), tk.parse().unwrap(), *cl == "1"),
                    rt: tokio::runtime::Builder::new_current_thread().build().unwrap(),
                    buffer_size: bs,
                    max_msg: mm,
                    writes: Vec::new(),
                    expected: Vec::new(),
                    emitted: Vec::new(),
                    chunks_total: 0,
                    messages: Vec::new(),
                    lost: false,
                });
                ("ok".to_string(), Verdict::Ok)
            }
            ["feed", h] => {
                let (Some(rx), Some(seg)) = (self.rx.as_mut(), unhex(h)) else {
                    return ("bad-op".to_string(), Verdict::Ok);
                };
                let (fs, e) = rx.feed(&seg);
                let buf = if rx.dead { "-".to_string() } else { rx.buf.len().to_string() };
                (format!("ok f=[{}] e={} buf={}", fs.join(","), b(e), buf), rx.oracle("feed"))
            }
            ["eof"] => {
                let Some(rx) = self.rx.as_mut() else {
                    return ("bad-op".to_string(), Verdict::Ok);
                };
                let clean = if rx.dead {
                    false
                } else {
                    match rx.codec.decode_eof(&mut rx.buf) {
                        Ok(None) => true,
                        Ok(Some(_)) => {
                            return ("ok clean=?".to_string(), Verdict::fail("frames_equal", "eof", "frame produced at eof after a drain"))
                        }
                        Err(_) => false,
                    }
                };
                (format!("ok clean={}", b(clean)), rx.oracle("eof"))
            }
            ["stream", cuts, h] => {
                let (Some(old), Some(bytes)) = (self.rx.as_ref(), unhex(h)) else {
                    return ("bad-op".to_string(), Verdict::Ok);
                };
                let mut rx = Rx::new(old.max_msg, old.max_str);
                let inner = &cuts[1..cuts.len() - 1];
                let mut p = 0;
                if !inner.is_empty() {
                    for k in inner.split(',') {
                        let k: usize = k.parse().unwrap();
                        if p >= bytes.len() {
                            break;
                        }
                        let e = (p + k).min(bytes.len());
                        rx.feed(&bytes[p..e]);
                        p = e;
                    }
                }
                if p < bytes.len() {
                    rx.feed(&bytes[p..]);
                }
                let clean = !rx.dead && matches!(rx.codec.decode_eof(&mut rx.buf), Ok(None));
                let v = rx.oracle("stream");
                let line = format!("ok f=[{}] e={} clean={}", rx.all_frames.join(","), b(rx.dead), b(clean));
                self.rx = Some(rx);
                (line, v)
            }
            ["write", req, _nid, h] => {
                let (Some(tx), Some(bytes)) = (self.tx.as_mut(), unhex(h)) else {
                    return ("bad-op".to_string(), Verdict::Ok);
                };
                let Some(msg) = message_from_bytes(&bytes) else {
                    return ("bad-op".to_string(), Verdict::Ok);
                };
                let req: u32 = req.parse().unwrap();
                // reference: the secured chunks of this message, numbered after all earlier chunks
                // (numbering from 1 first: tells how many chunks the message needs)
                let need = Chunker::encode(1, req, tx.max_msg, tx.buffer_size, &tx.sc, &msg).map(|c| c.len()).unwrap_or(0);
                let wraps = tx.chunks_total as u64 + need as u64 > u32::MAX as u64;
                let reference = if wraps {
                    Err(StatusCode::BadUnexpectedError)
                } else {
                    Chunker::encode(tx.chunks_total + 1, req, tx.max_msg, tx.buffer_size, &tx.sc, &msg)
                };
                let res = {
                    let (sb, sc) = (&mut tx.sb, &tx.sc);
                    std::panic::catch_unwind(std::panic::AssertUnwindSafe(|| sb.write(req, msg.clone(), sc)))
                };
                let res = match res {
                    Ok(r) => r,
                    Err(_) => {
                        // class from the input: the sender counter would pass u32::MAX
                        let class = if wraps { "seq-wrap" } else { "-" };
                        return ("panic".to_string(), Verdict::fail("no_panic", class, "SendBuffer::write panicked"));
                    }
                };
                match res {
                    Ok(r) => {
                        let Ok(chunks) = reference else {
                            return ("ok ?".to_string(), Verdict::fail("write_accepts", "write", "write accepted a message the chunker rejects"));
                        };
                        let mut tmp = vec![0u8; 1 << 20];
                        for c in &chunks {
                            let n = tx.sc.apply_security(c, &mut tmp).unwrap();
                            tx.expected.extend_from_slice(&tmp[..n]);
                        }
                        tx.chunks_total += chunks.len() as u32;
                        tx.writes.push((req, chunks.len()));
                        tx.messages.push(msg);
                        let v = if r != req {
                            Verdict::fail("write_accepts", "write", "returned another request id")
                        } else {
                            tx.oracle("write")
                        };
                        (format!("ok n={} {}", chunks.len(), tx.flags()), v)
                    }
                    Err(e) => (format!("err {}", e.name()), Verdict::Ok),
                }
            }
            ["nextid"] => {
                let Some(tx) = self.tx.as_mut() else {
                    return ("bad-op".to_string(), Verdict::Ok);
                };
                (format!("ok {}", tx.sb.next_request_id()), Verdict::Ok)
            }
            ["enc"] => {
                let Some(tx) = self.tx.as_mut() else {
                    return ("bad-op".to_string(), Verdict::Ok);
                };
                match tx.sb.encode_next_chunk(&tx.sc) {
                    Ok(()) => (format!("ok {}", tx.flags()), tx.oracle("enc")),
                    Err(e) => {
                        if e != StatusCode::BadInvalidState {
                            tx.lost = true;
                        }
                        (format!("err {}", e.name()), Verdict::Ok)
                    }
                }
            }
            ["sink", k] => {
                let Some(tx) = self.tx.as_mut() else {
                    return ("bad-op".to_string(), Verdict::Ok);
                };
                let got = tx.sink(k.parse().unwrap());
                (format!("ok x{} {}", hex(&got), tx.flags()), tx.oracle("sink"))
            }
            ["pump", ks] => {
                let Some(tx) = self.tx.as_mut() else {
                    return ("bad-op".to_string(), Verdict::Ok);
                };
                let inner = &ks[1..ks.len() - 1];
                let mut got = Vec::new();
                let mut status = "ok".to_string();
                if !inner.is_empty() {
                    for k in inner.split(',') {
                        let k: usize = k.parse().unwrap();
                        // client/transport/tcp.rs poll_inner, send half
                        if tx.sb.should_encode_chunks() {
                            if let Err(e) = tx.sb.encode_next_chunk(&tx.sc) {
                                tx.lost = true;
                                status = format!("err {}", e.name());
                                break;
                            }
                        }
                        if tx.sb.can_read() {
                            got.extend(tx.sink(k));
                        }
                    }
                }
                (format!("{} x{} {}", status, hex(&got), tx.flags()), tx.oracle("pump"))
            }
            _ => ("bad-op".to_string(), Verdict::Ok),
        }
    }
}
