//! C23 — revised subscription and monitored item parameters respect the limits.
//!
//! Calls the real `revise_subscription_values`, `sanitize_sampling_interval`, `sanitize_queue_size`
//! directly (hooks) and through CreateSubscription / ModifySubscription / `MonitoredItem::new` /
//! `Subscription::create_monitored_items`, under varying limits in `ServerState`.
use crate::common::*;
use crate::fixtures;
use crate::subs_util::{ensure_variable, var_id};
use opcua::server::diagnostics::ServerDiagnostics;
use opcua::server::prelude::*;
use opcua::server::session::Session;
use opcua::server::subscriptions::subscription::Subscription;
use opcua::sync::RwLock;
use opcua::verif_hooks::subs as hooks;
use opcua::verif_hooks::subs::VMonitoredItem;
use std::sync::Arc;

pub struct C23;
pub static P: C23 = C23;

fn ff(v: f64) -> String {
    format!("f{:016x}", v.to_bits())
}

fn pf(s: &str) -> f64 {
    f64::from_bits(u64::from_str_radix(&s[1..], 16).unwrap())
}

/// interesting doubles around `m` (a limit) and in general
fn gen_f64(rng: &mut Rng, m: f64) -> f64 {
    let near = |x: f64, d: i64| f64::from_bits((x.to_bits() as i64 + d) as u64);
    match rng.weighted(&[4, 8, 6, 3, 3]) {
        0 => *rng.pick(&[0.0, -0.0, f64::NAN, f64::INFINITY, f64::NEG_INFINITY, f64::from_bits(0xfff8_0000_0000_0001), f64::from_bits(0x7ff0_0000_0000_0001)]),
        1 => {
            if m.is_finite() && m > 0.0 {
                *rng.pick(&[m, near(m, 1), near(m, -1), m * 2.0, m / 2.0, m + 1.0, m - 1.0])
            } else {
                1.0
            }
        }
        2 => *rng.pick(&[-1.0, -0.5, -1e-320, -5e-324, 5e-324, 1e-320, 1e-3, 1.0, 50.0, 99.999, 100.0, 100.001, 250.0, 1000.0, 60_000.0, 1e9, 1e300, f64::MAX, f64::MIN, f64::MIN_POSITIVE]),
        3 => f64::from_bits(rng.next()),
        _ => (rng.below(200_000) as f64) / 100.0,
    }
}

fn gen_u32(rng: &mut Rng, around: &[u64]) -> u64 {
    match rng.weighted(&[3, 6, 2, 2]) {
        0 => *rng.pick(&[0u64, 1, 2, 3, u32::MAX as u64, u32::MAX as u64 - 1]),
        1 => {
            let a = *rng.pick(around);
            (a as i64 + rng.range(-2, 2)).clamp(0, u32::MAX as i64) as u64
        }
        2 => rng.below(100),
        _ => rng.below(u32::MAX as u64 + 1),
    }
}

impl Prop for C23 {
    fn id(&self) -> &'static str {
        "C23"
    }

    fn gen(&self, rng: &mut Rng, n: usize, _tier: Tier, out: &mut Vec<String>) {
        // (1) small-scope exhaustive part: small limits, every keep-alive / lifetime / queue request
        // around every comparison, every special double through every path
        out.push(format!("reset {} {} 1 2 7 3", ff(100.0), ff(100.0)));
        for ka in 0..5u64 {
            for life in 0..10u64 {
                out.push(format!("rev {} {} {}", ff(100.0), ka, life));
            }
        }
        let specials = [0.0, -0.0, f64::NAN, f64::from_bits(0xfff8_0000_0000_0001), f64::INFINITY, f64::NEG_INFINITY, -1.0, -5e-324, 5e-324,
            f64::from_bits(100.0f64.to_bits() - 1), 100.0, f64::from_bits(100.0f64.to_bits() + 1), 1e300];
        for path in ["samp", "item", "mitem", "moditem", "mmitem"] {
            out.push(format!("reset {} {} 1 2 7 3", ff(100.0), ff(100.0)));
            for x in specials {
                for q in 0..6u64 {
                    if path == "samp" {
                        if q == 0 {
                            out.push(format!("samp {}", ff(x)));
                        }
                        continue;
                    }
                    if q < 2 || x == 100.0 {
                        out.push(format!("{} {} {}", path, ff(x), q));
                    }
                }
            }
            for q in 0..6u64 {
                out.push(format!("queue {}", q));
            }
        }
        out.push(format!("reset {} {} 1 2 7 3", ff(100.0), ff(100.0)));
        for (i, x) in specials.iter().enumerate() {
            let op = if i % 4 == 0 { "create" } else { "modify" };
            out.push(format!("{} {} {} {}", op, ff(*x), i % 5, (i * 3) % 10));
        }
        // (2) random part
        for _ in 0..n {
            // limits: mostly sane (as the server sets them), sometimes not
            let sane = !rng.chance(1, 6);
            let min_pub = if sane || rng.chance(1, 2) { *rng.pick(&[100.0, 100.0, 1.0, 0.5, 1000.0, 1e-3, 5e-324, 1e300]) } else { *rng.pick(&[f64::NAN, -5.0, f64::INFINITY]) };
            let min_samp = if sane || rng.chance(1, 2) { *rng.pick(&[100.0, 100.0, 1.0, 0.25, 5000.0, 1e-3, 5e-324]) } else { *rng.pick(&[f64::NAN, -5.0, f64::INFINITY]) };
            let max_ka: u64 = if sane { *rng.pick(&[1u64, 2, 5, 100, 30000, 30000, 1_431_655_765]) } else { *rng.pick(&[0u64, 30000, 1_431_655_766, 2_147_483_648, u32::MAX as u64]) };
            let def_ka: u64 = if sane { *rng.pick(&[1, max_ka, (max_ka / 2).max(1), 10.min(max_ka)]) } else { *rng.pick(&[0, 10, max_ka + 1, u32::MAX as u64]) }.min(u32::MAX as u64);
            let max_life: u64 = if sane { (3 * max_ka + *rng.pick(&[0u64, 0, 1, 10, 100_000])).min(u32::MAX as u64) } else { *rng.pick(&[0u64, 1, max_ka, 3 * max_ka.min(1000) , u32::MAX as u64]) }.min(u32::MAX as u64);
            let max_q: u64 = if sane { *rng.pick(&[1u64, 2, 10, 10, 1000]) } else { *rng.pick(&[0u64, 1, 10]) };
            out.push(format!("reset {} {} {} {} {} {}", ff(min_pub), ff(min_samp), def_ka, max_ka, max_life, max_q));
            let mut creates = 0;
            for _ in 0..rng.range(8, 30) {
                match rng.weighted(&[6, 2, 2, 6, 3, 2, 2, 2, 2]) {
                    k @ (0 | 1 | 2) => {
                        let i = gen_f64(rng, min_pub);
                        let ka = gen_u32(rng, &[max_ka, def_ka]);
                        let revised_ka = if ka > max_ka { max_ka } else if ka == 0 { def_ka } else { ka };
                        let life = gen_u32(rng, &[3 * revised_ka, max_life, 3 * max_ka]);
                        let op = match k {
                            0 => "rev",
                            1 if creates < 4 => {
                                creates += 1;
                                "create"
                            }
                            1 => "rev",
                            _ => "modify",
                        };
                        out.push(format!("{} {} {} {}", op, ff(i), ka, life));
                    }
                    3 => out.push(format!("samp {}", ff(gen_f64(rng, min_samp)))),
                    4 => out.push(format!("queue {}", gen_u32(rng, &[max_q]))),
                    5 => out.push(format!("item {} {}", ff(gen_f64(rng, min_samp)), gen_u32(rng, &[max_q]))),
                    6 => out.push(format!("mitem {} {}", ff(gen_f64(rng, min_samp)), gen_u32(rng, &[max_q]))),
                    7 => out.push(format!("moditem {} {}", ff(gen_f64(rng, min_samp)), gen_u32(rng, &[max_q]))),
                    _ => out.push(format!("mmitem {} {}", ff(gen_f64(rng, min_samp)), gen_u32(rng, &[max_q]))),
                }
            }
        }
    }

    fn runner(&self) -> Box<dyn Runner> {
        Box::new(R {
            session: None,
            last_sub: None,
            lim: Lim { min_pub: 100.0, min_samp: 100.0, def_ka: 10, max_ka: 30000, max_life: 90000, max_q: 10 },
        })
    }
}

#[derive(Clone, Copy)]
struct Lim {
    min_pub: f64,
    min_samp: f64,
    def_ka: u64,
    max_ka: u64,
    max_life: u64,
    max_q: u64,
}

impl Lim {
    /// limits a server can sensibly be given (DESIGN §7 C23 `LimitsSane`); the property's
    /// inequalities are only claimed under them
    fn sane(&self) -> bool {
        !self.min_pub.is_nan()
            && !self.min_samp.is_nan()
            && self.def_ka >= 1
            && self.def_ka <= self.max_ka
            && 3 * self.max_ka <= self.max_life
            && 3 * self.max_ka < (1u64 << 32)
            && self.max_q >= 1
    }
}

struct R {
    session: Option<Arc<RwLock<Session>>>,
    last_sub: Option<u32>,
    lim: Lim,
}

fn f_class(x: f64, min: f64) -> &'static str {
    if x.is_nan() {
        "nan"
    } else if x.is_infinite() {
        "inf"
    } else if x < 0.0 {
        "negative"
    } else if x == 0.0 {
        "zero"
    } else if x < min {
        "below-min"
    } else {
        "ge-min"
    }
}

impl R {
    fn header() -> RequestHeader {
        RequestHeader::new(&NodeId::null(), &DateTime::now(), 1)
    }

    fn check_sub(&self, input_interval: f64, i: f64, ka: u32, life: u32) -> Verdict {
        let l = &self.lim;
        let class = if !l.sane() { "insane-limits".to_string() } else { format!("interval-{}", f_class(input_interval, l.min_pub)) };
        if !l.sane() {
            return Verdict::Ok;
        }
        if !(i >= l.min_pub) {
            return Verdict::fail("interval_ge_min", &class, format!("revised interval {} < min {}", i, l.min_pub));
        }
        if !(ka as u64 >= 1 && ka as u64 <= l.max_ka) {
            return Verdict::fail("ka_in_range", &class, format!("revised keep-alive {} not in 1..={}", ka, l.max_ka));
        }
        if (life as u64) < 3 * ka as u64 {
            return Verdict::fail("life_ge_3ka", &class, format!("revised lifetime {} < 3 * {}", life, ka));
        }
        Verdict::Ok
    }

    fn check_samp(&self, input: f64, s: f64) -> Verdict {
        let l = &self.lim;
        if !l.sane() {
            return Verdict::Ok;
        }
        let class = format!("sampling-{}", f_class(input, l.min_samp));
        if !(s == -1.0 || s >= l.min_samp) {
            return Verdict::fail("sampling_ok", &class, format!("revised sampling interval {} is neither -1 nor >= {}", s, l.min_samp));
        }
        Verdict::Ok
    }

    fn check_queue(&self, q: u64) -> Verdict {
        let l = &self.lim;
        if !l.sane() {
            return Verdict::Ok;
        }
        if !(q >= 1 && q <= l.max_q) {
            return Verdict::fail("queue_in_range", "queue", format!("revised queue size {} not in 1..={}", q, l.max_q));
        }
        Verdict::Ok
    }

    fn first(a: Verdict, b: Verdict) -> Verdict {
        match a {
            Verdict::Ok => b,
            f => f,
        }
    }
}

fn item_request(samp: f64, queue: u32) -> MonitoredItemCreateRequest {
    MonitoredItemCreateRequest {
        item_to_monitor: ReadValueId {
            node_id: var_id(),
            attribute_id: AttributeId::Value as u32,
            index_range: UAString::null(),
            data_encoding: QualifiedName::null(),
        },
        monitoring_mode: MonitoringMode::Reporting,
        requested_parameters: MonitoringParameters {
            client_handle: 1,
            sampling_interval: samp,
            filter: ExtensionObject::null(),
            queue_size: queue,
            discard_oldest: true,
        },
    }
}

impl Runner for R {
    fn step(&mut self, toks: &[&str]) -> (String, Verdict) {
        let fx = fixtures::server();
        // a float token is `f` + exactly 16 hex digits
        if toks.iter().skip(1).any(|t| t.starts_with('f') && (t.len() != 17 || u64::from_str_radix(&t[1..], 16).is_err())) {
            return ("bad-op".to_string(), Verdict::Ok);
        }
        match toks {
            ["reset", a, b_, c, d, e, q] => {
                let lim = Lim {
                    min_pub: pf(a),
                    min_samp: pf(b_),
                    def_ka: c.parse().unwrap(),
                    max_ka: d.parse().unwrap(),
                    max_life: e.parse().unwrap(),
                    max_q: q.parse().unwrap(),
                };
                ensure_variable(fx);
                {
                    let mut ss = fx.server_state.write();
                    ss.min_publishing_interval_ms = lim.min_pub;
                    ss.min_sampling_interval_ms = lim.min_samp;
                    ss.default_keep_alive_count = lim.def_ka as u32;
                    ss.max_keep_alive_count = lim.max_ka as u32;
                    ss.max_lifetime_count = lim.max_life as u32;
                    ss.max_monitored_item_queue_size = lim.max_q as usize;
                    ss.max_subscriptions = 100;
                }
                self.lim = lim;
                self.session = Some(Arc::new(RwLock::new(Session::new(fx.server_state.clone()))));
                self.last_sub = None;
                ("ok".to_string(), Verdict::Ok)
            }
            [op @ ("rev" | "create" | "modify"), i, k, l] => {
                let i = pf(i);
                let k: u32 = k.parse().unwrap();
                let l: u32 = l.parse().unwrap();
                let (ri, rk, rl, extra) = match *op {
                    "rev" => {
                        let ss = fx.server_state.read();
                        let (a, b, c) = hooks::revise_subscription_values(&ss, i, k, l);
                        (a, b, c, Verdict::Ok)
                    }
                    "create" => {
                        let session = self.session.as_ref().unwrap().clone();
                        let req = CreateSubscriptionRequest {
                            request_header: Self::header(),
                            requested_publishing_interval: i,
                            requested_lifetime_count: l,
                            requested_max_keep_alive_count: k,
                            max_notifications_per_publish: 0,
                            publishing_enabled: true,
                            priority: 0,
                        };
                        match hooks::create_subscription(fx.server_state.clone(), session.clone(), &req) {
                            SupportedMessage::CreateSubscriptionResponse(r) => {
                                self.last_sub = Some(r.subscription_id);
                                // the subscription must have been created with the revised values
                                let stored = hooks::session_subscription_params(&session.read(), r.subscription_id);
                                let ok = match stored {
                                    Some((ska, slife, sint, _)) => {
                                        ska == r.revised_max_keep_alive_count
                                            && slife == r.revised_lifetime_count
                                            && sint.to_bits() == r.revised_publishing_interval.to_bits()
                                    }
                                    None => false,
                                };
                                let extra = if ok { Verdict::Ok } else { Verdict::fail("response_matches_state", "create", format!("stored {:?}", stored)) };
                                (r.revised_publishing_interval, r.revised_max_keep_alive_count, r.revised_lifetime_count, extra)
                            }
                            other => return (format!("err {:?}", std::mem::discriminant(&other)), Verdict::fail("service_ok", "create", "unexpected response")),
                        }
                    }
                    _ => {
                        let Some(id) = self.last_sub else {
                            return ("err nosub".to_string(), Verdict::Ok);
                        };
                        let session = self.session.as_ref().unwrap().clone();
                        let req = ModifySubscriptionRequest {
                            request_header: Self::header(),
                            subscription_id: id,
                            requested_publishing_interval: i,
                            requested_lifetime_count: l,
                            requested_max_keep_alive_count: k,
                            max_notifications_per_publish: 0,
                            priority: 0,
                        };
                        match hooks::modify_subscription(fx.server_state.clone(), session.clone(), &req) {
                            SupportedMessage::ModifySubscriptionResponse(r) => {
                                let stored = hooks::session_subscription_params(&session.read(), id);
                                let ok = match stored {
                                    Some((ska, slife, sint, _)) => {
                                        ska == r.revised_max_keep_alive_count
                                            && slife == r.revised_lifetime_count
                                            && sint.to_bits() == r.revised_publishing_interval.to_bits()
                                    }
                                    None => false,
                                };
                                let extra = if ok { Verdict::Ok } else { Verdict::fail("response_matches_state", "modify", format!("stored {:?}", stored)) };
                                (r.revised_publishing_interval, r.revised_max_keep_alive_count, r.revised_lifetime_count, extra)
                            }
                            _ => return ("err service".to_string(), Verdict::fail("service_ok", "modify", "unexpected response")),
                        }
                    }
                };
                let v = Self::first(self.check_sub(i, ri, rk, rl), extra);
                (format!("ok {} {} {}", ff(ri), rk, rl), v)
            }
            ["samp", x] => {
                let x = pf(x);
                let s = {
                    let ss = fx.server_state.read();
                    VMonitoredItem::sanitize_sampling_interval(&ss, x)
                };
                (format!("ok {}", ff(s)), self.check_samp(x, s))
            }
            ["queue", n] => {
                let n: u64 = n.parse().unwrap();
                let q = {
                    let ss = fx.server_state.read();
                    VMonitoredItem::sanitize_queue_size(&ss, n as usize)
                };
                (format!("ok {}", q), self.check_queue(q as u64))
            }
            [op @ ("moditem" | "mmitem"), x, n] => {
                // the MODIFY paths: MonitoredItem::modify and Subscription::modify_monitored_items
                let x = pf(x);
                let n: u64 = n.parse().unwrap();
                let now = chrono::Utc::now();
                let ss = fx.server_state.read();
                let asp = fx.address_space.read();
                let create = item_request(-1.0, 1);
                let modify = MonitoredItemModifyRequest {
                    monitored_item_id: 1,
                    requested_parameters: MonitoringParameters {
                        client_handle: 1,
                        sampling_interval: x,
                        filter: ExtensionObject::null(),
                        queue_size: n as u32,
                        discard_oldest: true,
                    },
                };
                let (s, q) = if *op == "moditem" {
                    let mut it = VMonitoredItem::new(&now, 1, TimestampsToReturn::Both, &ss, &create).expect("item");
                    if let Err(e) = it.modify(&ss, &asp, TimestampsToReturn::Both, &modify) {
                        return (format!("err {}", e), Verdict::fail("service_ok", "moditem", "modify failed"));
                    }
                    (it.sampling_interval(), it.queue_size() as u64)
                } else {
                    let mut sub = Subscription::new(Arc::new(RwLock::new(ServerDiagnostics::default())), 1, true, 1000.0, 30, 10, 0);
                    let r = sub.create_monitored_items(&ss, &asp, &now, TimestampsToReturn::Both, &[create]);
                    let mut modify = modify;
                    modify.monitored_item_id = r[0].monitored_item_id;
                    let r = sub.modify_monitored_items(&ss, &asp, TimestampsToReturn::Both, &[modify]);
                    if !r[0].status_code.is_good() {
                        return (format!("err {}", r[0].status_code), Verdict::fail("service_ok", "mmitem", "modify_monitored_items failed"));
                    }
                    (r[0].revised_sampling_interval, r[0].revised_queue_size as u64)
                };
                let v = Self::first(self.check_samp(x, s), self.check_queue(q));
                (format!("ok {} {}", ff(s), q), v)
            }
            [op @ ("item" | "mitem"), x, n] => {
                let x = pf(x);
                let n: u64 = n.parse().unwrap();
                let req = item_request(x, n as u32);
                let now = chrono::Utc::now();
                let ss = fx.server_state.read();
                let (s, q) = if *op == "item" {
                    let it = VMonitoredItem::new(&now, 1, TimestampsToReturn::Both, &ss, &req).expect("item");
                    (it.sampling_interval(), it.queue_size() as u64)
                } else {
                    let asp = fx.address_space.read();
                    let mut sub = Subscription::new(Arc::new(RwLock::new(ServerDiagnostics::default())), 1, true, 1000.0, 30, 10, 0);
                    let r = sub.create_monitored_items(&ss, &asp, &now, TimestampsToReturn::Both, &[req]);
                    if !r[0].status_code.is_good() {
                        return (format!("err {}", r[0].status_code), Verdict::fail("service_ok", "mitem", "create_monitored_items failed"));
                    }
                    (r[0].revised_sampling_interval, r[0].revised_queue_size as u64)
                };
                let v = Self::first(self.check_samp(x, s), self.check_queue(q));
                (format!("ok {} {}", ff(s), q), v)
            }
            _ => ("bad-op".to_string(), Verdict::Ok),
        }
    }

    fn on_panic(&self, _toks: &[&str]) -> Verdict {
        if self.lim.sane() {
            Verdict::fail("no_panic", "sane-limits", "implementation panicked")
        } else {
            Verdict::Ok
        }
    }
}
