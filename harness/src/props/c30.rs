//! C30 — browsing in pages returns the full result exactly once; continuation points are single
//! use, invalid after release / after an address-space change, and bounded per session.
use crate::common::*;
use crate::fixtures;
use opcua::server::address_space::types::*;
use opcua::server::address_space::AddressSpace;
use opcua::server::prelude::*;
use opcua::server::session::Session;
use opcua::sync::RwLock;
use opcua::verif_hooks::view::{browse_continuation_point_count, VViewService};
use std::collections::HashMap;
use std::sync::Arc;

pub struct C30;
pub static P: C30 = C30;

const STD_TYPES: [u32; 10] = [31, 32, 33, 34, 35, 40, 44, 45, 46, 47];
/// HasSubtype edges (parent, child) of the standard reference types used; same table as
/// `parentTy` in the model
const SUBTYPE_EDGES: [(u32, u32); 9] = [
    (31, 32),
    (31, 33),
    (33, 34),
    (33, 35),
    (32, 40),
    (34, 44),
    (34, 45),
    (44, 46),
    (44, 47),
];
const STORED_TYPES: [u32; 9] = [35, 35, 47, 46, 40, 44, 32, 1000, 1001];
const FILTER_TYPES: [u32; 14] = [0, 0, 31, 33, 34, 35, 44, 47, 46, 40, 32, 1000, 9999, 45];
const CLASSES: [u32; 8] = [1, 1, 1, 2, 2, 8, 4, 128];

fn ty_ok(t: u32) -> bool {
    STD_TYPES.contains(&t) || (1000..2000).contains(&t) || t == 9999
}

fn ty_node(t: u32) -> NodeId {
    if t == 0 {
        NodeId::null()
    } else if (1000..2000).contains(&t) {
        NodeId::new(1, t)
    } else {
        NodeId::new(0, t)
    }
}

fn node_id(n: u32) -> NodeId {
    if n == 0 {
        NodeId::null()
    } else {
        NodeId::new(1, n)
    }
}

impl Prop for C30 {
    fn id(&self) -> &'static str {
        "C30"
    }

    fn gen(&self, rng: &mut Rng, n: usize, tier: Tier, out: &mut Vec<String>) {
        for case in 0..n {
            out.push("reset".to_string());
            // universe of node ids 1..=u; a hub with many references now and then
            let big = rng.chance(1, 25) || (tier == Tier::Thorough && rng.chance(1, 10));
            let u: u32 = if big { rng.range(260, 300) as u32 } else { rng.range(3, 9) as u32 };
            for id in 1..=u {
                if rng.chance(9, 10) {
                    out.push(format!("node {} {}", id, rng.pick(&CLASSES)));
                }
            }
            if big {
                // node 1 references everything (and some twice with another type)
                for t in 2..=u {
                    out.push(format!("ref 1 {} {}", t, rng.pick(&[35u32, 47])));
                }
            } else {
                let m = rng.range(2, 24);
                for _ in 0..m {
                    let s = rng.range(1, u as i64 - 1) as u32;
                    let t = rng.range(s as i64 + 1, u as i64) as u32;
                    out.push(format!("ref {} {} {}", s, t, rng.pick(&STORED_TYPES)));
                }
            }
            let len = if big { rng.range(4, 12) } else { rng.range(6, 40) };
            let flood = case % 17 == 3; // many live continuation points → eviction
            for _ in 0..len {
                let w: &[u32] = if flood { &[10, 3, 1, 1, 0, 1, 1] } else { &[6, 8, 2, 1, 1, 1, 1] };
                match rng.weighted(w) {
                    0 => {
                        let n = if rng.chance(1, 12) { rng.range(0, u as i64 + 2) as u32 } else { rng.range(1, u.min(4) as i64) as u32 };
                        let dir = rng.weighted(&[5, 2, 4, 1]);
                        let ty = *rng.pick(&FILTER_TYPES);
                        let mask: u64 = match rng.weighted(&[6, 3, 1, 1]) {
                            0 => 0,
                            1 => rng.below(256),
                            2 => 256 + rng.below(3) * 256,
                            _ => u32::MAX as u64,
                        };
                        let rmask: u64 = if rng.chance(2, 3) { 63 } else { rng.below(64) };
                        let req: u64 = match rng.weighted(&[8, 2, 1, 1, 1]) {
                            0 => rng.range(1, 4) as u64,
                            1 => 0,
                            2 => *rng.pick(&[254u64, 255, 256]),
                            3 => u32::MAX as u64,
                            _ => rng.range(1, 12) as u64,
                        };
                        out.push(format!("browse {} {} {} {} {} {} {}", n, dir, ty, b(rng.chance(2, 3)), mask, rmask, req));
                    }
                    1 => {
                        // continue the most recent chain, or poke at older / unknown tokens
                        let k = rng.weighted(&[10, 2, 1, 1]);
                        let toks: Vec<String> = match k {
                            0 => vec!["@0".to_string()],
                            1 => vec![format!("@{}", rng.range(1, 25))],
                            2 => vec![format!("{}", rng.range(0, 40))],
                            _ => (0..rng.range(0, 3)).map(|_| format!("@{}", rng.range(0, 3))).collect(),
                        };
                        out.push(format!("next [{}]", toks.join(",")));
                    }
                    2 => {
                        let toks: Vec<String> = (0..rng.range(0, 3)).map(|_| format!("@{}", rng.range(0, 4))).collect();
                        out.push(format!("release [{}]", toks.join(",")));
                    }
                    3 => out.push(format!("node {} {}", rng.range(1, u as i64 + 1), rng.pick(&CLASSES))),
                    4 => {
                        let s = rng.range(1, u as i64 - 1) as u32;
                        let t = rng.range(s as i64 + 1, u as i64) as u32;
                        out.push(format!("ref {} {} {}", s, t, rng.pick(&STORED_TYPES)));
                    }
                    5 => {
                        let s = rng.range(1, u as i64 - 1) as u32;
                        let t = rng.range(s as i64 + 1, u as i64) as u32;
                        out.push(format!("delref {} {} {}", s, t, rng.pick(&STORED_TYPES)));
                    }
                    _ => out.push(format!("delnode {} {}", rng.range(1, u as i64), b(rng.chance(1, 2)))),
                }
            }
        }
    }

    fn runner(&self) -> Box<dyn Runner> {
        Box::new(R::new())
    }
}

type D = (u32, u32, bool, u32); // target, reference type, is_forward, node class

#[derive(Clone, Copy, PartialEq, Debug)]
enum TokState {
    Live,
    Used,
    Released,
    /// the address space really changed after issue (kind of the change)
    Stale(&'static str),
    /// a mutating entry point ran after issue but changed nothing
    MaybeStale,
}

struct Tok {
    bytes: ByteString,
    exact: bool,
    /// reference bookkeeping: the unpaged result this chain must reproduce, how far it got
    full: Vec<D>,
    pos: usize,
    page: Option<usize>,
    state: TokState,
}

struct R {
    address_space: Arc<RwLock<AddressSpace>>,
    session: Arc<RwLock<Session>>,
    /// a second session used only for the unpaged reference browse of the oracle
    oracle_session: Arc<RwLock<Session>>,
    toks: Vec<Tok>, // token i+1 = toks[i]
    by_bytes: HashMap<Vec<u8>, usize>,
    universe: Vec<u32>,
}

fn desc(r: &ReferenceDescription) -> D {
    let t = match r.node_id.node_id.identifier {
        Identifier::Numeric(n) => n,
        _ => u32::MAX,
    };
    let ty = match r.reference_type_id.identifier {
        Identifier::Numeric(n) => n,
        _ => u32::MAX,
    };
    (t, ty, r.is_forward, r.node_class as u32)
}

fn show_descs(ds: &[D]) -> String {
    let v: Vec<String> = ds.iter().map(|d| format!("{}:{}:{}:{}", d.0, d.1, b(d.2), d.3)).collect();
    format!("[{}]", v.join(","))
}

fn sorted(ds: &[D]) -> Vec<D> {
    let mut v = ds.to_vec();
    v.sort_by_key(|d| ((d.0 as u64 * 10000 + d.1 as u64) * 2 + d.2 as u64) * 256 + d.3 as u64);
    v
}

impl R {
    fn new() -> R {
        let fx = fixtures::server();
        let mut a = AddressSpace::default();
        let _ = a.register_namespace("urn:verif:c30");
        for (p, c) in SUBTYPE_EDGES {
            a.insert_reference(&NodeId::new(0, p), &NodeId::new(0, c), ReferenceTypeId::HasSubtype);
        }
        R {
            address_space: Arc::new(RwLock::new(a)),
            session: Arc::new(RwLock::new(Session::new(fx.server_state.clone()))),
            oracle_session: Arc::new(RwLock::new(Session::new(fx.server_state.clone()))),
            toks: Vec::new(),
            by_bytes: HashMap::new(),
            universe: Vec::new(),
        }
    }

    fn count(&self) -> usize {
        browse_continuation_point_count(&self.session.read())
    }

    fn resolve(&self, t: &str) -> Option<usize> {
        if let Some(k) = t.strip_prefix('@') {
            let k: usize = k.parse().ok()?;
            Some(if k < self.toks.len() { self.toks.len() - k } else { 0 })
        } else {
            t.parse().ok()
        }
    }

    fn tok_bytes(&self, tok: usize) -> ByteString {
        if tok >= 1 && tok <= self.toks.len() {
            self.toks[tok - 1].bytes.clone()
        } else {
            // never issued: 7 bytes cannot collide with the 6 random bytes of a real point
            let mut v = vec![0xffu8; 3];
            v.extend_from_slice(&(tok as u32).to_be_bytes());
            ByteString::from(v)
        }
    }

    fn parse_toks(&self, s: &str) -> Option<Vec<usize>> {
        let inner = s.strip_prefix('[')?.strip_suffix(']')?;
        if inner.is_empty() {
            return Some(vec![]);
        }
        inner.split(',').map(|t| self.resolve(t)).collect()
    }

    /// everything observable about the structure of the address space over the universe
    fn snapshot(&self) -> Vec<String> {
        let a = self.address_space.read();
        let mut v = Vec::new();
        for n in &self.universe {
            let id = node_id(*n);
            let mut refs: Vec<String> = a
                .find_references(&id, None::<(NodeId, bool)>)
                .unwrap_or_default()
                .iter()
                .map(|r| format!("{}>{}", r.reference_type, r.target_node))
                .collect();
            refs.sort();
            v.push(format!("{} {} {:?}", n, a.node_exists(&id), refs));
        }
        v
    }

    fn note_universe(&mut self, ids: &[u32]) {
        for i in ids {
            if !self.universe.contains(i) {
                self.universe.push(*i);
            }
        }
    }

    /// a mutating entry point of the address space ran
    fn after_mutation(&mut self, kind: &'static str, changed: bool) {
        for t in self.toks.iter_mut() {
            match t.state {
                TokState::Live | TokState::MaybeStale => {
                    if changed {
                        t.state = TokState::Stale(kind)
                    } else {
                        t.state = TokState::MaybeStale
                    }
                }
                _ => {}
            }
        }
    }

    fn browse_request(n: u32, dir: u32, ty: u32, sub: bool, mask: u32, rmask: u32, req: u32) -> BrowseRequest {
        let browse_direction = match dir {
            0 => BrowseDirection::Forward,
            1 => BrowseDirection::Inverse,
            2 => BrowseDirection::Both,
            _ => BrowseDirection::Invalid,
        };
        BrowseRequest {
            request_header: RequestHeader::dummy(),
            view: ViewDescription {
                view_id: NodeId::null(),
                timestamp: DateTime::null(),
                view_version: 0,
            },
            requested_max_references_per_node: req,
            nodes_to_browse: Some(vec![BrowseDescription {
                node_id: node_id(n),
                browse_direction,
                reference_type_id: ty_node(ty),
                include_subtypes: sub,
                node_class_mask: mask,
                result_mask: rmask,
            }]),
        }
    }

    fn browse_next(&self, session: &Arc<RwLock<Session>>, release: bool, cps: Vec<ByteString>) -> Result<Option<Vec<BrowseResult>>, StatusCode> {
        let req = BrowseNextRequest {
            request_header: RequestHeader::dummy(),
            release_continuation_points: release,
            continuation_points: Some(cps),
        };
        match VViewService::new().browse_next(session.clone(), self.address_space.clone(), &req) {
            SupportedMessage::BrowseNextResponse(r) => Ok(r.results),
            SupportedMessage::ServiceFault(f) => Err(f.response_header.service_result),
            _ => Err(StatusCode::BadUnexpectedError),
        }
    }

    fn browse_one(&self, session: &Arc<RwLock<Session>>, req: &BrowseRequest) -> Result<BrowseResult, StatusCode> {
        let fx = fixtures::server();
        match VViewService::new().browse(fx.server_state.clone(), session.clone(), self.address_space.clone(), req) {
            SupportedMessage::BrowseResponse(r) => {
                let mut v = r.results.unwrap_or_default();
                if v.len() == 1 {
                    Ok(v.remove(0))
                } else {
                    Err(StatusCode::BadUnexpectedError)
                }
            }
            SupportedMessage::ServiceFault(f) => Err(f.response_header.service_result),
            _ => Err(StatusCode::BadUnexpectedError),
        }
    }

    /// "a single unlimited Browse" on the oracle session (followed to the end should the server
    /// page it anyway)
    fn unpaged(&self, n: u32, dir: u32, ty: u32, sub: bool, mask: u32, rmask: u32) -> Option<Vec<D>> {
        let req = Self::browse_request(n, dir, ty, sub, mask, rmask, 0);
        let mut r = self.browse_one(&self.oracle_session, &req).ok()?;
        let mut all: Vec<D> = Vec::new();
        for _ in 0..1000 {
            if !r.status_code.is_good() {
                return None;
            }
            all.extend(r.references.clone().unwrap_or_default().iter().map(desc));
            if r.continuation_point.is_null() {
                return Some(all);
            }
            let mut v = self.browse_next(&self.oracle_session, false, vec![r.continuation_point.clone()]).ok()??;
            r = v.remove(0);
        }
        None
    }

    fn issue(&mut self, cp: &ByteString, exact: bool, full: Vec<D>, pos: usize, page: Option<usize>) -> usize {
        let bytes = cp.value.clone().unwrap_or_default();
        self.toks.push(Tok {
            bytes: cp.clone(),
            exact,
            full,
            pos,
            page,
            state: TokState::Live,
        });
        self.by_bytes.insert(bytes, self.toks.len());
        self.toks.len()
    }

    /// checks one page against the chain's bookkeeping; registers a new token when one is issued.
    /// returns (printed cp, verdict)
    fn check_page(&mut self, r: &BrowseResult, exact: bool, full: Vec<D>, pos: usize, page: Option<usize>, class: &str) -> (String, Verdict) {
        let got: Vec<D> = r.references.clone().unwrap_or_default().iter().map(desc).collect();
        let mut v = Verdict::Ok;
        let end = pos + got.len();
        if end > full.len() || full[pos..end] != got[..] {
            v = Verdict::fail("page_slice", class, format!("page {} is not unpaged[{}..{}] of {}", show_descs(&got), pos, end, show_descs(&full)));
        } else if let Some(k) = page {
            if got.len() > k {
                v = Verdict::fail("page_size", class, format!("{} references > requested {}", got.len(), k));
            }
        }
        let cp = if r.continuation_point.is_null() {
            if matches!(v, Verdict::Ok) && end != full.len() {
                v = Verdict::fail("pages_complete", class, format!("no continuation point after {} of {} references", end, full.len()));
            }
            "-".to_string()
        } else {
            let t = self.issue(&r.continuation_point, exact, full, end, page);
            format!("{}", t)
        };
        (cp, v)
    }
}

fn first_fail(a: Verdict, b: Verdict) -> Verdict {
    match a {
        Verdict::Ok => b,
        f => f,
    }
}

impl Runner for R {
    fn step(&mut self, toks: &[&str]) -> (String, Verdict) {
        let max_cps = opcua::server::constants::MAX_BROWSE_CONTINUATION_POINTS;
        match toks {
            ["reset"] => ("ok".to_string(), Verdict::Ok),
            ["node", id, cls] => {
                let (Ok(id), Ok(cls)) = (id.parse::<u32>(), cls.parse::<u32>()) else { return ("bad-op".into(), Verdict::Ok) };
                if id == 0 || ![1, 2, 4, 8, 16, 32, 64, 128].contains(&cls) {
                    return ("bad-op".into(), Verdict::Ok);
                }
                self.note_universe(&[id]);
                let nid = node_id(id);
                let name = format!("n{}", id);
                let node: NodeType = match cls {
                    1 => Object::new(&nid, name.as_str(), name.as_str(), EventNotifier::empty()).into(),
                    2 => Variable::new(&nid, name.as_str(), name.as_str(), 0i32).into(),
                    4 => Method::new(&nid, name.as_str(), name.as_str(), true, true).into(),
                    8 => ObjectType::new(&nid, name.as_str(), name.as_str(), false).into(),
                    16 => VariableType::new(&nid, name.as_str(), name.as_str(), DataTypeId::Int32.into(), false, -1).into(),
                    32 => ReferenceType::new(&nid, name.as_str(), name.as_str(), None, false, false).into(),
                    64 => DataType::new(&nid, name.as_str(), name.as_str(), false).into(),
                    _ => View::new(&nid, name.as_str(), name.as_str(), EventNotifier::empty(), true).into(),
                };
                let before = self.snapshot();
                let ok = self.address_space.write().insert(node, None::<&[(&NodeId, &NodeId, ReferenceDirection)]>);
                let changed = before != self.snapshot();
                self.after_mutation("node", changed);
                (format!("ok {}", b(ok)), Verdict::Ok)
            }
            ["ref", s, t, ty] => {
                let (Ok(s), Ok(t), Ok(ty)) = (s.parse::<u32>(), t.parse::<u32>(), ty.parse::<u32>()) else { return ("bad-op".into(), Verdict::Ok) };
                if s == 0 || t <= s || !ty_ok(ty) || ty == 45 {
                    return ("bad-op".into(), Verdict::Ok);
                }
                self.note_universe(&[s, t]);
                let before = self.snapshot();
                self.address_space.write().insert_reference(&node_id(s), &node_id(t), ty_node(ty));
                let changed = before != self.snapshot();
                self.after_mutation("ref", changed);
                ("ok".to_string(), Verdict::Ok)
            }
            ["delref", s, t, ty] => {
                let (Ok(s), Ok(t), Ok(ty)) = (s.parse::<u32>(), t.parse::<u32>(), ty.parse::<u32>()) else { return ("bad-op".into(), Verdict::Ok) };
                if s == 0 || t == 0 || !ty_ok(ty) {
                    return ("bad-op".into(), Verdict::Ok);
                }
                self.note_universe(&[s, t]);
                let before = self.snapshot();
                let ok = self.address_space.write().delete_reference(&node_id(s), &node_id(t), ty_node(ty));
                let changed = before != self.snapshot();
                self.after_mutation("delref", changed);
                (format!("ok {}", b(ok)), Verdict::Ok)
            }
            ["delnode", id, dtr] => {
                let Ok(id) = id.parse::<u32>() else { return ("bad-op".into(), Verdict::Ok) };
                if id == 0 || !(*dtr == "0" || *dtr == "1") {
                    return ("bad-op".into(), Verdict::Ok);
                }
                self.note_universe(&[id]);
                let before = self.snapshot();
                let ok = self.address_space.write().delete(&node_id(id), *dtr == "1");
                let changed = before != self.snapshot();
                self.after_mutation("delnode", changed);
                (format!("ok {}", b(ok)), Verdict::Ok)
            }
            ["browse", n, dir, ty, sub, mask, rmask, req] => {
                let (Ok(n), Ok(dir), Ok(ty), Ok(mask), Ok(rmask), Ok(req)) =
                    (n.parse::<u32>(), dir.parse::<u32>(), ty.parse::<u32>(), mask.parse::<u32>(), rmask.parse::<u32>(), req.parse::<u32>())
                else {
                    return ("bad-op".into(), Verdict::Ok);
                };
                if dir > 3 || !(ty == 0 || ty_ok(ty)) || !(*sub == "0" || *sub == "1") {
                    return ("bad-op".into(), Verdict::Ok);
                }
                let sub = *sub == "1";
                let class = format!("browse-dir{}", dir);
                // reference: the unpaged result, on a session of its own
                let full = self.unpaged(n, dir, ty, sub, mask, rmask);
                let r = match self.browse_one(&self.session, &Self::browse_request(n, dir, ty, sub, mask, rmask, req)) {
                    Ok(r) => r,
                    Err(e) => return (format!("err {}", e.name()), Verdict::fail("browse_status", &class, "service fault")),
                };
                let exact = dir == 0;
                if !r.status_code.is_good() {
                    let v = if full.is_some() {
                        Verdict::fail("page_slice", &class, format!("paged browse failed with {} but the unpaged browse succeeded", r.status_code.name()))
                    } else {
                        Verdict::Ok
                    };
                    return (format!("ok {} c={}", r.status_code.name(), self.count()), v);
                }
                let got: Vec<D> = r.references.clone().unwrap_or_default().iter().map(desc).collect();
                let page = if (1..=255).contains(&req) { Some(req as usize) } else { None };
                let (cp, v) = match full {
                    Some(full) => self.check_page(&r, exact, full, 0, page, &class),
                    None => ("?".to_string(), Verdict::fail("page_slice", &class, "unpaged browse failed but the paged one succeeded")),
                };
                let body = if exact {
                    format!("refs={}", show_descs(&got))
                } else if r.continuation_point.is_null() {
                    format!("set={}", show_descs(&sorted(&got)))
                } else {
                    "~".to_string()
                };
                let count = self.count();
                let v = first_fail(v, if count > max_cps { Verdict::fail("cp_bounded", &class, format!("{} continuation points", count)) } else { Verdict::Ok });
                (format!("ok Good n={} cp={} {} c={}", got.len(), cp, body, count), v)
            }
            ["next", ids] => {
                let Some(ids) = self.parse_toks(ids) else { return ("bad-op".into(), Verdict::Ok) };
                let cps: Vec<ByteString> = ids.iter().map(|t| self.tok_bytes(*t)).collect();
                let issued_before = self.toks.len();
                let results = match self.browse_next(&self.session, false, cps) {
                    Ok(Some(r)) => r,
                    Ok(None) => return ("err no-results".into(), Verdict::fail("browse_status", "next", "no results")),
                    Err(e) => {
                        let v = if ids.is_empty() { Verdict::Ok } else { Verdict::fail("browse_status", "next", "service fault") };
                        return (format!("err {}", e.name()), v);
                    }
                };
                let mut parts = Vec::new();
                let mut verdict = Verdict::Ok;
                for (tok, r) in ids.iter().zip(results.iter()) {
                    let known = *tok >= 1 && *tok <= issued_before;
                    let (state, exact) = if known { (self.toks[tok - 1].state, self.toks[tok - 1].exact) } else { (TokState::Used, false) };
                    let issued_after = if known { self.toks.len() - tok } else { 0 };
                    let v;
                    if r.status_code.is_good() {
                        // the property: only a live point may be used
                        let class = match state {
                            TokState::Stale(k) => format!("after-{}", k),
                            _ => "next".to_string(),
                        };
                        let pre = match state {
                            TokState::Used => Verdict::fail("cp_single_use", &class, format!("token {} accepted twice (or never issued)", tok)),
                            TokState::Released => Verdict::fail("cp_released_invalid", &class, format!("released token {} accepted", tok)),
                            TokState::Stale(_) => Verdict::fail("cp_invalid_after_change", &class, format!("token {} accepted after the address space changed", tok)),
                            _ => Verdict::Ok,
                        };
                        let (full, pos, page) = if known {
                            let t = &mut self.toks[tok - 1];
                            t.state = TokState::Used;
                            (t.full.clone(), t.pos, t.page)
                        } else {
                            (vec![], 0, None)
                        };
                        let got: Vec<D> = r.references.clone().unwrap_or_default().iter().map(desc).collect();
                        let (cp, pv) = self.check_page(r, exact, full, pos, page, &class);
                        v = first_fail(pre, pv);
                        let body = if exact { format!("refs={}", show_descs(&got)) } else { "~".to_string() };
                        parts.push(format!("Good n={} cp={} {}", got.len(), cp, body));
                    } else {
                        v = if known && state == TokState::Live && issued_after < max_cps {
                            Verdict::fail("cp_live_usable", "next", format!("live token {} rejected with {}", tok, r.status_code.name()))
                        } else {
                            Verdict::Ok
                        };
                        if known {
                            // whatever it was, a rejected point stays unusable
                            let t = &mut self.toks[tok - 1];
                            if t.state == TokState::Live || t.state == TokState::MaybeStale {
                                t.state = TokState::Used;
                            }
                        }
                        parts.push(r.status_code.name().to_string());
                    }
                    verdict = first_fail(verdict, v);
                }
                let count = self.count();
                let verdict = first_fail(verdict, if count > max_cps { Verdict::fail("cp_bounded", "next", format!("{} continuation points", count)) } else { Verdict::Ok });
                (format!("ok {} c={}", parts.join(" | "), count), verdict)
            }
            ["release", ids] => {
                let Some(ids) = self.parse_toks(ids) else { return ("bad-op".into(), Verdict::Ok) };
                let cps: Vec<ByteString> = ids.iter().map(|t| self.tok_bytes(*t)).collect();
                match self.browse_next(&self.session, true, cps) {
                    Ok(_) => {
                        for t in &ids {
                            if *t >= 1 && *t <= self.toks.len() {
                                let t = &mut self.toks[t - 1];
                                if t.state != TokState::Used {
                                    t.state = TokState::Released;
                                }
                            }
                        }
                        (format!("ok c={}", self.count()), Verdict::Ok)
                    }
                    Err(e) => {
                        let v = if ids.is_empty() { Verdict::Ok } else { Verdict::fail("browse_status", "release", "service fault") };
                        (format!("err {}", e.name()), v)
                    }
                }
            }
            _ => ("bad-op".to_string(), Verdict::Ok),
        }
    }
}
