//! C30 — browsing in pages returns the full result exactly once; continuation points are single
//! use, invalid after release / after an address-space change, and bounded per session.
use crate::common::*;
use crate::fixtures;
use opcua::server::address_space::types::*;
use opcua::server::address_space::AddressSpace;
use opcua::server::prelude::*;
use opcua::server::session::Session;
use opcua::sync::RwLock;
use opcua::verif_hooks::aspace::VNodeManagementService;
use opcua::verif_hooks::view::{browse_continuation_point_count, set_view_limits, view_limits, VViewService};
use std::collections::HashMap;
use std::sync::Arc;

pub struct C30;
pub static P: C30 = C30;

const STD_TYPES: [u32; 10] = [31, 32, 33, 34, 35, 40, 44, 45, 46, 47];
/// HasSubtype edges (parent, child) of the standard reference types used; same table as
/// `parentTy` in the model
const SUBTYPE_EDGES: [(u32, u32); 9] = [
    (31, 32),
    (31, 33),
    (33, 34),
    (33, 35),
    (32, 40),
    (34, 44),
    (34, 45),
    (44, 46),
    (44, 47),
];
const STORED_TYPES: [u32; 9] = [35, 35, 47, 46, 40, 44, 32, 1000, 1001];
const FILTER_TYPES: [u32; 14] = [0, 0, 31, 33, 34, 35, 44, 47, 46, 40, 32, 1000, 9999, 45];
const CLASSES: [u32; 8] = [1, 1, 1, 2, 2, 8, 4, 128];

fn ty_ok(t: u32) -> bool {
    STD_TYPES.contains(&t) || (1000..2000).contains(&t) || t == 9999
}

fn ty_node(t: u32) -> NodeId {
    if t == 0 {
        NodeId::null()
    } else if (1000..2000).contains(&t) {
        NodeId::new(1, t)
    } else {
        NodeId::new(0, t)
    }
}

fn node_id(n: u32) -> NodeId {
    if n == 0 {
        NodeId::null()
    } else {
        NodeId::new(1, n)
    }
}

impl Prop for C30 {
    fn id(&self) -> &'static str {
        "C30"
    }

    fn gen(&self, rng: &mut Rng, n: usize, tier: Tier, out: &mut Vec<String>) {
        for case in 0..n {
            if case % 3 == 1 {
                scenario(rng, case / 3, out);
                continue;
            }
            out.push("reset".to_string());
            // universe of node ids 1..=u; a hub with many references now and then
            let big = rng.chance(1, 25) || (tier == Tier::Thorough && rng.chance(1, 10));
            let u: u32 = if big { rng.range(260, 300) as u32 } else { rng.range(3, 9) as u32 };
            for id in 1..=u {
                if rng.chance(9, 10) {
                    out.push(format!("node {} {}", id, rng.pick(&CLASSES)));
                }
            }
            if big {
                // node 1 references everything (and some twice with another type)
                for t in 2..=u {
                    out.push(format!("ref 1 {} {}", t, rng.pick(&[35u32, 47])));
                }
            } else {
                let m = rng.range(2, 24);
                for _ in 0..m {
                    let s = rng.range(1, u as i64 - 1) as u32;
                    let t = rng.range(s as i64 + 1, u as i64) as u32;
                    out.push(format!("ref {} {} {}", s, t, rng.pick(&STORED_TYPES)));
                }
            }
            let len = if big { rng.range(4, 12) } else { rng.range(6, 40) };
            let flood = case % 17 == 3; // many live continuation points → eviction
            for _ in 0..len {
                let w: &[u32] = if flood { &[10, 3, 1, 1, 0, 1, 1, 1] } else { &[6, 8, 2, 1, 1, 1, 1, 3] };
                match rng.weighted(w) {
                    0 => {
                        let n = if rng.chance(1, 12) { rng.range(0, u as i64 + 2) as u32 } else { rng.range(1, u.min(4) as i64) as u32 };
                        let dir = rng.weighted(&[5, 2, 4, 1]);
                        let ty = *rng.pick(&FILTER_TYPES);
                        let mask: u64 = match rng.weighted(&[6, 3, 1, 1]) {
                            0 => 0,
                            1 => rng.below(256),
                            2 => 256 + rng.below(3) * 256,
                            _ => u32::MAX as u64,
                        };
                        let rmask: u64 = if rng.chance(2, 3) { 63 } else { rng.below(64) };
                        let req: u64 = match rng.weighted(&[8, 2, 1, 1, 1]) {
                            0 => rng.range(1, 4) as u64,
                            1 => 0,
                            2 => *rng.pick(&[254u64, 255, 256]),
                            3 => u32::MAX as u64,
                            _ => rng.range(1, 12) as u64,
                        };
                        match rng.weighted(&[12, 3, 1, 1]) {
                            0 => out.push(format!("browse {} {} {} {} {} {} {}", n, dir, ty, b(rng.chance(2, 3)), mask, rmask, req)),
                            1 => {
                                let k = rng.range(0, 4);
                                let ns: Vec<String> = (0..k).map(|_| format!("{}", rng.range(1, u.min(4) as i64 + 1))).collect();
                                if rng.chance(1, 3) {
                                    out.push(format!("blimit {}", rng.range(0, 4)));
                                }
                                out.push(format!("browsem [{}] {} {} {} {} {} {}", ns.join(","), dir, ty, b(rng.chance(2, 3)), mask, rmask, req));
                            }
                            2 => out.push(format!("browsev {}", n)),
                            _ => out.push(format!("blimit {}", rng.pick(&[0u32, 1, 2, 3, 50]))),
                        }
                    }
                    1 => {
                        // continue the most recent chain, or poke at older / unknown tokens
                        let k = rng.weighted(&[10, 2, 1, 1]);
                        let toks: Vec<String> = match k {
                            0 => vec!["@0".to_string()],
                            1 => vec![format!("@{}", rng.range(1, 25))],
                            2 => vec![format!("{}", rng.range(0, 40))],
                            _ => (0..rng.range(0, 3)).map(|_| format!("@{}", rng.range(0, 3))).collect(),
                        };
                        out.push(format!("next [{}]", toks.join(",")));
                    }
                    2 => {
                        let toks: Vec<String> = (0..rng.range(0, 3)).map(|_| format!("@{}", rng.range(0, 4))).collect();
                        out.push(format!("release [{}]", toks.join(",")));
                    }
                    3 => out.push(format!("node {} {}", rng.range(1, u as i64 + 1), rng.pick(&CLASSES))),
                    4 => {
                        let s = rng.range(1, u as i64 - 1) as u32;
                        let t = rng.range(s as i64 + 1, u as i64) as u32;
                        out.push(format!("ref {} {} {}", s, t, rng.pick(&STORED_TYPES)));
                    }
                    5 => {
                        let s = rng.range(1, u as i64 - 1) as u32;
                        let t = rng.range(s as i64 + 1, u as i64) as u32;
                        out.push(format!("delref {} {} {}", s, t, rng.pick(&STORED_TYPES)));
                    }
                    6 => out.push(format!("delnode {} {}", rng.range(1, u as i64), b(rng.chance(1, 2)))),
                    _ => out.push(random_mutation(rng, u)),
                }
            }
        }
    }

    fn runner(&self) -> Box<dyn Runner> {
        Box::new(R::new())
    }
}

/// one of the remaining mutating entry points / NodeManagement services, random operands
fn random_mutation(rng: &mut Rng, u: u32) -> String {
    let s = rng.range(1, u as i64 - 1) as u32;
    let t = rng.range(s as i64 + 1, u as i64) as u32;
    let fresh = rng.range(2, u as i64 + 3) as u32;
    let ty = *rng.pick(&STORED_TYPES);
    let std_ty = *rng.pick(&[35u32, 47, 46, 40, 1000, 9999]);
    match rng.below(9) {
        0 => format!("nodep {} {} {} {}", fresh, rng.pick(&CLASSES), rng.range(1, fresh as i64 - 1), ty),
        1 => format!("refs [{}:{}:{},{}:{}:{}]", s, t, ty, s, t, rng.pick(&STORED_TYPES)),
        2 => format!("settype {} {}", rng.range(1, u as i64 + 1), rng.pick(&[58u32, 61, 63])),
        3 => format!("folder {} {}", fresh, rng.range(1, fresh as i64 - 1)),
        4 => format!("addvars {} [{},{}]", s, t, rng.range(s as i64 + 1, u as i64 + 3)),
        5 => format!("sdelnode {} {}", rng.range(1, u as i64 + 1), b(rng.chance(1, 2))),
        6 => format!("sdelref {} {} {} {} {}", s, t, std_ty, b(rng.chance(1, 2)), b(rng.chance(1, 3))),
        7 => format!("sdelref {} {} {} {} {}", t, s, std_ty, b(rng.chance(1, 2)), b(rng.chance(1, 3))),
        _ => {
            let fwd = rng.chance(1, 2);
            let (a, bb) = if fwd { (s, t) } else { (t, s) };
            format!("saddref {} {} {} {} {}", a, bb, std_ty, b(fwd), rng.pick(&[1u32, 1, 1, 2, 0, 8]))
        }
    }
}

/// every mutating entry point with every flag value, applied between a paged Browse and the
/// BrowseNext on its continuation point (nodes 1..5 of class Object, 1 → 2,3,4 Organizes,
/// 2 → 5 HasComponent, 4 → 5 Organizes)
const MUTATIONS: [&str; 46] = [
    "node 9 1",
    "node 3 1",
    "nodep 9 2 1 35",
    "nodep 3 2 1 35",
    "ref 1 5 35",
    "ref 1 2 35",
    "refs [3:5:47,1:5:46]",
    "refs []",
    "settype 3 61",
    "folder 9 1",
    "folder 3 1",
    "addvars 1 [8,9]",
    "addvars 1 [3]",
    "addvars 1 []",
    "delref 1 4 35",
    "delref 1 4 47",
    "delref 4 1 35",
    "delnode 4 0",
    "delnode 4 1",
    "delnode 3 0",
    "delnode 3 1",
    "delnode 2 0",
    "delnode 2 1",
    "delnode 9 0",
    "delnode 9 1",
    "sdelnode 4 0",
    "sdelnode 4 1",
    "sdelnode 9 0",
    "sdelref 1 4 35 1 0",
    "sdelref 4 1 35 0 0",
    "sdelref 1 4 35 1 1",
    "sdelref 1 4 1000 1 0",
    "saddref 3 5 35 1 1",
    "saddref 5 3 35 0 1",
    "saddref 1 4 35 1 1",
    "saddref 3 5 35 1 2",
    "saddref 3 5 35 1 0",
    "saddref 3 5 1000 1 1",
    "saddref 5 3 1000 0 1",
    "saddref 5 3 35 0 2",
    "saddref 5 3 35 0 0",
    "saddref 3 9 35 1 1",
    "saddref 9 3 35 0 1",
    "sdelnode 9 1",
    "sdelref 9 4 35 1 0",
    "sdelref 1 9 35 1 0",
];

/// the bounded store at its limit: 19, 20, 21 … outstanding points, then the evicted / oldest / newest ones
fn flood(rng: &mut Rng, out: &mut Vec<String>) {
    out.push("reset".to_string());
    for id in 1..=4 {
        out.push(format!("node {} 1", id));
    }
    for l in ["ref 1 2 35", "ref 1 3 35", "ref 1 4 35"] {
        out.push(l.to_string());
    }
    let total = rng.range(19, 24);
    for _ in 0..total {
        out.push(format!("browse 1 0 0 0 0 63 {}", rng.range(1, 2)));
    }
    out.push("next [@0]".to_string()); // consumes one, issues one (or the last page)
    for k in [total - 1, 20, 19, 18, 21, 0] {
        out.push(format!("next [@{}]", k));
    }
    out.push("browse 1 0 0 0 0 63 1".to_string());
    out.push("release [@1,@2]".to_string());
    out.push("browse 1 0 0 0 0 63 1".to_string());
}

fn scenario(rng: &mut Rng, k: usize, out: &mut Vec<String>) {
    if k % 12 == 5 {
        flood(rng, out);
        return;
    }
    out.push("reset".to_string());
    for id in 1..=5 {
        out.push(format!("node {} 1", id));
    }
    for l in ["ref 1 2 35", "ref 1 3 35", "ref 1 4 35", "ref 2 5 47", "ref 4 5 35"] {
        out.push(l.to_string());
    }
    // a second point on another node, in another direction, so that several points are outstanding
    if rng.chance(1, 2) {
        out.push("browse 5 1 0 0 0 63 1".to_string());
    }
    out.push(format!("browse 1 {} 0 0 0 63 {}", rng.pick(&[0u32, 0, 2]), rng.range(1, 2)));
    out.push(MUTATIONS[k % MUTATIONS.len()].to_string());
    if rng.chance(1, 3) {
        out.push(MUTATIONS[rng.below(MUTATIONS.len() as u64) as usize].to_string());
    }
    out.push("next [@0]".to_string());
    out.push("next [@1,@0]".to_string());
    out.push("browse 1 0 0 0 0 63 0".to_string());
}

type D = (u32, u32, bool, u32); // target, reference type, is_forward, node class

#[derive(Clone, Copy, PartialEq, Debug)]
enum TokState {
    Live,
    Used,
    Released,
    /// the address space really changed after issue (kind of the change)
    Stale(&'static str),
    /// a mutating entry point ran after issue but changed nothing
    MaybeStale,
}

struct Tok {
    bytes: ByteString,
    exact: bool,
    /// reference bookkeeping: the unpaged result this chain must reproduce, how far it got
    full: Vec<D>,
    pos: usize,
    page: Option<usize>,
    state: TokState,
    /// the bounded store may have had to drop this point: when a later point was issued, the
    /// MAX_BROWSE_CONTINUATION_POINTS youngest outstanding points did not include it
    evictable: bool,
    /// a stale point that a BrowseNext has already purged no longer occupies a slot
    purged: bool,
}

struct R {
    address_space: Arc<RwLock<AddressSpace>>,
    session: Arc<RwLock<Session>>,
    /// a second session used only for the unpaged reference browse of the oracle
    oracle_session: Arc<RwLock<Session>>,
    toks: Vec<Tok>, // token i+1 = toks[i]
    by_bytes: HashMap<Vec<u8>, usize>,
    universe: Vec<u32>,
}

fn desc(r: &ReferenceDescription) -> D {
    let t = match r.node_id.node_id.identifier {
        Identifier::Numeric(n) => n,
        _ => u32::MAX,
    };
    let ty = match r.reference_type_id.identifier {
        Identifier::Numeric(n) => n,
        _ => u32::MAX,
    };
    (t, ty, r.is_forward, r.node_class as u32)
}

fn show_descs(ds: &[D]) -> String {
    let v: Vec<String> = ds.iter().map(|d| format!("{}:{}:{}:{}", d.0, d.1, b(d.2), d.3)).collect();
    format!("[{}]", v.join(","))
}

fn sorted(ds: &[D]) -> Vec<D> {
    let mut v = ds.to_vec();
    v.sort_by_key(|d| ((d.0 as u64 * 10000 + d.1 as u64) * 2 + d.2 as u64) * 256 + d.3 as u64);
    v
}

impl R {
    fn new() -> R {
        let fx = fixtures::server();
        let mut a = AddressSpace::default();
        let _ = a.register_namespace("urn:verif:c30");
        for (p, c) in SUBTYPE_EDGES {
            a.insert_reference(&NodeId::new(0, p), &NodeId::new(0, c), ReferenceTypeId::HasSubtype);
        }
        R {
            address_space: Arc::new(RwLock::new(a)),
            session: Arc::new(RwLock::new(Session::new(fx.server_state.clone()))),
            oracle_session: Arc::new(RwLock::new(Session::new(fx.server_state.clone()))),
            toks: Vec::new(),
            by_bytes: HashMap::new(),
            universe: Vec::new(),
        }
    }

    fn count(&self) -> usize {
        browse_continuation_point_count(&self.session.read())
    }

    fn resolve(&self, t: &str) -> Option<usize> {
        if let Some(k) = t.strip_prefix('@') {
            let k: usize = k.parse().ok()?;
            Some(if k < self.toks.len() { self.toks.len() - k } else { 0 })
        } else {
            t.parse().ok()
        }
    }

    fn tok_bytes(&self, tok: usize) -> ByteString {
        if tok >= 1 && tok <= self.toks.len() {
            self.toks[tok - 1].bytes.clone()
        } else {
            // never issued: 7 bytes cannot collide with the 6 random bytes of a real point
            let mut v = vec![0xffu8; 3];
            v.extend_from_slice(&(tok as u32).to_be_bytes());
            ByteString::from(v)
        }
    }

    fn parse_toks(&self, s: &str) -> Option<Vec<usize>> {
        let inner = s.strip_prefix('[')?.strip_suffix(']')?;
        if inner.is_empty() {
            return Some(vec![]);
        }
        inner.split(',').map(|t| self.resolve(t)).collect()
    }

    /// everything observable about the structure of the address space over the universe
    fn snapshot(&self) -> Vec<String> {
        let a = self.address_space.read();
        let mut v = Vec::new();
        for n in &self.universe {
            let id = node_id(*n);
            let mut refs: Vec<String> = a
                .find_references(&id, None::<(NodeId, bool)>)
                .unwrap_or_default()
                .iter()
                .map(|r| format!("{}>{}", r.reference_type, r.target_node))
                .collect();
            refs.sort();
            v.push(format!("{} {} {:?}", n, a.node_exists(&id), refs));
        }
        v
    }

    fn note_universe(&mut self, ids: &[u32]) {
        for i in ids {
            if !self.universe.contains(i) {
                self.universe.push(*i);
            }
        }
    }

    /// a mutating entry point of the address space ran
    fn after_mutation(&mut self, kind: &'static str, changed: bool) {
        for t in self.toks.iter_mut() {
            match t.state {
                TokState::Live | TokState::MaybeStale => {
                    if changed {
                        t.state = TokState::Stale(kind)
                    } else {
                        t.state = TokState::MaybeStale
                    }
                }
                _ => {}
            }
        }
    }

    fn browse_request(n: u32, dir: u32, ty: u32, sub: bool, mask: u32, rmask: u32, req: u32) -> BrowseRequest {
        let browse_direction = match dir {
            0 => BrowseDirection::Forward,
            1 => BrowseDirection::Inverse,
            2 => BrowseDirection::Both,
            _ => BrowseDirection::Invalid,
        };
        BrowseRequest {
            request_header: RequestHeader::dummy(),
            view: ViewDescription {
                view_id: NodeId::null(),
                timestamp: DateTime::null(),
                view_version: 0,
            },
            requested_max_references_per_node: req,
            nodes_to_browse: Some(vec![BrowseDescription {
                node_id: node_id(n),
                browse_direction,
                reference_type_id: ty_node(ty),
                include_subtypes: sub,
                node_class_mask: mask,
                result_mask: rmask,
            }]),
        }
    }

    fn browse_next(&self, session: &Arc<RwLock<Session>>, release: bool, cps: Vec<ByteString>) -> Result<Option<Vec<BrowseResult>>, StatusCode> {
        let req = BrowseNextRequest {
            request_header: RequestHeader::dummy(),
            release_continuation_points: release,
            continuation_points: Some(cps),
        };
        match VViewService::new().browse_next(session.clone(), self.address_space.clone(), &req) {
            SupportedMessage::BrowseNextResponse(r) => Ok(r.results),
            SupportedMessage::ServiceFault(f) => Err(f.response_header.service_result),
            _ => Err(StatusCode::BadUnexpectedError),
        }
    }

    fn browse_one(&self, session: &Arc<RwLock<Session>>, req: &BrowseRequest) -> Result<BrowseResult, StatusCode> {
        let fx = fixtures::server();
        match VViewService::new().browse(fx.server_state.clone(), session.clone(), self.address_space.clone(), req) {
            SupportedMessage::BrowseResponse(r) => {
                let mut v = r.results.unwrap_or_default();
                if v.len() == 1 {
                    Ok(v.remove(0))
                } else {
                    Err(StatusCode::BadUnexpectedError)
                }
            }
            SupportedMessage::ServiceFault(f) => Err(f.response_header.service_result),
            _ => Err(StatusCode::BadUnexpectedError),
        }
    }

    /// "a single unlimited Browse" on the oracle session (followed to the end should the server
    /// page it anyway)
    fn unpaged(&self, n: u32, dir: u32, ty: u32, sub: bool, mask: u32, rmask: u32) -> Option<Vec<D>> {
        let req = Self::browse_request(n, dir, ty, sub, mask, rmask, 0);
        let mut r = self.browse_one(&self.oracle_session, &req).ok()?;
        let mut all: Vec<D> = Vec::new();
        for _ in 0..1000 {
            if !r.status_code.is_good() {
                return None;
            }
            all.extend(r.references.clone().unwrap_or_default().iter().map(desc));
            if r.continuation_point.is_null() {
                return Some(all);
            }
            let mut v = self.browse_next(&self.oracle_session, false, vec![r.continuation_point.clone()]).ok()??;
            r = v.remove(0);
        }
        None
    }

    fn issue(&mut self, cp: &ByteString, exact: bool, full: Vec<D>, pos: usize, page: Option<usize>) -> usize {
        let bytes = cp.value.clone().unwrap_or_default();
        // points still occupying a slot of the session's bounded store, oldest first
        let max = opcua::server::constants::MAX_BROWSE_CONTINUATION_POINTS;
        let occ: Vec<usize> = (0..self.toks.len())
            .filter(|i| {
                let t = &self.toks[*i];
                !t.purged && matches!(t.state, TokState::Live | TokState::MaybeStale | TokState::Stale(_))
            })
            .collect();
        if occ.len() >= max {
            for i in &occ[..occ.len() + 1 - max] {
                self.toks[*i].evictable = true;
            }
        }
        self.toks.push(Tok {
            bytes: cp.clone(),
            exact,
            full,
            pos,
            page,
            state: TokState::Live,
            evictable: false,
            purged: false,
        });
        self.by_bytes.insert(bytes, self.toks.len());
        self.toks.len()
    }

    /// checks one page against the chain's bookkeeping; registers a new token when one is issued.
    /// returns (printed cp, verdict)
    fn check_page(&mut self, r: &BrowseResult, exact: bool, full: Vec<D>, pos: usize, page: Option<usize>, class: &str) -> (String, Verdict) {
        let got: Vec<D> = r.references.clone().unwrap_or_default().iter().map(desc).collect();
        let mut v = Verdict::Ok;
        let end = pos + got.len();
        if end > full.len() || full[pos..end] != got[..] {
            v = Verdict::fail("page_slice", class, format!("page {} is not unpaged[{}..{}] of {}", show_descs(&got), pos, end, show_descs(&full)));
        } else if let Some(k) = page {
            if got.len() > k {
                v = Verdict::fail("page_size", class, format!("{} references > requested {}", got.len(), k));
            }
        }
        let cp = if r.continuation_point.is_null() {
            if matches!(v, Verdict::Ok) && end != full.len() {
                v = Verdict::fail("pages_complete", class, format!("no continuation point after {} of {} references", end, full.len()));
            }
            "-".to_string()
        } else {
            let t = self.issue(&r.continuation_point, exact, full, end, page);
            format!("{}", t)
        };
        (cp, v)
    }
}

fn first_fail(a: Verdict, b: Verdict) -> Verdict {
    match a {
        Verdict::Ok => b,
        f => f,
    }
}


const MUT_OPS: [&str; 12] = ["node", "nodep", "ref", "refs", "settype", "folder", "addvars", "delref", "delnode", "sdelnode", "sdelref", "saddref"];

fn nid_ok(n: u32) -> bool {
    (1..100000).contains(&n)
}

fn cls_ok(c: u32) -> bool {
    [1, 2, 4, 8, 16, 32, 64, 128].contains(&c)
}

fn stored_ty_ok(t: u32) -> bool {
    ty_ok(t) && t != 45
}

fn p32(s: &str) -> Option<u32> {
    if s.starts_with('+') {
        None
    } else {
        s.parse().ok()
    }
}

fn pbool(s: &str) -> Option<bool> {
    match s {
        "0" => Some(false),
        "1" => Some(true),
        _ => None,
    }
}

fn plist(s: &str) -> Option<Vec<&str>> {
    let inner = s.strip_prefix('[')?.strip_suffix(']')?;
    if inner.is_empty() {
        Some(vec![])
    } else {
        Some(inner.split(',').collect())
    }
}

fn node_class(c: u32) -> NodeClass {
    match c {
        1 => NodeClass::Object,
        2 => NodeClass::Variable,
        4 => NodeClass::Method,
        8 => NodeClass::ObjectType,
        16 => NodeClass::VariableType,
        32 => NodeClass::ReferenceType,
        64 => NodeClass::DataType,
        128 => NodeClass::View,
        _ => NodeClass::Unspecified,
    }
}

fn make_node(id: u32, cls: u32) -> NodeType {
    let nid = node_id(id);
    let name = format!("n{}", id);
    match cls {
        1 => Object::new(&nid, name.as_str(), name.as_str(), EventNotifier::empty()).into(),
        2 => Variable::new(&nid, name.as_str(), name.as_str(), 0i32).into(),
        4 => Method::new(&nid, name.as_str(), name.as_str(), true, true).into(),
        8 => ObjectType::new(&nid, name.as_str(), name.as_str(), false).into(),
        16 => VariableType::new(&nid, name.as_str(), name.as_str(), DataTypeId::Int32.into(), false, -1).into(),
        32 => ReferenceType::new(&nid, name.as_str(), name.as_str(), None, false, false).into(),
        64 => DataType::new(&nid, name.as_str(), name.as_str(), false).into(),
        _ => View::new(&nid, name.as_str(), name.as_str(), EventNotifier::empty(), true).into(),
    }
}

impl R {
    /// notes every id the op mentions, then takes the structural snapshot
    fn snapshot_for(&mut self, toks: &[&str]) -> Vec<String> {
        let mut ids = Vec::new();
        for t in &toks[1..] {
            for part in t.trim_matches(|c| c == '[' || c == ']').split(|c| c == ',' || c == ':') {
                if let Ok(n) = part.parse::<u32>() {
                    if nid_ok(n) && n <= 400 {
                        ids.push(n);
                    }
                }
            }
        }
        self.note_universe(&ids);
        self.snapshot()
    }

    fn svc_status(resp: SupportedMessage) -> String {
        let st = match resp {
            SupportedMessage::DeleteNodesResponse(r) => r.results.unwrap_or_default().into_iter().next(),
            SupportedMessage::DeleteReferencesResponse(r) => r.results.unwrap_or_default().into_iter().next(),
            SupportedMessage::AddReferencesResponse(r) => r.results.unwrap_or_default().into_iter().next(),
            SupportedMessage::ServiceFault(f) => Some(f.response_header.service_result),
            _ => None,
        };
        match st {
            Some(s) => format!("ok {}", s.name()),
            None => "err no-result".to_string(),
        }
    }

    /// validates (same rules as the model driver) and runs one mutating entry point of the real code
    fn mutate(&mut self, toks: &[&str]) -> Option<String> {
        let fx = fixtures::server();
        let nm = VNodeManagementService::new();
        match toks {
            ["node", id, cls] => {
                let (id, cls) = (p32(id)?, p32(cls)?);
                if !nid_ok(id) || !cls_ok(cls) {
                    return None;
                }
                let ok = self.address_space.write().insert(make_node(id, cls), None::<&[(&NodeId, &NodeId, ReferenceDirection)]>);
                Some(format!("ok {}", b(ok)))
            }
            ["nodep", id, cls, parent, ty] => {
                let (id, cls, parent, ty) = (p32(id)?, p32(cls)?, p32(parent)?, p32(ty)?);
                if !nid_ok(id) || !cls_ok(cls) || parent < 1 || parent >= id || !stored_ty_ok(ty) {
                    return None;
                }
                let ok = self.address_space.write().insert(make_node(id, cls), Some(&[(&node_id(parent), &ty_node(ty), ReferenceDirection::Inverse)]));
                Some(format!("ok {}", b(ok)))
            }
            ["ref", s, t, ty] => {
                let (s, t, ty) = (p32(s)?, p32(t)?, p32(ty)?);
                if s < 1 || s >= t || !nid_ok(t) || !stored_ty_ok(ty) {
                    return None;
                }
                self.address_space.write().insert_reference(&node_id(s), &node_id(t), ty_node(ty));
                Some("ok".to_string())
            }
            ["refs", l] => {
                let mut triples = Vec::new();
                for e in plist(l)? {
                    let p: Vec<&str> = e.split(':').collect();
                    if p.len() != 3 {
                        return None;
                    }
                    triples.push((p32(p[0])?, p32(p[1])?, p32(p[2])?));
                }
                if !triples.iter().all(|(s, t, ty)| *s >= 1 && s < t && nid_ok(*t) && stored_ty_ok(*ty)) {
                    return None;
                }
                let owned: Vec<(NodeId, NodeId, NodeId)> = triples.iter().map(|(s, t, ty)| (node_id(*s), node_id(*t), ty_node(*ty))).collect();
                let refs: Vec<(&NodeId, &NodeId, &NodeId)> = owned.iter().map(|(s, t, ty)| (s, t, ty)).collect();
                self.address_space.write().insert_references(&refs);
                Some("ok".to_string())
            }
            ["settype", id, t] => {
                let (id, t) = (p32(id)?, p32(t)?);
                if !nid_ok(id) || t < 1 || t >= 100000 {
                    return None;
                }
                self.address_space.write().set_node_type(&node_id(id), NodeId::new(0, t));
                Some("ok".to_string())
            }
            ["folder", id, parent] => {
                let (id, parent) = (p32(id)?, p32(parent)?);
                if !nid_ok(id) || parent < 1 || parent >= id {
                    return None;
                }
                let name = format!("n{}", id);
                let ok = self.address_space.write().add_folder_with_id(&node_id(id), name.as_str(), name.as_str(), &node_id(parent));
                Some(format!("ok {}", b(ok)))
            }
            ["addvars", parent, ids] => {
                let parent = p32(parent)?;
                let ids: Option<Vec<u32>> = plist(ids)?.into_iter().map(p32).collect();
                let ids = ids?;
                if parent < 1 || !ids.iter().all(|i| parent < *i && nid_ok(*i)) {
                    return None;
                }
                let vars: Vec<Variable> = ids
                    .iter()
                    .map(|i| {
                        let name = format!("n{}", i);
                        Variable::new(&node_id(*i), name.as_str(), name.as_str(), 0i32)
                    })
                    .collect();
                let res = self.address_space.write().add_variables(vars, &node_id(parent));
                Some(format!("ok [{}]", res.iter().map(|x| b(*x)).collect::<Vec<_>>().join(",")))
            }
            ["delref", s, t, ty] => {
                let (s, t, ty) = (p32(s)?, p32(t)?, p32(ty)?);
                if !nid_ok(s) || !nid_ok(t) || !ty_ok(ty) {
                    return None;
                }
                let ok = self.address_space.write().delete_reference(&node_id(s), &node_id(t), ty_node(ty));
                Some(format!("ok {}", b(ok)))
            }
            ["delnode", id, dtr] => {
                let (id, dtr) = (p32(id)?, pbool(dtr)?);
                if !nid_ok(id) {
                    return None;
                }
                let ok = self.address_space.write().delete(&node_id(id), dtr);
                Some(format!("ok {}", b(ok)))
            }
            ["sdelnode", id, dtr] => {
                let (id, dtr) = (p32(id)?, pbool(dtr)?);
                if !nid_ok(id) {
                    return None;
                }
                let req = DeleteNodesRequest {
                    request_header: RequestHeader::dummy(),
                    nodes_to_delete: Some(vec![DeleteNodesItem { node_id: node_id(id), delete_target_references: dtr }]),
                };
                Some(Self::svc_status(nm.delete_nodes(fx.server_state.clone(), self.session.clone(), self.address_space.clone(), &req)))
            }
            ["sdelref", s, t, ty, fwd, bidir] => {
                let (s, t, ty, fwd, bidir) = (p32(s)?, p32(t)?, p32(ty)?, pbool(fwd)?, pbool(bidir)?);
                if !nid_ok(s) || !nid_ok(t) || s == t || !ty_ok(ty) {
                    return None;
                }
                let req = DeleteReferencesRequest {
                    request_header: RequestHeader::dummy(),
                    references_to_delete: Some(vec![DeleteReferencesItem {
                        source_node_id: node_id(s),
                        reference_type_id: ty_node(ty),
                        is_forward: fwd,
                        target_node_id: ExpandedNodeId::new(node_id(t)),
                        delete_bidirectional: bidir,
                    }]),
                };
                Some(Self::svc_status(nm.delete_references(fx.server_state.clone(), self.session.clone(), self.address_space.clone(), &req)))
            }
            ["saddref", s, t, ty, fwd, cls] => {
                let (s, t, ty, fwd, cls) = (p32(s)?, p32(t)?, p32(ty)?, pbool(fwd)?, p32(cls)?);
                if !nid_ok(s) || !nid_ok(t) || !(if fwd { s < t } else { t < s }) || !stored_ty_ok(ty) || !(cls == 0 || cls_ok(cls)) {
                    return None;
                }
                let req = AddReferencesRequest {
                    request_header: RequestHeader::dummy(),
                    references_to_add: Some(vec![AddReferencesItem {
                        source_node_id: node_id(s),
                        reference_type_id: ty_node(ty),
                        is_forward: fwd,
                        target_server_uri: UAString::null(),
                        target_node_id: ExpandedNodeId::new(node_id(t)),
                        target_node_class: node_class(cls),
                    }]),
                };
                Some(Self::svc_status(nm.add_references(fx.server_state.clone(), self.session.clone(), self.address_space.clone(), &req)))
            }
            _ => None,
        }
    }
}

impl Runner for R {
    fn step(&mut self, toks: &[&str]) -> (String, Verdict) {
        let max_cps = opcua::server::constants::MAX_BROWSE_CONTINUATION_POINTS;
        match toks {
            ["reset"] => {
                let fx = fixtures::server();
                let mut ss = fx.server_state.write();
                let (_, t) = view_limits(&ss);
                set_view_limits(&mut ss, 50, t);
                ("ok".to_string(), Verdict::Ok)
            }
            ["blimit", l] => {
                let Ok(l) = l.parse::<u32>() else { return ("bad-op".into(), Verdict::Ok) };
                let fx = fixtures::server();
                let mut ss = fx.server_state.write();
                let (_, t) = view_limits(&ss);
                set_view_limits(&mut ss, l as usize, t);
                ("ok".to_string(), Verdict::Ok)
            }
            ["browsev", n] => {
                let Ok(n) = n.parse::<u32>() else { return ("bad-op".into(), Verdict::Ok) };
                let fx = fixtures::server();
                let mut req = Self::browse_request(n, 0, 0, false, 0, 63, 1);
                req.view.view_id = NodeId::new(1, 7777u32);
                let before = self.count();
                let line = match VViewService::new().browse(fx.server_state.clone(), self.session.clone(), self.address_space.clone(), &req) {
                    SupportedMessage::ServiceFault(f) => format!("err {}", f.response_header.service_result.name()),
                    _ => "ok ?".to_string(),
                };
                let v = if self.count() != before { Verdict::fail("cp_bounded", "view", "a rejected request left a continuation point") } else { Verdict::Ok };
                (line, v)
            }
            ["browsem", ns, dir, ty, sub, mask, rmask, req] => {
                let Some(ns) = plist(ns) else { return ("bad-op".into(), Verdict::Ok) };
                let ns: Option<Vec<u32>> = ns.into_iter().map(p32).collect();
                let (Some(ns), Some(dir), Some(ty), Some(sub), Some(mask), Some(rmask), Some(req)) = (ns, p32(dir), p32(ty), pbool(sub), p32(mask), p32(rmask), p32(req)) else {
                    return ("bad-op".into(), Verdict::Ok);
                };
                if dir > 3 || !(ty == 0 || ty_ok(ty)) || ns.len() > 30 {
                    return ("bad-op".into(), Verdict::Ok);
                }
                let fx = fixtures::server();
                let class = format!("browsem-dir{}", dir);
                // reference: each node's unpaged result, on the oracle session
                let fulls: Vec<Option<Vec<D>>> = ns.iter().map(|n| self.unpaged(*n, dir, ty, sub, mask, rmask)).collect();
                let mut request = Self::browse_request(0, dir, ty, sub, mask, rmask, req);
                let template = request.nodes_to_browse.as_ref().unwrap()[0].clone();
                request.nodes_to_browse = Some(ns.iter().map(|n| BrowseDescription { node_id: node_id(*n), ..template.clone() }).collect());
                let results = match VViewService::new().browse(fx.server_state.clone(), self.session.clone(), self.address_space.clone(), &request) {
                    SupportedMessage::BrowseResponse(r) => r.results.unwrap_or_default(),
                    SupportedMessage::ServiceFault(f) => return (format!("err {}", f.response_header.service_result.name()), Verdict::Ok),
                    _ => return ("err other".into(), Verdict::fail("browse_status", &class, "unexpected message")),
                };
                let exact = dir == 0;
                let page = if (1..=255).contains(&req) { Some(req as usize) } else { None };
                let mut parts = Vec::new();
                let mut verdict = if results.len() != ns.len() { Verdict::fail("browse_status", &class, "result count differs from node count") } else { Verdict::Ok };
                for (r, full) in results.iter().zip(fulls.into_iter()) {
                    if !r.status_code.is_good() {
                        if full.is_some() {
                            verdict = first_fail(verdict, Verdict::fail("page_slice", &class, "paged browse failed but the unpaged browse succeeded"));
                        }
                        parts.push(r.status_code.name().to_string());
                        continue;
                    }
                    let got: Vec<D> = r.references.clone().unwrap_or_default().iter().map(desc).collect();
                    let (cp, v) = match full {
                        Some(full) => self.check_page(r, exact, full, 0, page, &class),
                        None => ("?".to_string(), Verdict::fail("page_slice", &class, "unpaged browse failed but the paged one succeeded")),
                    };
                    verdict = first_fail(verdict, v);
                    let body = if exact {
                        format!("refs={}", show_descs(&got))
                    } else if r.continuation_point.is_null() {
                        format!("set={}", show_descs(&sorted(&got)))
                    } else {
                        "~".to_string()
                    };
                    parts.push(format!("Good n={} cp={} {}", got.len(), cp, body));
                }
                let count = self.count();
                let verdict = first_fail(verdict, if count > max_cps { Verdict::fail("cp_bounded", &class, format!("{} continuation points", count)) } else { Verdict::Ok });
                (format!("ok {} c={}", parts.join(" | "), count), verdict)
            }
            [op, ..] if MUT_OPS.contains(op) => {
                let before = self.snapshot_for(toks);
                match self.mutate(toks) {
                    None => ("bad-op".to_string(), Verdict::Ok),
                    Some(line) => {
                        let changed = before != self.snapshot();
                        let kind: &'static str = MUT_OPS.iter().find(|k| *k == op).copied().unwrap_or("mut");
                        self.after_mutation(kind, changed);
                        (line, Verdict::Ok)
                    }
                }
            }
            ["browse", n, dir, ty, sub, mask, rmask, req] => {
                let (Ok(n), Ok(dir), Ok(ty), Ok(mask), Ok(rmask), Ok(req)) =
                    (n.parse::<u32>(), dir.parse::<u32>(), ty.parse::<u32>(), mask.parse::<u32>(), rmask.parse::<u32>(), req.parse::<u32>())
                else {
                    return ("bad-op".into(), Verdict::Ok);
                };
                if dir > 3 || !(ty == 0 || ty_ok(ty)) || !(*sub == "0" || *sub == "1") {
                    return ("bad-op".into(), Verdict::Ok);
                }
                let sub = *sub == "1";
                let class = format!("browse-dir{}", dir);
                // reference: the unpaged result, on a session of its own
                let full = self.unpaged(n, dir, ty, sub, mask, rmask);
                let r = match self.browse_one(&self.session, &Self::browse_request(n, dir, ty, sub, mask, rmask, req)) {
                    Ok(r) => r,
                    Err(e) => {
                        let v = if view_limits(&fixtures::server().server_state.read()).0 == 0 { Verdict::Ok } else { Verdict::fail("browse_status", &class, "service fault") };
                        return (format!("err {}", e.name()), v);
                    }
                };
                let exact = dir == 0;
                if !r.status_code.is_good() {
                    let v = if full.is_some() {
                        Verdict::fail("page_slice", &class, format!("paged browse failed with {} but the unpaged browse succeeded", r.status_code.name()))
                    } else {
                        Verdict::Ok
                    };
                    return (format!("ok {} c={}", r.status_code.name(), self.count()), v);
                }
                let got: Vec<D> = r.references.clone().unwrap_or_default().iter().map(desc).collect();
                let page = if (1..=255).contains(&req) { Some(req as usize) } else { None };
                let (cp, v) = match full {
                    Some(full) => self.check_page(&r, exact, full, 0, page, &class),
                    None => ("?".to_string(), Verdict::fail("page_slice", &class, "unpaged browse failed but the paged one succeeded")),
                };
                let body = if exact {
                    format!("refs={}", show_descs(&got))
                } else if r.continuation_point.is_null() {
                    format!("set={}", show_descs(&sorted(&got)))
                } else {
                    "~".to_string()
                };
                let count = self.count();
                let v = first_fail(v, if count > max_cps { Verdict::fail("cp_bounded", &class, format!("{} continuation points", count)) } else { Verdict::Ok });
                (format!("ok Good n={} cp={} {} c={}", got.len(), cp, body, count), v)
            }
            ["next", ids] => {
                let Some(ids) = self.parse_toks(ids) else { return ("bad-op".into(), Verdict::Ok) };
                let cps: Vec<ByteString> = ids.iter().map(|t| self.tok_bytes(*t)).collect();
                let issued_before = self.toks.len();
                let results = match self.browse_next(&self.session, false, cps) {
                    Ok(Some(r)) => r,
                    Ok(None) => return ("err no-results".into(), Verdict::fail("browse_status", "next", "no results")),
                    Err(e) => {
                        let v = if ids.is_empty() { Verdict::Ok } else { Verdict::fail("browse_status", "next", "service fault") };
                        return (format!("err {}", e.name()), v);
                    }
                };
                // BrowseNext first drops every point that an address-space change invalidated
                for t in self.toks.iter_mut() {
                    if matches!(t.state, TokState::Stale(_)) {
                        t.purged = true;
                    }
                }
                let mut parts = Vec::new();
                let mut verdict = Verdict::Ok;
                for (tok, r) in ids.iter().zip(results.iter()) {
                    let known = *tok >= 1 && *tok <= issued_before;
                    let evictable = known && self.toks[tok - 1].evictable;
                    let (state, exact) = if known { (self.toks[tok - 1].state, self.toks[tok - 1].exact) } else { (TokState::Used, false) };
                    let v;
                    if r.status_code.is_good() {
                        // the property: only a live point may be used
                        let class = match state {
                            TokState::Stale(k) => format!("after-{}", k),
                            _ => "next".to_string(),
                        };
                        let pre = match state {
                            TokState::Used => Verdict::fail("cp_single_use", &class, format!("token {} accepted twice (or never issued)", tok)),
                            TokState::Released => Verdict::fail("cp_released_invalid", &class, format!("released token {} accepted", tok)),
                            TokState::Stale(_) => Verdict::fail("cp_invalid_after_change", &class, format!("token {} accepted after the address space changed", tok)),
                            _ => Verdict::Ok,
                        };
                        let (full, pos, page) = if known {
                            let t = &mut self.toks[tok - 1];
                            t.state = TokState::Used;
                            (t.full.clone(), t.pos, t.page)
                        } else {
                            (vec![], 0, None)
                        };
                        let got: Vec<D> = r.references.clone().unwrap_or_default().iter().map(desc).collect();
                        let (cp, pv) = self.check_page(r, exact, full, pos, page, &class);
                        v = first_fail(pre, pv);
                        let body = if exact { format!("refs={}", show_descs(&got)) } else { "~".to_string() };
                        parts.push(format!("Good n={} cp={} {}", got.len(), cp, body));
                    } else {
                        // a point nobody used, released or invalidated is still valid — unless the bound of the
                        // store forced the server to drop it when a younger point was issued
                        v = if known && state == TokState::Live && !evictable {
                            Verdict::fail("cp_live_usable", "next", format!("live token {} rejected with {} although the store never had to drop it", tok, r.status_code.name()))
                        } else {
                            Verdict::Ok
                        };
                        if known {
                            // whatever it was, a rejected point stays unusable
                            let t = &mut self.toks[tok - 1];
                            if t.state == TokState::Live || t.state == TokState::MaybeStale {
                                t.state = TokState::Used;
                            }
                        }
                        parts.push(r.status_code.name().to_string());
                    }
                    verdict = first_fail(verdict, v);
                }
                let count = self.count();
                let verdict = first_fail(verdict, if count > max_cps { Verdict::fail("cp_bounded", "next", format!("{} continuation points", count)) } else { Verdict::Ok });
                (format!("ok {} c={}", parts.join(" | "), count), verdict)
            }
            ["release", ids] => {
                let Some(ids) = self.parse_toks(ids) else { return ("bad-op".into(), Verdict::Ok) };
                let cps: Vec<ByteString> = ids.iter().map(|t| self.tok_bytes(*t)).collect();
                match self.browse_next(&self.session, true, cps) {
                    Ok(_) => {
                        for t in &ids {
                            if *t >= 1 && *t <= self.toks.len() {
                                let t = &mut self.toks[t - 1];
                                if t.state != TokState::Used {
                                    t.state = TokState::Released;
                                }
                            }
                        }
                        (format!("ok c={}", self.count()), Verdict::Ok)
                    }
                    Err(e) => {
                        let v = if ids.is_empty() { Verdict::Ok } else { Verdict::fail("browse_status", "release", "service fault") };
                        (format!("err {}", e.name()), v)
                    }
                }
            }
            _ => ("bad-op".to_string(), Verdict::Ok),
        }
    }
}
