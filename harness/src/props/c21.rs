//! C21 — Publish responses pair with requests and deliver every data change once.
//!
//! Same pipeline driver as C40 (`subm.rs`); the oracle keeps, from the ops and the responses alone,
//! the log of accepted publish requests, the per-subscription sequence numbers, and per reporting item
//! the values that were sampled and are still to be delivered.
use crate::common::*;
use crate::subm::*;
use std::collections::{BTreeMap, HashMap, VecDeque};

pub struct C21;
pub static P: C21 = C21;

impl Prop for C21 {
    fn id(&self) -> &'static str {
        "C21"
    }

    fn gen(&self, rng: &mut Rng, n: usize, tier: Tier, out: &mut Vec<String>) {
        let w = GenWeights {
            write: 14,
            tick: 14,
            publish: 6,
            republish: 1,
            sub: 1,
            delsub: 1,
            item: 2,
            delitem: 1,
            pubmode: 1,
            modsub: 1,
            setmode: 2,
            moditem: 2,
            trigger: 2,
            resend: 1,
            transfer: 1,
            max_len: 60,
        };
        // a third of the cases (all of them when there is room) are the single-step enumeration
        let singles = if n >= single_step_count() + 400 { single_step_count() } else { n / 3 };
        let off = rng.below(single_step_count() as u64) as usize;
        for i in 0..singles {
            gen_single_step(off + i, out);
        }
        for _ in 0..(n - singles) {
            if rng.chance(1, 5) {
                gen_scenario(rng, out);
            } else {
                gen_case(rng, &w, tier == Tier::Thorough, out);
            }
        }
    }

    fn runner(&self) -> Box<dyn Runner> {
        Box::new(R {
            pipe: Pipe::new(),
            accepted: VecDeque::new(),
            answered: Vec::new(),
            last_seq: HashMap::new(),
            subs: BTreeMap::new(),
            nodes: HashMap::new(),
            history: HashMap::new(),
            panic_class: "-".to_string(),
        })
    }
}

struct ItemRef {
    handle: u32,
    node: u32,
    /// sampled at the publishing interval (sampling interval -1) and mode Reporting: exact bookkeeping
    exact: bool,
    reporting: bool,
    last_sampled: Option<i64>,
    /// sampled while publishing was enabled, not yet seen in a response (oldest first)
    undelivered: VecDeque<i64>,
    /// index into the node's write history of the last delivered value
    hist_pos: usize,
    delivered_any: bool,
    /// a ResendData, a triggering link or a monitoring mode change may legitimately repeat a value
    loose: bool,
    ever_reportable: bool,
    mode: i64,
    /// handles the item had before a ModifyMonitoredItems (queued notifications keep theirs)
    old_handles: Vec<u32>,
}

struct SubRef {
    interval: i64,
    enabled: bool,
    last_elapsed: Option<i64>,
    items: BTreeMap<u32, ItemRef>, // by item id
    next_item: u32,
    has_links: bool,
    /// ResendData was called and no timer tick has passed since: the flag also covers items created meanwhile
    resend_pending: bool,
}

struct R {
    pipe: Pipe,
    /// accepted publish requests not yet answered, oldest first
    accepted: VecDeque<u32>,
    answered: Vec<u32>,
    last_seq: HashMap<i64, u32>,
    subs: BTreeMap<i64, SubRef>,
    nodes: HashMap<u32, i64>,
    /// every value a node ever had, in order (index 0 = initial 0)
    history: HashMap<u32, Vec<i64>>,
    panic_class: String,
}

impl Runner for R {
    fn step(&mut self, toks: &[&str]) -> (String, Verdict) {
        let class0 = toks[0].to_string();
        self.panic_class = self.pipe.panic_class(toks);
        let rq_before = self.pipe.vs.publish_request_queue_len();
        let creating_before: Vec<i64> = self
            .pipe
            .vs
            .subscription_digests()
            .iter()
            .filter(|d| (d.3).0 == 1)
            .map(|d| self.pipe.norm_sub(d.0))
            .collect();
        let out = self.pipe.step(toks);
        let mut verdict = Verdict::Ok;
        let mut fail = |v: Verdict| {
            if matches!(verdict, Verdict::Ok) {
                verdict = v;
            }
        };
        let now = self.pipe.now_units;

        // ---- reference bookkeeping from the op ----
        match &out.observed {
            Observed::None => {
                if toks[0] == "reset" {
                    if let Ok(n) = toks[1].parse::<u32>() {
                        for i in 1..=n {
                            self.nodes.insert(i, 0);
                            self.history.insert(i, vec![0]);
                        }
                    }
                }
            }
            Observed::SubCreated(id) => {
                let iv = toks[2].parse::<i64>().unwrap_or(1);
                self.subs.insert(
                    *id,
                    SubRef {
                        interval: iv,
                        enabled: toks[5] == "1",
                        last_elapsed: None,
                        items: BTreeMap::new(),
                        next_item: 1,
                        has_links: false,
                        resend_pending: false,
                    },
                );
            }
            Observed::SubDeleted(id, ok) => {
                if *ok {
                    self.subs.remove(id);
                }
            }
            Observed::PubMode(id, en) => {
                if let Some(s) = self.subs.get_mut(id) {
                    s.enabled = *en;
                }
            }
            Observed::ItemCreated { sub_id, handle, node, item_id } => {
                if let (Some(iid), Some(s)) = (item_id, self.subs.get_mut(sub_id)) {
                    let reporting = toks[6] == "2";
                    let pending = s.resend_pending;
                    s.items.insert(
                        *iid,
                        ItemRef {
                            handle: *handle,
                            node: *node,
                            exact: reporting && toks[7] == "-" && !pending,
                            reporting,
                            last_sampled: None,
                            undelivered: VecDeque::new(),
                            hist_pos: 0,
                            delivered_any: false,
                            loose: pending,
                            ever_reportable: reporting || (toks[6] == "1" && s.has_links),
                            mode: if reporting { 2 } else if toks[6] == "1" { 1 } else { 0 },
                            old_handles: Vec::new(),
                        },
                    );
                    s.next_item = iid + 1;
                }
            }
            Observed::ItemDeleted { sub_id, item_id, ok } => {
                if *ok {
                    if let Some(s) = self.subs.get_mut(sub_id) {
                        s.items.remove(item_id);
                    }
                }
            }
            Observed::ModSub { sub_id, ok, interval } => {
                if *ok {
                    if let Some(s) = self.subs.get_mut(sub_id) {
                        s.interval = *interval;
                    }
                }
            }
            Observed::SetMode { sub_id, item_id, mode, ok } => {
                if *ok {
                    if let Some(s) = self.subs.get_mut(sub_id) {
                        let links = s.has_links;
                        if let Some(it) = s.items.get_mut(item_id) {
                            it.mode = *mode;
                            it.reporting = *mode == 2;
                            it.exact = false;
                            it.loose = true;
                            it.ever_reportable |= *mode == 2 || (*mode == 1 && links);
                        }
                    }
                }
            }
            Observed::ModItem { sub_id, item_id, handle, interval_sampling, ok } => {
                if *ok {
                    if let Some(s) = self.subs.get_mut(sub_id) {
                        if let Some(it) = s.items.get_mut(item_id) {
                            if it.handle != *handle {
                                let h = it.handle;
                                it.old_handles.push(h);
                            }
                            it.handle = *handle;
                            it.exact = it.exact && *interval_sampling;
                        }
                    }
                }
            }
            Observed::Trigger { sub_id, ok } => {
                if *ok {
                    if let Some(s) = self.subs.get_mut(sub_id) {
                        s.has_links = true;
                        for it in s.items.values_mut() {
                            it.exact = false;
                            it.loose = true;
                            it.ever_reportable |= it.mode >= 1;
                        }
                    }
                }
            }
            Observed::Resend(sub_id, ok) => {
                if *ok {
                    if let Some(s) = self.subs.get_mut(sub_id) {
                        s.resend_pending = true;
                        for it in s.items.values_mut() {
                            it.exact = false;
                            it.loose = true;
                        }
                    }
                }
            }
            Observed::Write { node, value } => {
                if self.nodes.contains_key(node) {
                    self.nodes.insert(*node, *value);
                    self.history.get_mut(node).unwrap().push(*value);
                }
            }
            Observed::Publish { req_id, result, .. } => {
                if result.is_ok() {
                    self.accepted.push_back(*req_id);
                }
            }
            Observed::Tick(_) => {
                // "timer ticks (with publishing intervals elapsing or not)": an item that follows the
                // publishing interval is sampled on the timer ticks on which the interval elapsed
                for (id, s) in self.subs.iter_mut() {
                    // every tick of the subscription consumes a pending ResendData (a publish request
                    // may have consumed it earlier; keeping it until the next timer tick only makes the
                    // reference less exact, never wrong)
                    s.resend_pending = false;
                    // a subscription still in its Creating state (observed on the real object before
                    // the tick) is only started by this tick
                    if creating_before.contains(id) {
                        continue;
                    }
                    let elapsed = match s.last_elapsed {
                        None => true,
                        Some(t) => now - t >= s.interval,
                    };
                    if !elapsed {
                        continue;
                    }
                    s.last_elapsed = Some(now);
                    for it in s.items.values_mut() {
                        if !it.exact {
                            continue;
                        }
                        if let Some(v) = self.nodes.get(&it.node) {
                            if it.last_sampled != Some(*v) {
                                it.last_sampled = Some(*v);
                                if s.enabled {
                                    it.undelivered.push_back(*v);
                                }
                            }
                        }
                    }
                }
            }
            _ => {}
        }

        // items whose bookkeeping is no longer exact (mode change, triggering, ResendData, modify) only keep the order check
        for s in self.subs.values_mut() {
            for it in s.items.values_mut() {
                if !it.exact {
                    it.undelivered.clear();
                }
            }
        }

        // subscriptions that no longer exist in the session (expired / deleted)
        let alive: Vec<i64> = self.pipe.vs.subscription_ids().iter().map(|r| self.pipe.norm_sub(*r)).collect();

        // ---- the responses ----
        for r in &out.responses {
            // pairing: the oldest accepted, unanswered request
            match self.accepted.front() {
                Some(front) if *front == r.req_id => {
                    self.accepted.pop_front();
                }
                _ => {
                    if self.answered.contains(&r.req_id) {
                        fail(Verdict::fail("answered_once", &class0, format!("request {} answered twice", r.req_id)));
                    } else if self.accepted.contains(&r.req_id) {
                        fail(Verdict::fail(
                            "oldest_first",
                            &class0,
                            format!("request {} answered before {:?}", r.req_id, self.accepted.front()),
                        ));
                        self.accepted.retain(|x| *x != r.req_id);
                    } else {
                        fail(Verdict::fail("pairs_with_request", &class0, format!("response to unknown request {}", r.req_id)));
                    }
                }
            }
            self.answered.push(r.req_id);
            // sequence numbers strictly increase per subscription
            if let Some(prev) = self.last_seq.get(&r.sub_id) {
                if r.msg.seq <= *prev {
                    fail(Verdict::fail("seq_increasing", &class0, format!("sub {} seq {} after {}", r.sub_id, r.msg.seq, prev)));
                }
            }
            self.last_seq.insert(r.sub_id, r.msg.seq);
            // delivered values
            if let Body::Data(es) = &r.msg.body {
                for e in es {
                    let item = self
                        .subs
                        .get_mut(&r.sub_id)
                        .and_then(|s| s.items.values_mut().find(|i| i.handle == e.handle || i.old_handles.contains(&e.handle)));
                    let item = match item {
                        Some(i) => i,
                        None => continue, // item or subscription deleted meanwhile: nothing to compare with
                    };
                    if !item.ever_reportable {
                        fail(Verdict::fail("delivery_exact", "not-reporting", format!("value of an item that never could report {}", e.handle)));
                        continue;
                    }
                    // in order, each change once: a later position of the node's history
                    let hist = &self.history[&item.node];
                    let start = if item.delivered_any && !item.loose { item.hist_pos + 1 } else if item.delivered_any { item.hist_pos } else { 0 };
                    match hist.iter().enumerate().skip(start).find(|(_, v)| **v == e.value) {
                        Some((i, _)) => {
                            item.hist_pos = i;
                            item.delivered_any = true;
                        }
                        None => fail(Verdict::fail(
                            "delivery_order",
                            if item.exact { "interval-item" } else { "self-sampled-item" },
                            format!("item {} value {} is not a later value of node {}", e.handle, e.value, item.node),
                        )),
                    }
                    if item.exact {
                        match item.undelivered.front() {
                            Some(v) if *v == e.value => {
                                item.undelivered.pop_front();
                            }
                            other => fail(Verdict::fail(
                                "delivery_exact",
                                "interval-item",
                                format!("item {} delivered {} but the next sampled value is {:?}", e.handle, e.value, other),
                            )),
                        }
                    }
                }
            }
        }

        // ---- nothing sampled may vanish: it is delivered or still queued in the subscription ----
        let digests = self.pipe.vs.subscription_digests();
        for (id, s) in self.subs.iter_mut() {
            if !alive.contains(id) {
                // expired or deleted: the property only speaks about live subscriptions
                for it in s.items.values_mut() {
                    it.undelivered.clear();
                }
                continue;
            }
            let queued = digests
                .iter()
                .find(|d| self.pipe.norm_sub(d.0) == *id)
                .map(|d| (d.3).2)
                .unwrap_or(0);
            let waiting: usize = s.items.values().map(|i| i.undelivered.len()).sum();
            if waiting > 0 && queued == 0 {
                let class = if toks[0] == "tick" && rq_before == 0 { "no-request-at-interval" } else { "other" };
                fail(Verdict::fail(
                    "delivery_lost",
                    class,
                    format!("sub {}: {} sampled value(s) neither delivered nor queued", id, waiting),
                ));
                for it in s.items.values_mut() {
                    it.undelivered.clear();
                }
            }
        }
        for r in &out.other_responses {
            fail(Verdict::fail("pairs_with_request", &class0, format!("unexpected queued response {}", r)));
        }
        (out.line, verdict)
    }

    fn on_panic(&self, _toks: &[&str]) -> Verdict {
        Verdict::fail("no_panic", &self.panic_class, "implementation panicked")
    }
}
