//! C37 — reconnect back-off follows its policy and never overflows.
use crate::common::*;
use opcua::verif_hooks::client::VBackoff;
use std::time::Duration;

pub struct C37;
pub static P: C37 = C37;

const NANOS: u128 = 1_000_000_000;

fn dur_boundaries() -> Vec<(u64, u32)> {
    let max = (u64::MAX, 999_999_999u32);
    let half = (u64::MAX / 2, 999_999_999u32); // MAX/2 rounded down: 2*half + 1ns = MAX
    vec![
        (0, 0),
        (0, 1),
        (0, 499_999_999),
        (0, 500_000_000),
        (0, 999_999_999),
        (1, 0),
        (30, 0),
        (u32::MAX as u64, 0),
        (u64::MAX / 4, 250_000_000),
        (half.0, 499_999_999),
        (half.0, 500_000_000),
        half,
        (half.0 + 1, 0),
        (half.0 + 1, 1),
        (u64::MAX - 1, 999_999_999),
        (u64::MAX, 0),
        (u64::MAX, 999_999_998),
        max,
    ]
}

fn gen_dur(rng: &mut Rng) -> (u64, u32) {
    match rng.weighted(&[5, 3, 2, 1]) {
        0 => *rng.pick(&dur_boundaries()),
        1 => (rng.below(100), rng.below(1_000_000_000) as u32),
        2 => {
            // close to a power of two fraction of MAX
            let sh = rng.below(64) as u32;
            ((u64::MAX >> sh).wrapping_add(rng.below(3)).wrapping_sub(1), *rng.pick(&[0u32, 1, 499_999_999, 500_000_000, 999_999_999]))
        }
        _ => (rng.next(), rng.below(1_000_000_000) as u32),
    }
}

impl Prop for C37 {
    fn id(&self) -> &'static str {
        "C37"
    }

    fn gen(&self, rng: &mut Rng, n: usize, tier: Tier, out: &mut Vec<String>) {
        for _ in 0..n {
            if rng.chance(1, 150) {
                // the user of the policy: AsyncSecureChannel::connect against a server that refuses
                out.push("reset default".to_string());
                out.push(format!("connect {}", rng.range(0, 4)));
                continue;
            }
            let (ms, mn) = gen_dur(rng);
            let (is, inn) = gen_dur(rng);
            let lim = match rng.weighted(&[3, 1, 1, 3, 1, 1]) {
                0 => "-".to_string(),
                1 => "0".to_string(),
                2 => "1".to_string(),
                3 => rng.range(2, 80).to_string(),
                4 => u32::MAX.to_string(),
                _ => (u32::MAX - rng.below(3) as u32).to_string(),
            };
            match rng.weighted(&[20, 3, 1, 1, 3]) {
                0 => out.push(format!("reset {} {} {} {} {}", ms, mn, lim, is, inn)),
                1 => out.push(format!("reset direct {} {} {} {} {}", ms, mn, lim, is, inn)),
                2 => out.push("reset default".to_string()),
                3 => out.push("reset never".to_string()),
                _ => out.push(format!("reset infinity {} {} {} {}", ms, mn, is, inn)),
            }
            let len = rng.range(1, 30);
            for _ in 0..len {
                match rng.weighted(&[14, 2, 1]) {
                    0 => out.push("next".to_string()),
                    1 => {
                        let big = if tier == Tier::Thorough { 100_000 } else { 3_000 };
                        let k = match rng.weighted(&[4, 2, 1]) {
                            0 => rng.range(0, 70),
                            1 => rng.range(60, 200),
                            _ => rng.range(200, big),
                        };
                        out.push(format!("nextn {}", k));
                    }
                    _ => {
                        // put the counter where `retry_count` is after that many counted calls
                        let c = match rng.weighted(&[2, 3, 1, 4]) {
                            0 => rng.below(100) as u32,
                            1 => u32::MAX - rng.below(4) as u32,
                            2 => rng.next() as u32,
                            // around the policy's own limit: one left, used up, beyond
                            _ => match lim.parse::<u32>() {
                                Ok(l) => (l as i64 + rng.range(-2, 2)).clamp(0, u32::MAX as i64) as u32,
                                Err(_) => rng.below(5) as u32,
                            },
                        };
                        out.push(format!("setcount {}", c));
                    }
                }
            }
        }
    }

    fn runner(&self) -> Box<dyn Runner> {
        Box::new(R {
            b: None,
            max_ns: 0,
            limit: None,
            prev: None,
            init_ns: 0,
            yielded: 0,
        })
    }
}

fn ns(d: Duration) -> u128 {
    d.as_secs() as u128 * NANOS + d.subsec_nanos() as u128
}

struct R {
    b: Option<VBackoff>,
    // reference bookkeeping written from the property text (exact integers, nanoseconds)
    max_ns: u128,
    init_ns: u128,
    limit: Option<u64>,
    /// the delay yielded last (None before the first)
    prev: Option<u128>,
    /// number of delays yielded so far (the policy's retries used up)
    yielded: u64,
}

impl R {
    fn state(&self) -> String {
        let (cur, count) = self.b.as_ref().unwrap().state();
        format!("cur={}.{} count={}", cur.as_secs(), cur.subsec_nanos(), count)
    }

    fn class(&self) -> String {
        // input class: is doubling the previous delay beyond Duration::MAX / is the policy unlimited
        let next_src = match self.prev {
            None => self.init_ns,
            Some(p) => self.max_ns.min(2 * p),
        };
        let over = 2 * next_src > ns(Duration::MAX);
        format!(
            "{}{}",
            if self.limit.is_none() { "unlimited" } else { "limited" },
            if over { "-double-overflows" } else { "" }
        )
    }

    /// one call of `next()` checked against the property text
    fn one(&mut self) -> (Option<Duration>, Verdict) {
        let class = self.class();
        let got = self.b.as_mut().unwrap().next();
        let want: Option<u128> = if self.limit.is_some_and(|l| self.yielded >= l) {
            None
        } else {
            Some(match self.prev {
                None => self.init_ns,
                Some(p) => self.max_ns.min(2 * p),
            })
        };
        let v = match (got, want) {
            (None, None) => Verdict::Ok,
            (Some(g), Some(w)) => {
                self.yielded += 1;
                self.prev = Some(w);
                if ns(g) == w {
                    Verdict::Ok
                } else if self.yielded == 1 {
                    Verdict::fail("first_is_initial", &class, format!("got {} ns want {} ns", ns(g), w))
                } else {
                    Verdict::fail("doubling_capped", &class, format!("got {} ns want {} ns", ns(g), w))
                }
            }
            (None, Some(_)) => Verdict::fail("yields_limit", &class, format!("ended after {} of {:?}", self.yielded, self.limit)),
            (Some(_), None) => Verdict::fail("yields_limit", &class, format!("yielded more than the limit {:?}", self.limit)),
        };
        (got, v)
    }
}

impl R {
    fn start(&mut self, b: VBackoff, max: Duration, limit: Option<u32>, init: Duration) -> (String, Verdict) {
        self.b = Some(b);
        self.max_ns = ns(max);
        self.init_ns = ns(init);
        self.limit = limit.map(|x| x as u64);
        self.prev = None;
        self.yielded = 0;
        (format!("ok {}", self.state()), Verdict::Ok)
    }
}

/// `Client::get_server_endpoints_from_url` (→ `AsyncSecureChannel::connect`) against a loopback
/// listener that drops every connection; returns (gave up within the time allowed, connections seen)
fn connect_attempts(limit: i32) -> (bool, usize) {
    use std::sync::atomic::{AtomicBool, AtomicUsize, Ordering};
    use std::sync::Arc;
    let listener = std::net::TcpListener::bind("127.0.0.1:0").expect("bind");
    let port = listener.local_addr().unwrap().port();
    listener.set_nonblocking(true).unwrap();
    let seen = Arc::new(AtomicUsize::new(0));
    let stop = Arc::new(AtomicBool::new(false));
    let (seen2, stop2) = (seen.clone(), stop.clone());
    let acceptor = std::thread::spawn(move || {
        while !stop2.load(Ordering::SeqCst) {
            match listener.accept() {
                Ok((sock, _)) => {
                    seen2.fetch_add(1, Ordering::SeqCst);
                    drop(sock);
                }
                Err(_) => std::thread::sleep(Duration::from_micros(200)),
            }
        }
    });
    let client = opcua::client::ClientBuilder::new()
        .application_name("verif")
        .application_uri("urn:verif")
        .pki_dir(crate::fixtures::scratch_dir().join("c37-pki"))
        .create_sample_keypair(false)
        .trust_server_certs(true)
        .session_retry_limit(limit)
        .session_retry_initial(Duration::from_millis(1))
        .session_retry_max(Duration::from_millis(4))
        .client()
        .expect("client");
    let rt = tokio::runtime::Builder::new_current_thread().enable_all().build().unwrap();
    let url = format!("opc.tcp://127.0.0.1:{}/", port);
    let gave_up = rt.block_on(async {
        tokio::time::timeout(Duration::from_millis(2500), client.get_server_endpoints_from_url(url)).await.is_ok()
    });
    drop(rt);
    // let the acceptor see the last connection
    std::thread::sleep(Duration::from_millis(20));
    stop.store(true, Ordering::SeqCst);
    let _ = acceptor.join();
    (gave_up, seen.load(Ordering::SeqCst))
}

fn show(o: Option<Duration>) -> String {
    match o {
        None => "none".to_string(),
        Some(d) => format!("some:{}.{}", d.as_secs(), d.subsec_nanos()),
    }
}

impl Runner for R {
    fn step(&mut self, toks: &[&str]) -> (String, Verdict) {
        match toks {
            ["reset", "infinity", ms, mn, is, inn] => {
                let max = Duration::new(ms.parse().unwrap(), mn.parse().unwrap());
                let init = Duration::new(is.parse().unwrap(), inn.parse().unwrap());
                self.start(VBackoff::policy_infinity(max, init), max, None, init)
            }
            ["reset", ms, mn, lim, is, inn] => {
                let max = Duration::new(ms.parse().unwrap(), mn.parse().unwrap());
                let init = Duration::new(is.parse().unwrap(), inn.parse().unwrap());
                let limit: Option<u32> = if *lim == "-" { None } else { Some(lim.parse().unwrap()) };
                // the way the client does it: SessionRetryPolicy::new(..).new_backoff()
                self.start(VBackoff::from_policy(max, limit, init), max, limit, init)
            }
            ["reset", "direct", ms, mn, lim, is, inn] => {
                let max = Duration::new(ms.parse().unwrap(), mn.parse().unwrap());
                let init = Duration::new(is.parse().unwrap(), inn.parse().unwrap());
                let limit: Option<u32> = if *lim == "-" { None } else { Some(lim.parse().unwrap()) };
                self.start(VBackoff::new(max, limit, init), max, limit, init)
            }
            // the documented defaults: 10 retries, 500 ms doubling up to 30 s
            ["reset", "default"] => self.start(
                VBackoff::policy_default(),
                Duration::from_millis(30000),
                Some(10),
                Duration::from_millis(500),
            ),
            ["reset", "never"] => self.start(
                VBackoff::policy_never(),
                Duration::from_millis(30000),
                Some(0),
                Duration::from_millis(500),
            ),
            ["connect", "-"] => {
                // `session_retry_limit < 0` in the client configuration = unlimited policy
                let (gave_up, attempts) = connect_attempts(-1);
                let v = if gave_up {
                    Verdict::fail("connect_retry_limit", "connect-unlimited", format!("gave up after {} attempts although the policy has no limit", attempts))
                } else {
                    Verdict::Ok
                };
                (if gave_up { format!("ok gaveup=1 attempts={}", attempts) } else { "ok gaveup=0".to_string() }, v)
            }
            ["connect", lim] => {
                let lim: u32 = lim.parse().unwrap();
                if lim >= 64 {
                    return ("bad-op".to_string(), Verdict::Ok);
                }
                let (gave_up, attempts) = connect_attempts(lim as i32);
                let class = format!("connect-limit-{}", if lim == 0 { "0" } else { "n" });
                // the property, on the user of the policy: `limit` retries, i.e. limit + 1 attempts
                let v = if !gave_up {
                    Verdict::fail("connect_retry_limit", &class, format!("still retrying after {} attempts, limit {}", attempts, lim))
                } else if attempts != lim as usize + 1 {
                    Verdict::fail("connect_retry_limit", &class, format!("{} attempts, limit {}", attempts, lim))
                } else {
                    Verdict::Ok
                };
                if gave_up {
                    (format!("ok gaveup=1 attempts={}", attempts), v)
                } else {
                    ("ok gaveup=0".to_string(), v)
                }
            }
            ["next"] => {
                let (got, v) = self.one();
                (format!("ok {} {}", show(got), self.state()), v)
            }
            ["nextn", k] => {
                let k: u64 = k.parse().unwrap();
                let mut y = 0u64;
                let mut last = None;
                let mut verdict = Verdict::Ok;
                for _ in 0..k {
                    let (got, v) = self.one();
                    if got.is_some() {
                        y += 1;
                    }
                    last = got;
                    if matches!(verdict, Verdict::Ok) {
                        verdict = v;
                    }
                }
                (format!("ok yielded={} last={} {}", y, show(last), self.state()), verdict)
            }
            ["setcount", c] => {
                let c: u32 = c.parse().unwrap();
                self.b.as_mut().unwrap().set_retry_count(c);
                // reference: a limited policy has used up `c` of its retries
                if self.limit.is_some() {
                    self.yielded = c as u64;
                }
                (format!("ok {}", self.state()), Verdict::Ok)
            }
            _ => ("bad-op".to_string(), Verdict::Ok),
        }
    }

    fn on_panic(&self, _toks: &[&str]) -> Verdict {
        Verdict::fail("no_panic", &self.class(), "next() panicked")
    }
}
