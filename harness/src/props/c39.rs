//! C39 — event filters evaluate safely and with the specified operator semantics.
//!
//! ops:  reset
//!       elem <operator> [<operand> …]   appends a ContentFilterElement (`elem <operator> -`:
//!                                       filter_operands = None)          → `ok <n elements>`
//!       eval                            event_filter::evaluate_where_clause → `ok <variant>` |
//!                                       `err <StatusCode>` | `panic`
//!       validate                        event_filter::validate → `ok [<element status>,…]`
//!       likere s<hex>                   operator::like_to_regex → `ok s<hex of the regex>` | `ok -`
//! operators: eq isnull gt lt gte lte like not between inlist and or cast inview oftype relatedto
//!            bitand bitor
//! operands : e<i> element · a AttributeOperand · x undecodable extension object ·
//!            s SimpleAttributeOperand that resolves to nothing · s0 the same without browse path ·
//!            n literal NULL · <type>:<value> numeric/Boolean literal (as in C06) ·
//!            str:s<hex> / str:- String literal (ASCII) · nid:<type> / nid:bad NodeId of a data type ·
//!            sv:sev / sv:src SimpleAttributeOperand that resolves to the Severity (UInt16 7) / SourceName
//!            (String "abc") property of the event the clause is evaluated against
//!       evalevent                       event_filter::evaluate (the event passes / does not pass) → `ok 1|0`
use super::c06::{self, T, V};
use crate::common::*;
use opcua::server::events::event_filter;
use opcua::types::operand::Operand;
use opcua::types::service_types::{
    AttributeOperand, ContentFilter, ContentFilterElement, EventFilter, FilterOperator, SimpleAttributeOperand,
};
use opcua::types::*;
use opcua::verif_hooks::conv::events as hook;

pub struct C39;
pub static P: C39 = C39;

#[derive(Clone, Copy, PartialEq, Eq, Debug)]
enum Op {
    Eq,
    IsNull,
    Gt,
    Lt,
    Gte,
    Lte,
    Like,
    Not,
    Between,
    InList,
    And,
    Or,
    Cast,
    InView,
    OfType,
    RelatedTo,
    BitAnd,
    BitOr,
}

const OPS: [(Op, &str, FilterOperator); 18] = [
    (Op::Eq, "eq", FilterOperator::Equals),
    (Op::IsNull, "isnull", FilterOperator::IsNull),
    (Op::Gt, "gt", FilterOperator::GreaterThan),
    (Op::Lt, "lt", FilterOperator::LessThan),
    (Op::Gte, "gte", FilterOperator::GreaterThanOrEqual),
    (Op::Lte, "lte", FilterOperator::LessThanOrEqual),
    (Op::Like, "like", FilterOperator::Like),
    (Op::Not, "not", FilterOperator::Not),
    (Op::Between, "between", FilterOperator::Between),
    (Op::InList, "inlist", FilterOperator::InList),
    (Op::And, "and", FilterOperator::And),
    (Op::Or, "or", FilterOperator::Or),
    (Op::Cast, "cast", FilterOperator::Cast),
    (Op::InView, "inview", FilterOperator::InView),
    (Op::OfType, "oftype", FilterOperator::OfType),
    (Op::RelatedTo, "relatedto", FilterOperator::RelatedTo),
    (Op::BitAnd, "bitand", FilterOperator::BitwiseAnd),
    (Op::BitOr, "bitor", FilterOperator::BitwiseOr),
];

impl Op {
    fn name(self) -> &'static str {
        OPS.iter().find(|o| o.0 == self).unwrap().1
    }
    fn min_operands(self) -> usize {
        match self {
            Op::IsNull | Op::Not => 1,
            Op::Between => 3,
            _ => 2,
        }
    }
}

/// literal values of the op vocabulary
#[derive(Clone, Debug)]
enum Lit {
    Null,
    Num(T, V),
    Str(Option<String>),
    Nid(Option<T>),
}

#[derive(Clone, Debug)]
enum Opd {
    Elem(u32),
    Attr,
    Undecodable,
    Simple(bool),
    /// SimpleAttributeOperand with a browse path that exists below the event (0 Severity, 1 SourceName)
    Field(u8),
    Lit(Lit),
}

#[derive(Clone, Debug)]
struct Elem {
    op: Op,
    operands: Option<Vec<Opd>>,
}

/// the string alphabet of the op vocabulary (no digits, no letters but a b c: such a string never
/// parses as a number, Boolean, NodeId or Guid)
fn ascii_ok(s: &str) -> bool {
    s.chars().all(|c| STR_ALPHA.contains(&c) || c == '\n')
}

fn parse_str(tok: &str) -> Option<Option<String>> {
    if tok == "-" {
        return Some(None);
    }
    let h = tok.strip_prefix('s')?;
    let bytes = unhex(h)?;
    let s = String::from_utf8(bytes).ok()?;
    if !ascii_ok(&s) {
        return None;
    }
    Some(Some(s))
}

fn show_str(s: &str) -> String {
    format!("s{}", hex(s.as_bytes()))
}

fn parse_operand(tok: &str) -> Option<Opd> {
    match tok {
        "a" => return Some(Opd::Attr),
        "x" => return Some(Opd::Undecodable),
        "s" => return Some(Opd::Simple(true)),
        "s0" => return Some(Opd::Simple(false)),
        "n" => return Some(Opd::Lit(Lit::Null)),
        "sv:sev" => return Some(Opd::Field(0)),
        "sv:src" => return Some(Opd::Field(1)),
        _ => {}
    }
    if let Some(i) = tok.strip_prefix('e') {
        if let Ok(i) = i.parse::<u32>() {
            return Some(Opd::Elem(i));
        }
    }
    let (ty, val) = tok.split_once(':')?;
    match ty {
        "str" => Some(Opd::Lit(Lit::Str(parse_str(val)?))),
        "nid" => {
            if val == "bad" {
                Some(Opd::Lit(Lit::Nid(None)))
            } else {
                Some(Opd::Lit(Lit::Nid(Some(T::parse(val)?))))
            }
        }
        _ => {
            let t = T::parse(ty)?;
            Some(Opd::Lit(Lit::Num(t, c06::parse_val(t, val)?)))
        }
    }
}

fn show_operand(o: &Opd) -> String {
    match o {
        Opd::Elem(i) => format!("e{}", i),
        Opd::Attr => "a".into(),
        Opd::Undecodable => "x".into(),
        Opd::Simple(true) => "s".into(),
        Opd::Simple(false) => "s0".into(),
        Opd::Field(0) => "sv:sev".into(),
        Opd::Field(_) => "sv:src".into(),
        Opd::Lit(Lit::Null) => "n".into(),
        Opd::Lit(Lit::Num(t, v)) => format!("{}:{}", t.name(), c06::show_op_val(*v)),
        Opd::Lit(Lit::Str(None)) => "str:-".into(),
        Opd::Lit(Lit::Str(Some(s))) => format!("str:{}", show_str(s)),
        Opd::Lit(Lit::Nid(None)) => "nid:bad".into(),
        Opd::Lit(Lit::Nid(Some(t))) => format!("nid:{}", t.name()),
    }
}

fn data_type_node(t: T) -> NodeId {
    match t {
        T::Bool => DataTypeId::Boolean.into(),
        T::I8 => DataTypeId::SByte.into(),
        T::U8 => DataTypeId::Byte.into(),
        T::I16 => DataTypeId::Int16.into(),
        T::U16 => DataTypeId::UInt16.into(),
        T::I32 => DataTypeId::Int32.into(),
        T::U32 => DataTypeId::UInt32.into(),
        T::I64 => DataTypeId::Int64.into(),
        T::U64 => DataTypeId::UInt64.into(),
        T::F32 => DataTypeId::Float.into(),
        T::F64 => DataTypeId::Double.into(),
    }
}

fn lit_variant(l: &Lit) -> Variant {
    match l {
        Lit::Null => Variant::Empty,
        Lit::Num(t, v) => c06::to_variant(*t, *v),
        Lit::Str(None) => Variant::String(UAString::null()),
        Lit::Str(Some(s)) => Variant::from(s.as_str()),
        Lit::Nid(None) => Variant::from(NodeId::new(0, 9999u32)),
        Lit::Nid(Some(t)) => Variant::from(data_type_node(*t)),
    }
}

fn real_operand(o: &Opd) -> ExtensionObject {
    match o {
        Opd::Elem(i) => Operand::element(*i).into(),
        Opd::Attr => (&Operand::AttributeOperand(AttributeOperand {
            node_id: NodeId::new(0, 2253u32),
            alias: UAString::null(),
            browse_path: RelativePath { elements: None },
            attribute_id: AttributeId::Value as u32,
            index_range: UAString::null(),
        }))
            .into(),
        Opd::Undecodable => ExtensionObject::null(),
        Opd::Simple(with_path) => Operand::SimpleAttributeOperand(SimpleAttributeOperand {
            type_definition_id: ObjectTypeId::BaseEventType.into(),
            browse_path: if *with_path {
                Some(vec![QualifiedName::new(7, "NoSuchVerifNode")])
            } else {
                None
            },
            attribute_id: AttributeId::Value as u32,
            index_range: UAString::null(),
        })
        .into(),
        Opd::Field(k) => Operand::simple_attribute(
            ObjectTypeId::BaseEventType,
            if *k == 0 { "Severity" } else { "SourceName" },
            AttributeId::Value,
            UAString::null(),
        )
        .into(),
        Opd::Lit(l) => Operand::literal(lit_variant(l)).into(),
    }
}

/// One address space (read only) that holds one raised BaseEventType event: source node = the
/// Server object, Severity 7, SourceName "abc".
struct EventSpace {
    address_space: opcua::server::address_space::AddressSpace,
    event_id: NodeId,
}
unsafe impl Sync for EventSpace {}
unsafe impl Send for EventSpace {}

fn event_space() -> &'static EventSpace {
    use opcua::server::events::event::{BaseEventType, Event};
    static S: std::sync::OnceLock<EventSpace> = std::sync::OnceLock::new();
    S.get_or_init(|| {
        let mut address_space = opcua::server::address_space::AddressSpace::new();
        let ns = address_space.register_namespace("urn:verif:c39").unwrap();
        let event_id = NodeId::new(ns, 1000u32);
        let mut event = BaseEventType::new(
            &event_id,
            ObjectTypeId::BaseEventType,
            "VerifEvent",
            "",
            NodeId::objects_folder_id(),
            DateTime::now(),
        )
        .source_node(ObjectId::Server)
        .source_name("abc")
        .severity(7);
        event.raise(&mut address_space).expect("event raised");
        EventSpace { address_space, event_id }
    })
}

fn real_filter(elems: &[Elem]) -> ContentFilter {
    ContentFilter {
        elements: Some(
            elems
                .iter()
                .map(|e| ContentFilterElement {
                    filter_operator: OPS.iter().find(|o| o.0 == e.op).unwrap().2,
                    filter_operands: e.operands.as_ref().map(|v| v.iter().map(real_operand).collect()),
                })
                .collect(),
        ),
    }
}

fn show_variant(v: &Variant) -> String {
    match v {
        Variant::String(s) => {
            if s.is_null() {
                "str:-".into()
            } else {
                format!("str:{}", show_str(s.as_ref()))
            }
        }
        _ => match c06::from_variant(v) {
            None => "-".into(),
            Some(Err(())) => "other".into(),
            Some(Ok((t, r))) => format!("{}:{}", t.name(), c06::show_val(r)),
        },
    }
}

// ---------------------------------------------------------------------------------------------
// reference evaluator (OPC UA Part 4, 7.4 ContentFilter), written from the specification text
// ---------------------------------------------------------------------------------------------

#[derive(Clone, Debug, PartialEq)]
enum RV {
    Null,
    Bool(bool),
    Int(T, i128),
    F32(f32),
    F64(f64),
    Str(String),
    Nid,
    /// the specification text used here does not determine the value (Cast, …)
    Unknown,
}

#[derive(Debug, PartialEq)]
enum RefErr {
    /// the clause is not well formed (operand count, bad index, cycle, attribute operand, …)
    Malformed,
    Unsupported,
}

fn precedence(t: T) -> u8 {
    match t {
        T::F64 => 1,
        T::F32 => 2,
        T::I64 => 3,
        T::U64 => 4,
        T::I32 => 5,
        T::U32 => 6,
        T::I16 => 8,
        T::U16 => 9,
        T::I8 => 10,
        T::U8 => 11,
        T::Bool => 12,
    }
}

fn rv_type(v: &RV) -> Option<T> {
    match v {
        RV::Bool(_) => Some(T::Bool),
        RV::Int(t, _) => Some(*t),
        RV::F32(_) => Some(T::F32),
        RV::F64(_) => Some(T::F64),
        _ => None,
    }
}

/// implicit conversion of a numeric/Boolean value to a numeric type of higher precedence:
/// the same number, or nothing when it does not fit (property C06)
fn ref_convert(v: &RV, to: T) -> Option<RV> {
    if rv_type(v) == Some(to) {
        return Some(v.clone());
    }
    let as_int: Option<i128> = match v {
        RV::Bool(b) => Some(*b as i128),
        RV::Int(_, x) => Some(*x),
        _ => None,
    };
    match (to, as_int, v) {
        (T::F64, Some(x), _) => Some(RV::F64(x as f64)),
        (T::F32, Some(x), _) => Some(RV::F32(x as f32)),
        (T::F64, None, RV::F32(f)) => Some(RV::F64(*f as f64)),
        (T::Bool, _, _) | (T::F32, _, _) | (T::F64, _, _) => None,
        (t, Some(x), _) => {
            if c06::in_range(t, x) {
                Some(RV::Int(t, x))
            } else {
                None
            }
        }
        _ => None,
    }
}

#[derive(PartialEq, Debug, Clone, Copy)]
enum Cmp {
    Lt,
    Eq,
    Gt,
    Ne,
    Fail,
}

fn ref_compare(a: &RV, b: &RV) -> Option<Cmp> {
    if *a == RV::Unknown || *b == RV::Unknown {
        return None;
    }
    if let (RV::Str(x), RV::Str(y)) = (a, b) {
        return Some(if x == y { Cmp::Eq } else { Cmp::Ne });
    }
    let (ta, tb) = match (rv_type(a), rv_type(b)) {
        (Some(x), Some(y)) => (x, y),
        _ => return Some(Cmp::Fail), // NULL, NodeId, String against a number: no conversion
    };
    let target = if precedence(ta) <= precedence(tb) { ta } else { tb };
    let (a, b) = match (ref_convert(a, target), ref_convert(b, target)) {
        (Some(x), Some(y)) => (x, y),
        _ => return Some(Cmp::Fail),
    };
    fn ord<X: PartialOrd>(x: X, y: X) -> Cmp {
        if x < y {
            Cmp::Lt
        } else if x == y {
            Cmp::Eq
        } else if x > y {
            Cmp::Gt
        } else {
            Cmp::Fail // NaN is not ordered
        }
    }
    Some(match (a, b) {
        (RV::Bool(x), RV::Bool(y)) => {
            if x == y {
                Cmp::Eq
            } else {
                Cmp::Ne
            }
        }
        (RV::Int(_, x), RV::Int(_, y)) => ord(x, y),
        (RV::F32(x), RV::F32(y)) => ord(x, y),
        (RV::F64(x), RV::F64(y)) => ord(x, y),
        _ => Cmp::Fail,
    })
}

/// reference LIKE: `%` any run, `_` exactly one character, `[..]`/`[^..]` lists with ranges,
/// `\` escapes the next character.  None: the pattern is not well formed (unclosed list, …).
#[derive(Debug, Clone)]
enum LTok {
    Lit(char),
    AnyRun,
    AnyOne,
    Class(bool, Vec<(char, char)>),
}

fn like_tokens(p: &str) -> Option<Vec<LTok>> {
    let cs: Vec<char> = p.chars().collect();
    let mut out = Vec::new();
    let mut i = 0;
    while i < cs.len() {
        match cs[i] {
            '\\' => {
                if i + 1 >= cs.len() {
                    return None;
                }
                out.push(LTok::Lit(cs[i + 1]));
                i += 2;
            }
            '%' => {
                out.push(LTok::AnyRun);
                i += 1;
            }
            '_' => {
                out.push(LTok::AnyOne);
                i += 1;
            }
            '[' => {
                i += 1;
                let mut neg = false;
                if i < cs.len() && cs[i] == '^' {
                    neg = true;
                    i += 1;
                }
                let mut items: Vec<char> = Vec::new();
                let mut ranges = Vec::new();
                let mut closed = false;
                // collect (possibly escaped) characters up to the closing bracket
                let mut raw: Vec<(char, bool)> = Vec::new(); // (char, was escaped)
                while i < cs.len() {
                    if cs[i] == ']' {
                        closed = true;
                        i += 1;
                        break;
                    }
                    if cs[i] == '[' {
                        // an unescaped `[` inside a list: not specified
                        return None;
                    }
                    if cs[i] == '\\' {
                        if i + 1 >= cs.len() {
                            return None;
                        }
                        raw.push((cs[i + 1], true));
                        i += 2;
                    } else {
                        raw.push((cs[i], false));
                        i += 1;
                    }
                }
                if !closed || raw.is_empty() {
                    return None;
                }
                let mut k = 0;
                while k < raw.len() {
                    if k + 2 < raw.len() && raw[k + 1] == ('-', false) {
                        if raw[k].0 > raw[k + 2].0 {
                            return None;
                        }
                        ranges.push((raw[k].0, raw[k + 2].0));
                        k += 3;
                    } else {
                        items.push(raw[k].0);
                        k += 1;
                    }
                }
                for c in items {
                    ranges.push((c, c));
                }
                out.push(LTok::Class(neg, ranges));
            }
            c => {
                out.push(LTok::Lit(c));
                i += 1;
            }
        }
    }
    Some(out)
}

fn like_match(toks: &[LTok], s: &[char]) -> bool {
    match toks.first() {
        None => s.is_empty(),
        Some(LTok::AnyRun) => (0..=s.len()).any(|k| like_match(&toks[1..], &s[k..])),
        Some(LTok::AnyOne) => !s.is_empty() && like_match(&toks[1..], &s[1..]),
        Some(LTok::Lit(c)) => !s.is_empty() && s[0] == *c && like_match(&toks[1..], &s[1..]),
        Some(LTok::Class(neg, rs)) => {
            !s.is_empty()
                && (rs.iter().any(|(a, b)| *a <= s[0] && s[0] <= *b) != *neg)
                && like_match(&toks[1..], &s[1..])
        }
    }
}

struct RefCtx<'a> {
    elems: &'a [Elem],
    /// input classes seen while evaluating (for finding classes)
    tags: Vec<&'static str>,
}

impl<'a> RefCtx<'a> {
    fn tag(&mut self, t: &'static str) {
        if !self.tags.contains(&t) {
            self.tags.push(t);
        }
    }

    fn value(&mut self, o: &Opd, path: &mut Vec<u32>) -> Result<RV, RefErr> {
        match o {
            Opd::Elem(i) => {
                if path.contains(i) || *i as usize >= self.elems.len() {
                    return Err(RefErr::Malformed);
                }
                path.push(*i);
                let elems = self.elems;
                let r = self.eval(&elems[*i as usize], path);
                path.pop();
                r
            }
            Opd::Attr | Opd::Undecodable => Err(RefErr::Malformed),
            Opd::Simple(_) => Ok(RV::Null),
            Opd::Field(0) => Ok(RV::Int(T::U16, 7)),
            Opd::Field(_) => Ok(RV::Str("abc".to_string())),
            Opd::Lit(Lit::Null) => Ok(RV::Null),
            Opd::Lit(Lit::Num(t, v)) => Ok(match v {
                V::I(x) => {
                    if *t == T::Bool {
                        RV::Bool(*x == 1)
                    } else {
                        RV::Int(*t, *x)
                    }
                }
                V::F32(f) => RV::F32(*f),
                V::F64(f) => RV::F64(*f),
            }),
            // whether a null String counts as a NULL value is not specified: not checked
            Opd::Lit(Lit::Str(None)) => Ok(RV::Unknown),
            Opd::Lit(Lit::Str(Some(s))) => Ok(RV::Str(s.clone())),
            Opd::Lit(Lit::Nid(_)) => Ok(RV::Nid),
        }
    }

    fn eval(&mut self, e: &Elem, path: &mut Vec<u32>) -> Result<RV, RefErr> {
        let ops = match &e.operands {
            None => return Err(RefErr::Malformed),
            Some(v) => v,
        };
        // an undecodable operand anywhere makes the element invalid
        if ops.iter().any(|o| matches!(o, Opd::Undecodable)) {
            return Err(RefErr::Malformed);
        }
        if ops.len() < e.op.min_operands() {
            return Err(RefErr::Malformed);
        }
        let b = |x: bool| Ok(RV::Bool(x));
        match e.op {
            Op::InView | Op::OfType | Op::RelatedTo => Err(RefErr::Unsupported),
            Op::IsNull => {
                let v = self.value(&ops[0], path)?;
                if v == RV::Unknown {
                    return Ok(RV::Unknown);
                }
                b(v == RV::Null)
            }
            Op::Eq | Op::Gt | Op::Lt | Op::Gte | Op::Lte => {
                let v1 = self.value(&ops[0], path)?;
                let v2 = self.value(&ops[1], path)?;
                self.note_compare(&v1, &v2);
                let c = match ref_compare(&v1, &v2) {
                    None => return Ok(RV::Unknown),
                    Some(c) => c,
                };
                b(match e.op {
                    Op::Eq => c == Cmp::Eq,
                    Op::Gt => c == Cmp::Gt,
                    Op::Lt => c == Cmp::Lt,
                    Op::Gte => c == Cmp::Gt || c == Cmp::Eq,
                    _ => c == Cmp::Lt || c == Cmp::Eq,
                })
            }
            Op::Between => {
                let v0 = self.value(&ops[0], path)?;
                let v1 = self.value(&ops[1], path)?;
                self.note_compare(&v0, &v1);
                let c1 = match ref_compare(&v0, &v1) {
                    None => return Ok(RV::Unknown),
                    Some(c) => c,
                };
                if !(c1 == Cmp::Gt || c1 == Cmp::Eq) {
                    // already FALSE: the upper bound need not be evaluated
                    return b(false);
                }
                let v2 = self.value(&ops[2], path)?;
                self.note_compare(&v0, &v2);
                match ref_compare(&v0, &v2) {
                    None => Ok(RV::Unknown),
                    Some(c) => b(c == Cmp::Lt || c == Cmp::Eq),
                }
            }
            Op::InList => {
                // an operand below which an unsupported operator sits: the implementation treats the
                // single Equals as not TRUE instead of failing the clause; not specified, not checked
                let v0 = match self.value(&ops[0], path) {
                    Err(RefErr::Unsupported) => return Ok(RV::Unknown),
                    r => r?,
                };
                let mut unknown = false;
                let mut found = false;
                for o in &ops[1..] {
                    // "the Equals operator is evaluated for each remaining operand": one that cannot
                    // be evaluated (unsupported operator below it) is not equal
                    let v = match self.value(o, path) {
                        Err(RefErr::Unsupported) => continue,
                        r => r?,
                    };
                    self.note_compare(&v0, &v);
                    match ref_compare(&v0, &v) {
                        None => unknown = true,
                        Some(c) => found |= c == Cmp::Eq,
                    }
                }
                if found {
                    b(true)
                } else if unknown {
                    Ok(RV::Unknown)
                } else {
                    b(false)
                }
            }
            Op::Not => {
                let v = self.value(&ops[0], path)?;
                Ok(match v {
                    RV::Bool(x) => RV::Bool(!x),
                    RV::Unknown => RV::Unknown,
                    _ => RV::Null,
                })
            }
            Op::And | Op::Or => {
                let v1 = self.value(&ops[0], path)?;
                let v2 = self.value(&ops[1], path)?;
                let tri = |v: &RV| match v {
                    RV::Bool(x) => Some(Some(*x)),
                    RV::Unknown => None,
                    _ => Some(None), // NULL
                };
                let (a, c) = (tri(&v1), tri(&v2));
                // Part 4 tables 120 / 121
                let decided = if e.op == Op::And {
                    if a == Some(Some(false)) || c == Some(Some(false)) {
                        Some(RV::Bool(false))
                    } else if a == Some(Some(true)) && c == Some(Some(true)) {
                        Some(RV::Bool(true))
                    } else {
                        None
                    }
                } else if a == Some(Some(true)) || c == Some(Some(true)) {
                    Some(RV::Bool(true))
                } else if a == Some(Some(false)) && c == Some(Some(false)) {
                    Some(RV::Bool(false))
                } else {
                    None
                };
                Ok(match decided {
                    Some(v) => v,
                    None => {
                        if a.is_none() || c.is_none() {
                            RV::Unknown
                        } else {
                            RV::Null
                        }
                    }
                })
            }
            Op::Like => {
                let v1 = self.value(&ops[0], path)?;
                let v2 = self.value(&ops[1], path)?;
                match (&v1, &v2) {
                    (RV::Unknown, _) | (_, RV::Unknown) => Ok(RV::Unknown),
                    // a NodeId converts implicitly to its text: the text format is not this property's
                    (RV::Nid, _) | (_, RV::Nid) => Ok(RV::Unknown),
                    (RV::Str(s), RV::Str(p)) => {
                        if p.contains('_') {
                            self.tag("like-underscore");
                        }
                        if s.contains('\n') {
                            self.tag("like-newline");
                        }
                        // an escaped backslash directly before a wildcard or list
                        let pc: Vec<char> = p.chars().collect();
                        let mut i = 0;
                        while i < pc.len() {
                            if pc[i] == '\\' {
                                if i + 2 < pc.len() && pc[i + 1] == '\\' && matches!(pc[i + 2], '%' | '_' | '[') {
                                    self.tag("like-escaped-backslash");
                                }
                                i += 2;
                            } else {
                                i += 1;
                            }
                        }
                        match like_tokens(p) {
                            None => Ok(RV::Unknown), // malformed pattern: not specified
                            Some(t) => {
                                let cs: Vec<char> = s.chars().collect();
                                b(like_match(&t, &cs))
                            }
                        }
                    }
                    _ => b(false),
                }
            }
            Op::Cast => {
                // operands must be well formed; the value is outside this property
                self.value(&ops[0], path)?;
                self.value(&ops[1], path)?;
                Ok(RV::Unknown)
            }
            Op::BitAnd | Op::BitOr => {
                let v1 = self.value(&ops[0], path)?;
                let v2 = self.value(&ops[1], path)?;
                if v1 == RV::Unknown || v2 == RV::Unknown {
                    return Ok(RV::Unknown);
                }
                // integers; a Boolean next to an integer converts implicitly to that integer type
                let (t1, t2) = match (&v1, &v2) {
                    (RV::Int(a, _), RV::Int(c, _)) => (*a, *c),
                    (RV::Int(a, _), RV::Bool(_)) => (*a, T::Bool),
                    (RV::Bool(_), RV::Int(c, _)) => (T::Bool, *c),
                    _ => return Ok(RV::Null),
                };
                let target = if precedence(t1) <= precedence(t2) { t1 } else { t2 };
                match (ref_convert(&v1, target), ref_convert(&v2, target)) {
                    (Some(RV::Int(_, x)), Some(RV::Int(_, y))) => {
                        // sign-extended two's complement: & and | commute with sign extension
                        Ok(RV::Int(target, if e.op == Op::BitAnd { x & y } else { x | y }))
                    }
                    _ => {
                        self.tag("conversion-fails");
                        Ok(RV::Null)
                    }
                }
            }
        }
    }

    fn note_compare(&mut self, a: &RV, b: &RV) {
        let nan = |v: &RV| match v {
            RV::F32(f) => f.is_nan(),
            RV::F64(f) => f.is_nan(),
            _ => false,
        };
        if nan(a) || nan(b) {
            self.tag("nan");
        }
        if matches!(a, RV::Str(_)) && matches!(b, RV::Str(_)) {
            self.tag("string-string");
        }
        if let (Some(ta), Some(tb)) = (rv_type(a), rv_type(b)) {
            let target = if precedence(ta) <= precedence(tb) { ta } else { tb };
            if ref_convert(a, target).is_none() || ref_convert(b, target).is_none() {
                self.tag("conversion-fails");
            }
        }
    }
}

fn show_rv(v: &RV) -> String {
    match v {
        RV::Null | RV::Nid => "-".into(),
        RV::Bool(b) => format!("bool:{}", *b as u8),
        RV::Int(t, x) => format!("{}:{}", t.name(), x),
        RV::F32(f) => format!("f32:{}", c06::show_val(V::F32(*f))),
        RV::F64(f) => format!("f64:{}", c06::show_val(V::F64(*f))),
        RV::Str(s) => format!("str:{}", show_str(s)),
        RV::Unknown => "?".into(),
    }
}

/// class tag of a clause: what kinds of malformation / special inputs it contains
fn clause_class(elems: &[Elem], tags: &[&'static str]) -> String {
    let mut c: Vec<&str> = Vec::new();
    let mut add = |s: &'static str| {
        if !c.contains(&s) {
            c.push(s)
        }
    };
    for e in elems {
        match &e.operands {
            None => add("no-operands"),
            Some(v) => {
                if v.len() < e.op.min_operands() {
                    add("too-few-operands");
                }
                for o in v {
                    match o {
                        Opd::Elem(i) if *i as usize >= elems.len() => add("element-out-of-range"),
                        Opd::Attr => add("attribute-operand"),
                        Opd::Undecodable => add("undecodable-operand"),
                        _ => {}
                    }
                }
            }
        }
    }
    for t in tags {
        add(t);
    }
    if c.is_empty() {
        "wellformed".to_string()
    } else {
        c.sort();
        c.join("+")
    }
}

// ---------------------------------------------------------------------------------------------
// generator
// ---------------------------------------------------------------------------------------------

const STR_ALPHA: [char; 17] = [
    'a', 'b', 'c', '%', '_', '.', '*', '?', '+', '(', ')', '$', '^', '[', ']', '-', '\\',
];

fn gen_string(rng: &mut Rng) -> String {
    let n = rng.weighted(&[2, 4, 5, 4, 2, 1]);
    let mut s = String::new();
    for _ in 0..n {
        match rng.weighted(&[12, 3, 1]) {
            0 => s.push(*rng.pick(&['a', 'b', 'c'])),
            1 => s.push(*rng.pick(&STR_ALPHA)),
            _ => s.push('\n'),
        }
    }
    s
}

/// a LIKE pattern built from tokens (mostly well formed), so that a single backslash is always
/// followed by one of `% _ [ ] \`
fn gen_pattern(rng: &mut Rng) -> String {
    let n = rng.weighted(&[1, 3, 5, 5, 3, 2]);
    let mut p = String::new();
    let class_item = |rng: &mut Rng, p: &mut String| match rng.weighted(&[8, 4, 2, 1, 1]) {
        0 => p.push(*rng.pick(&['a', 'b', 'c'])),
        1 => {
            let (a, b) = *rng.pick(&[('a', 'c'), ('a', 'b'), ('b', 'c'), ('a', 'a'), ('c', 'a')]);
            p.push(a);
            p.push('-');
            p.push(b);
        }
        2 => p.push(*rng.pick(&['.', '*', '?', '+', '(', ')', '$', '%', '_'])),
        3 => p.push_str("\\]"),
        _ => {
            // a literal ^ is only written where it cannot be read as the negation
            if !p.ends_with('[') {
                p.push('^')
            } else {
                p.push('a')
            }
        }
    };
    for _ in 0..n {
        match rng.weighted(&[10, 5, 4, 5, 2, 2, 1, 1]) {
            0 => p.push(*rng.pick(&['a', 'b', 'c'])),
            1 => p.push('%'),
            2 => p.push('_'),
            3 => {
                p.push('[');
                if rng.chance(1, 4) {
                    p.push('^');
                }
                for _ in 0..rng.range(1, 3) {
                    class_item(rng, &mut p);
                }
                if rng.chance(1, 6) {
                    p.push('-');
                }
                p.push(']');
            }
            4 => p.push(*rng.pick(&['.', '*', '?', '+', '(', ')', '$', '^', '-'])),
            5 => p.push_str(*rng.pick(&[
                "\\%", "\\_", "\\[", "\\]", "\\\\", "\\.", "\\*", "\\?", "\\^", "\\$", "\\(", "\\\\%", "\\\\_", "\\a", "\\b", "\\c", "\\-",
            ])),
            6 => p.push(']'),
            _ => p.push_str("[c-a]"),
        }
    }
    if rng.chance(1, 12) {
        // malformed tail: unclosed / empty list
        p.push_str(*rng.pick(&["[", "[]", "[^]", "[ab", "[a", "[^"]));
    }
    p
}

fn gen_literal(rng: &mut Rng, want: u8) -> Opd {
    // want: 0 anything, 1 Boolean-ish, 2 numeric, 3 string
    let k = match want {
        1 => rng.weighted(&[6, 2, 1, 0, 1]),
        2 => rng.weighted(&[0, 1, 12, 0, 1]),
        3 => rng.weighted(&[0, 1, 1, 10, 0]),
        4 => 4,
        _ => rng.weighted(&[2, 2, 6, 2, 1]),
    };
    Opd::Lit(match k {
        0 => Lit::Num(T::Bool, V::I(rng.below(2) as i128)),
        1 => Lit::Null,
        2 => {
            let t = *rng.pick(&c06::ALL[1..]);
            if rng.chance(1, 2) {
                // small values so that comparisons are often equal
                match t {
                    T::F32 => Lit::Num(t, V::F32(rng.range(-2, 3) as f32)),
                    T::F64 => Lit::Num(t, V::F64(rng.range(-2, 3) as f64 * 0.5)),
                    _ => {
                        let (lo, hi) = t.range();
                        Lit::Num(t, V::I((rng.range(-2, 3) as i128).max(lo).min(hi)))
                    }
                }
            } else {
                Lit::Num(t, c06::gen_val(rng, t))
            }
        }
        3 => {
            if rng.chance(1, 12) {
                Lit::Str(None)
            } else {
                Lit::Str(Some(gen_string(rng)))
            }
        }
        _ => {
            if rng.chance(1, 5) {
                Lit::Nid(None)
            } else {
                Lit::Nid(Some(*rng.pick(&c06::ALL)))
            }
        }
    })
}

fn gen_case(rng: &mut Rng, out: &mut Vec<String>) {
    out.push("reset".to_string());
    let kind = rng.weighted(&[10, 6, 4]);
    if kind == 1 {
        // LIKE: pattern and a few subject strings
        let p = gen_pattern(rng);
        out.push(format!("likere {}", show_str(&p)));
        for _ in 0..3 {
            // subjects: random, or derived from the pattern's literal characters
            let s = if rng.chance(1, 2) {
                gen_string(rng)
            } else {
                p.chars()
                    .filter(|c| !matches!(c, '%' | '[' | ']' | '\\' | '^'))
                    .map(|c| if c == '_' || c == '-' { *rng.pick(&['a', 'b', 'c']) } else { c })
                    .collect()
            };
            out.push("reset".to_string());
            out.push(format!("elem like str:{} str:{}", show_str(&s), show_str(&p)));
            out.push("validate".to_string());
            out.push("eval".to_string());
        }
        return;
    }
    let n = rng.range(1, 6) as u32;
    let malformed = kind == 2;
    for i in 0..n {
        let op = OPS[rng.weighted(&[8, 3, 5, 5, 4, 4, 2, 5, 4, 4, 6, 6, 3, 1, 1, 1, 4, 4])].0;
        let want = match op {
            Op::And | Op::Or | Op::Not => 1,
            Op::Like => 3,
            Op::IsNull | Op::Cast => 0,
            _ => 2,
        };
        let mut count = match op {
            Op::IsNull | Op::Not => 1,
            Op::Between => 3,
            Op::InList => rng.range(2, 5) as usize,
            _ => 2,
        };
        if malformed && rng.chance(1, 3) {
            count = rng.below(count as u64 + 1) as usize; // possibly too few
        } else if rng.chance(1, 15) {
            count += 1; // surplus operands are ignored
        }
        let mut toks = Vec::new();
        for k in 0..count {
            let o = if op == Op::Cast && k == 1 && rng.chance(5, 6) {
                gen_literal(rng, 4)
            } else if op == Op::Like && k == 1 && rng.chance(9, 10) {
                // the pattern operand comes from the pattern grammar (modelled regex subset)
                Opd::Lit(Lit::Str(Some(gen_pattern(rng))))
            } else if i + 1 < n && rng.chance(2, 5) {
                Opd::Elem(rng.range(i as i64 + 1, n as i64 - 1) as u32)
            } else if malformed && rng.chance(1, 4) {
                match rng.below(5) {
                    0 => Opd::Elem(rng.range(0, n as i64 + 2) as u32), // cycle or out of range
                    1 => Opd::Elem(u32::MAX),
                    2 => Opd::Attr,
                    3 => Opd::Undecodable,
                    _ => Opd::Simple(rng.chance(1, 2)),
                }
            } else if rng.chance(1, 25) {
                Opd::Simple(rng.chance(1, 2))
            } else if rng.chance(1, 20) {
                Opd::Field(rng.below(2) as u8)
            } else {
                gen_literal(rng, want)
            };
            toks.push(show_operand(&o));
        }
        if malformed && rng.chance(1, 20) {
            out.push(format!("elem {} -", op.name()));
        } else {
            out.push(format!("elem {} {}", op.name(), toks.join(" ")).trim_end().to_string());
        }
    }
    out.push("validate".to_string());
    out.push("eval".to_string());
    if rng.chance(1, 3) {
        out.push("evalevent".to_string());
    }
}

fn hexs(x: &str) -> String {
    format!("str:{}", show_str(x))
}

/// Deterministic small-scope enumeration: every case is one short clause + `validate` + `eval`.
fn sweep_cases() -> Vec<Vec<String>> {
    let mut cases: Vec<Vec<String>> = Vec::new();
    let mut k = 0usize;
    let mut clause = |elems: &[String]| {
        let mut c = vec!["reset".to_string()];
        c.extend(elems.iter().map(|e| format!("elem {}", e)));
        c.push("validate".to_string());
        c.push("eval".to_string());
        // `event_filter::evaluate` walks the whole address space for events: every 4th clause
        k += 1;
        if k % 4 == 0 {
            c.push("evalevent".to_string());
        }
        cases.push(c);
    };
    // representative literals of every value class (and of every conversion outcome)
    let lits: Vec<String> = vec![
        "n".into(),
        "bool:0".into(),
        "bool:1".into(),
        "i8:-1".into(),
        "u8:1".into(),
        "i16:2".into(),
        "i32:1".into(),
        "i32:-1".into(),
        "u64:1".into(),
        "u64:18446744073709551615".into(),
        "i64:-1".into(),
        "f32:g3f800000".into(), // 1.0
        "f64:f3ff0000000000000".into(), // 1.0
        "f64:f3fe0000000000000".into(), // 0.5
        "f64:f7ff8000000000000".into(), // NaN
        "f64:fbff0000000000000".into(), // -1.0
        hexs("a"),
        hexs("b"),
        "str:-".into(),
        "nid:i32".into(),
        "nid:bad".into(),
        "s".into(),
        "sv:sev".into(),
        "sv:src".into(),
    ];
    // (a) operand counts: None, empty, below / at / above the minimum, for every operator
    for (op, name, _) in OPS.iter() {
        let min = op.min_operands();
        let arg = match op {
            Op::And | Op::Or | Op::Not => "bool:1",
            Op::Like => "str:s61",
            _ => "i32:1",
        };
        clause(&[format!("{} -", name)]);
        clause(&[name.to_string()]);
        for k in 1..=min + 1 {
            clause(&[format!("{} {}", name, vec![arg; k].join(" "))]);
        }
    }
    // every operator over an element that is unsupported, and with an undecodable operand
    for (op, name, _) in OPS.iter() {
        let min = op.min_operands();
        let mut a = vec!["e1"; 1];
        a.extend(vec!["i32:1"; min.max(2) - 1]);
        clause(&[format!("{} {}", name, a.join(" ")), "oftype i32:1 i32:1".into()]);
        let mut b = vec!["i32:1"; min.max(2) - 1];
        b.push("e1");
        clause(&[format!("{} {}", name, b.join(" ")), "oftype i32:1 i32:1".into()]);
        let mut c = vec!["i32:1"; min.max(2) - 1];
        c.push("x");
        clause(&[format!("{} {}", name, c.join(" "))]);
    }
    // (b) three-valued logic: all rows of the And / Or / Not tables, NULL both as the NULL literal
    //     and as a value that does not resolve to a Boolean
    let tri = ["bool:1", "bool:0", "n", "i32:1", "str:s61"];
    for a in tri {
        clause(&[format!("not {}", a)]);
        for b in tri {
            clause(&[format!("and {} {}", a, b)]);
            clause(&[format!("or {} {}", a, b)]);
        }
    }
    // (c) comparison of every pair of value classes with every comparison operator
    for (i, a) in lits.iter().enumerate() {
        for (j, b) in lits.iter().enumerate() {
            clause(&[format!("eq {} {}", a, b)]);
            // the ordering operators on the classes that can be ordered (and NULL)
            if i < 16 && j < 16 {
                for op in ["gt", "lt", "gte", "lte"] {
                    clause(&[format!("{} {} {}", op, a, b)]);
                }
            }
        }
    }
    // (c2) operator::convert over every ordered pair of the 11 numeric types: the extremes of each
    //      side against 1 (the conversion towards the higher precedence fails or not) and 1 against 1
    for st in c06::ALL {
        for dt in c06::ALL {
            let ext = |t: T| -> (V, V, V) {
                match t {
                    T::F32 => (V::F32(f32::MIN), V::F32(f32::MAX), V::F32(1.0)),
                    T::F64 => (V::F64(f64::MIN), V::F64(f64::MAX), V::F64(1.0)),
                    _ => {
                        let (lo, hi) = t.range();
                        (V::I(lo), V::I(hi), V::I(1))
                    }
                }
            };
            let (slo, shi, sone) = ext(st);
            let (dlo, dhi, done) = ext(dt);
            let lit = |t: T, v: V| format!("{}:{}", t.name(), c06::show_op_val(v));
            for (a, b) in [(shi, done), (slo, done), (sone, done), (sone, dhi), (sone, dlo)] {
                clause(&[format!("eq {} {}", lit(st, a), lit(dt, b))]);
            }
            clause(&[format!("lt {} {}", lit(st, slo), lit(dt, dhi))]);
            // the direction of the conversion decides these two (1 < MAX, MAX > 1)
            clause(&[format!("lt {} {}", lit(st, sone), lit(dt, dhi))]);
            clause(&[format!("gt {} {}", lit(st, shi), lit(dt, done))]);
            clause(&[format!("bitand {} {}", lit(st, shi), lit(dt, dhi))]);
        }
    }
    // (d) operand kinds in a unary and in both positions of a binary operator
    for o in ["e0", "e1", "e2", "e3", "e4", "e4294967295", "a", "x", "s", "s0", "n"] {
        clause(&[format!("not {}", o), "eq i32:1 i32:1".into(), "not e1".into()]);
        clause(&[format!("and {} bool:1", o), "eq i32:1 i32:1".into(), "not e1".into()]);
        clause(&[format!("or bool:0 {}", o), "eq i32:1 i32:1".into(), "not e1".into()]);
        clause(&[format!("isnull {}", o), "eq i32:1 i32:1".into(), "not e0".into()]);
    }
    // cycles through an ancestor further up
    clause(&["not e1".into(), "not e2".into(), "not e0".into()]);
    clause(&["not e1".into(), "not e2".into(), "not e1".into()]);
    clause(&["and e1 e1".into(), "not e2".into(), "isnull n".into()]);
    // (e) Between: every ordering of the value against both bounds, and failing conversions
    for v in ["i32:0", "i32:1", "i32:2", "f64:f7ff8000000000000", "n", "u64:1", "bool:1"] {
        for lo in ["i32:0", "i32:1", "i32:2", "n", "i8:-1", "bool:1", "bool:0"] {
            for hi in ["i32:0", "i32:1", "i32:2", "n", "i8:-1", "e1", "bool:1", "bool:0"] {
                clause(&[format!("between {} {} {}", v, lo, hi), "oftype i32:1 i32:1".into()]);
            }
        }
    }
    // (f) InList: match first / middle / last / none, lists of 1..3, errors inside the list
    for l in [
        "i32:1 i32:1",
        "i32:1 i32:2",
        "i32:1 i32:2 i32:1",
        "i32:1 i32:1 i32:2",
        "i32:1 i32:2 i32:3 i32:1",
        "i32:1 i32:2 i32:3 i32:4",
        "i32:1 n u8:1",
        "i32:1 e1 u8:1",
        "i32:1 e7 u8:1",
        "i32:1 a u8:1",
        "e1 i32:1",
        "u64:1 i32:-1 u64:1",
        "str:s61 str:s62 str:s61",
    ] {
        clause(&[format!("inlist {}", l), "oftype i32:1 i32:1".into()]);
    }
    // (g) bitwise: every pair of value classes, both operators
    let bits = ["n", "bool:1", "i8:-1", "u8:3", "i32:-1", "i32:6", "u64:1", "u64:18446744073709551615", "f64:f3ff0000000000000", "str:s61", "nid:i32"];
    for a in bits {
        for b in bits {
            clause(&[format!("bitand {} {}", a, b)]);
            clause(&[format!("bitor {} {}", a, b)]);
        }
    }
    // (h) Cast: every data type node, an unknown node, something that is not a NodeId
    for v in ["u8:200", "i32:-1", "i32:0", "i32:1", "f64:fc004000000000000", "bool:1", "bool:0", "n", "str:s61", "u64:18446744073709551615"] {
        for t in ["bool", "i8", "u8", "i16", "u16", "i32", "u32", "i64", "u64", "f32", "f64", "bad"] {
            clause(&[format!("cast {} nid:{}", v, t)]);
        }
        clause(&[format!("cast {} i32:6", v)]);
        clause(&[format!("cast {} n", v)]);
    }
    // (i) LIKE: one pattern per feature of the translation and of the regex syntax
    let subjects = ["", "a", "ab", "abc", "a.c", "a\\b", "\\", "%", "]", "a-c", "^", "a\nb", "a?b", "a]b", "a%b", "acb"];
    for p in [
        "", "a", "abc", "%", "a%", "%a", "%a%", "a%c", "_", "__", "a_", "_a", "a_c", "%_", "_%", "a__", "%__", "a%_",
        "[a]", "[ab]", "[a-c]", "[^a]", "[^a-c]", "[]]", "[^]]", "[a-]", "[-a]", "[c-a]", "[a", "[", "[]", "[^]", "[^",
        "[.]", "[*]", "[%]", "[_]", "[\\]]", "[\\\\]", "[a\\]", "[a^]", "a[bc]d", "[a]_", "[a]%", "[ab]__",
        ".", "*", "?", "+", "(", ")", "$", "^", "-", "]", "a.c", "a$", "^a",
        "\\%", "\\_", "\\[", "\\]", "\\\\", "\\.", "\\*", "\\a", "\\-", "\\^", "\\\\%", "\\\\_", "a\\", "\\", "\\\\\\",
        // every character of the alphabet escaped (each member and non-member of regex::escape's set)
        "\\?", "\\+", "\\(", "\\)", "\\$", "\\b", "\\c", "a\\?b", "a\\+b", "a\\(b", "a\\)b", "a\\$b", "a\\.b", "a\\*b",
        "a\\^b", "a\\-b", "a\\[b", "a\\]b", "a\\%b", "a\\_b", "a\\\\b", "a\\cb",
    ] {
        let mut c = vec!["reset".to_string(), format!("likere {}", show_str(p))];
        for s in subjects {
            c.push("reset".to_string());
            c.push(format!("elem like {} {}", hexs(s), hexs(p)));
            c.push("eval".to_string());
        }
        cases.push(c);
    }
    // LIKE with operands that are not strings
    let classes = ["n", "bool:1", "i32:1", "f64:f3ff0000000000000", "str:s61", "str:s25", "str:-", "nid:i32", "s"];
    for a in classes {
        for b in classes {
            let mut c = vec!["reset".to_string()];
            c.push(format!("elem like {} {}", a, b));
            c.push("validate".to_string());
            c.push("eval".to_string());
            cases.push(c);
        }
    }
    cases.push(vec!["reset".into(), "nullclause".into(), "validate".into(), "eval".into(), "evalevent".into()]);
    cases
}

/// One token of the LIKE pattern grammar: its text and strings it is meant to match (probes only —
/// the reference matcher decides what is expected).
#[derive(Clone)]
struct LTk {
    text: String,
    samples: Vec<String>,
}

fn ltk(text: &str, samples: &[&str]) -> LTk {
    LTk {
        text: text.to_string(),
        samples: samples.iter().map(|s| s.to_string()).collect(),
    }
}

/// Patterns from a grammar, exhaustively up to a small size: simple tokens (literals, wildcards,
/// every escaped special incl. `\\`, regex metas, stray brackets), lists (members: literals, ranges,
/// escaped `\\ \] \[ \^ \-`, unescaped `^ - . % _`; 1–3 members, each member at first / middle / last
/// position, negated or not), lists in every context (alone, before / after / between wildcards and
/// literals, after an escaped backslash), pairs and triples of simple tokens, list pairs.
fn like_grammar_cases(thorough: bool) -> Vec<Vec<String>> {
    let simple: Vec<LTk> = vec![
        ltk("a", &["a"]),
        ltk("b", &["b"]),
        ltk("%", &["", "ab"]),
        ltk("_", &["a"]),
        ltk("\\\\", &["\\"]),
        ltk("\\%", &["%"]),
        ltk("\\_", &["_"]),
        ltk("\\[", &["["]),
        ltk("\\]", &["]"]),
        ltk("\\^", &["^"]),
        ltk("\\-", &["-"]),
        ltk("\\a", &["a"]),
        ltk(".", &["."]),
        ltk("^", &["^"]),
        ltk("-", &["-"]),
        ltk("]", &["]"]),
    ];
    let members: Vec<(&str, char)> = vec![
        ("a", 'a'),
        ("b", 'b'),
        ("a-b", 'b'),
        ("\\\\", '\\'),
        ("\\]", ']'),
        ("\\[", '['),
        ("\\^", '^'),
        ("\\-", '-'),
        ("^", '^'),
        ("-", '-'),
        (".", '.'),
        ("%", '%'),
        ("_", '_'),
        ("\\%", '%'),
        ("\\_", '_'),
        ("\\.", '.'),
        ("\\a", 'a'),
    ];
    let m3: Vec<usize> = if thorough { vec![0, 2, 3, 4, 5, 8, 9, 11, 15] } else { vec![0, 3, 4, 9] };
    let mut bodies: Vec<Vec<usize>> = Vec::new();
    for i in 0..members.len() {
        bodies.push(vec![i]);
    }
    for i in 0..members.len() {
        for j in 0..members.len() {
            bodies.push(vec![i, j]);
        }
    }
    for &i in &m3 {
        for &j in &m3 {
            for &k in &m3 {
                bodies.push(vec![i, j, k]);
            }
        }
    }
    let mut lists: Vec<(LTk, usize)> = Vec::new(); // (token, number of members)
    for b in &bodies {
        // `--` inside a list is the regex crate's set difference: outside the modelled subset
        if b.windows(2).any(|w| members[w[0]].0 == "-" && members[w[1]].0 == "-") {
            continue;
        }
        for neg in [false, true] {
            let mut text = String::from("[");
            if neg {
                text.push('^');
            }
            for &i in b {
                text.push_str(members[i].0);
            }
            text.push(']');
            let inside: Vec<char> = b.iter().map(|&i| members[i].1).collect();
            let sample: String = if neg {
                ['c', 'a', 'b', '\\', ']', '%'].iter().find(|c| !inside.contains(c)).unwrap_or(&'c').to_string()
            } else {
                inside[0].to_string()
            };
            lists.push((
                LTk {
                    text,
                    samples: vec![sample],
                },
                b.len(),
            ));
        }
    }
    let mut patterns: Vec<Vec<LTk>> = Vec::new();
    let pct = simple[2].clone();
    let und = simple[3].clone();
    let la = simple[0].clone();
    let bsl = simple[4].clone();
    for (l, n) in &lists {
        patterns.push(vec![l.clone()]);
        patterns.push(vec![l.clone(), pct.clone()]);
        if *n <= 2 || thorough {
            patterns.push(vec![pct.clone(), l.clone()]);
        }
        if *n == 1 || thorough {
            patterns.push(vec![la.clone(), l.clone(), und.clone()]);
            patterns.push(vec![l.clone(), und.clone()]);
            patterns.push(vec![l.clone(), la.clone()]);
            patterns.push(vec![und.clone(), l.clone()]);
            patterns.push(vec![bsl.clone(), l.clone()]);
            patterns.push(vec![pct.clone(), l.clone(), pct.clone()]);
            patterns.push(vec![l.clone(), simple[13].clone()]);
        }
    }
    for a in &simple {
        patterns.push(vec![a.clone()]);
        for b in &simple {
            patterns.push(vec![a.clone(), b.clone()]);
        }
    }
    let s8: Vec<usize> = if thorough { (0..simple.len()).collect() } else { vec![0, 2, 3, 4, 7, 8] };
    for &i in &s8 {
        for &j in &s8 {
            for &k in &s8 {
                patterns.push(vec![simple[i].clone(), simple[j].clone(), simple[k].clone()]);
            }
        }
    }
    // nested-looking brackets and list pairs
    // (a non-negated list that starts with a literal `^` reads as a negation; as the first of two lists
    // it makes the second one a nested negated class, which is outside the modelled subset)
    let few: Vec<&(LTk, usize)> = lists
        .iter()
        .filter(|(l, n)| *n == 1 && l.text != "[^]")
        .filter(|(l, _)| thorough || ["[a]", "[^a]", "[\\\\]", "[^\\\\]", "[\\]]", "[\\[]", "[-]", "[%]"].contains(&l.text.as_str()))
        .collect();
    for (a, _) in few.iter() {
        for (b, _) in few.iter() {
            patterns.push(vec![a.clone(), b.clone()]);
        }
    }
    for p in ["[[a]]", "[[a]", "[a[b]]", "[a][", "[]a]", "[^]a]", "[a]]", "[[]", "[\\[a]]", "[a\\]", "[a\\\\\\]", "[a\\\\\\]]%", "[\\\\[a]]", "[\\\\[a]]%"] {
        patterns.push(vec![ltk(p, &["a"])]);
    }
    let mut cases = Vec::new();
    for p in patterns {
        let text: String = p.iter().map(|t| t.text.as_str()).collect();
        let s1: String = p.iter().map(|t| t.samples[0].as_str()).collect();
        let s2: String = p.iter().map(|t| t.samples[t.samples.len() - 1].as_str()).collect();
        let mut subjects = vec![s1.clone(), s2, format!("{}b", s1)];
        if thorough {
            let mut cut = s1.clone();
            cut.pop();
            subjects.push(cut);
        }
        subjects.dedup();
        let mut c = vec!["reset".to_string(), format!("likere {}", show_str(&text))];
        for sub in subjects {
            c.push("reset".to_string());
            c.push(format!("elem like {} {}", hexs(&sub), hexs(&text)));
            c.push("eval".to_string());
        }
        cases.push(c);
    }
    cases
}

impl Prop for C39 {
    fn id(&self) -> &'static str {
        "C39"
    }

    fn gen(&self, rng: &mut Rng, n: usize, _tier: Tier, out: &mut Vec<String>) {
        // 1. systematic single-step sweep (operand counts, truth tables, comparison class pairs,
        //    operand kinds, Between/InList outcomes, bitwise, Cast targets, LIKE syntax features)
        let mut sweep = sweep_cases();
        sweep.extend(like_grammar_cases(_tier == Tier::Thorough));
        let m = sweep.len().min(n);
        for c in &sweep[..m] {
            out.extend(c.iter().cloned());
        }
        // 2. random filters
        for _ in m..n {
            gen_case(rng, out);
        }
    }

    fn runner(&self) -> Box<dyn Runner> {
        Box::new(R { elems: Vec::new() })
    }
}

/// The address space is only read (SimpleAttributeOperands that resolve to nothing), so the
/// shared fixture can be used: a case never depends on an earlier one.
struct R {
    elems: Vec<Elem>,
}

impl R {
    fn class_now(&self) -> String {
        let mut ctx = RefCtx {
            elems: &self.elems,
            tags: Vec::new(),
        };
        if !self.elems.is_empty() {
            let mut path = vec![0u32];
            let _ = ctx.eval(&self.elems[0], &mut path);
        }
        clause_class(&self.elems, &ctx.tags)
    }
}

impl Runner for R {
    fn step(&mut self, toks: &[&str]) -> (String, Verdict) {
        match toks {
            ["reset"] => {
                self.elems.clear();
                ("ok".to_string(), Verdict::Ok)
            }
            ["elem", op, rest @ ..] => {
                let op = match OPS.iter().find(|o| o.1 == *op) {
                    Some(o) => o.0,
                    None => return ("bad-op".to_string(), Verdict::Ok),
                };
                let operands = if rest.len() == 1 && rest[0] == "-" {
                    None
                } else {
                    let mut v = Vec::new();
                    for t in rest {
                        match parse_operand(t) {
                            Some(o) => v.push(o),
                            None => return ("bad-op".to_string(), Verdict::Ok),
                        }
                    }
                    Some(v)
                };
                self.elems.push(Elem { op, operands });
                (format!("ok {}", self.elems.len()), Verdict::Ok)
            }
            ["validate"] => {
                let filter = EventFilter {
                    select_clauses: None,
                    where_clause: real_filter(&self.elems),
                };
                match event_filter::validate(&filter, &event_space().address_space) {
                    Ok(r) => {
                        let codes: Vec<String> = r
                            .where_clause_result
                            .element_results
                            .unwrap_or_default()
                            .iter()
                            .map(|e| format!("{}", e.status_code))
                            .collect();
                        (format!("ok [{}]", codes.join(",")), Verdict::Ok)
                    }
                    Err(e) => (format!("err {}", e), Verdict::Ok),
                }
            }
            ["eval"] => {
                let filter = real_filter(&self.elems);
                // the clause is evaluated against the raised event (as event_filter::evaluate does)
                let es = event_space();
                let res = hook::evaluate_where_clause(&es.event_id, &filter, &es.address_space);
                let line = match &res {
                    Ok(v) => format!("ok {}", show_variant(v)),
                    Err(e) => format!("err {}", e),
                };
                // oracle: the reference evaluator
                let mut ctx = RefCtx {
                    elems: &self.elems,
                    tags: Vec::new(),
                };
                let expected = if self.elems.is_empty() {
                    Ok(RV::Bool(true))
                } else {
                    let mut path = vec![0u32];
                    ctx.eval(&self.elems[0], &mut path)
                };
                let class = clause_class(&self.elems, &ctx.tags);
                let verdict = match (&expected, &res) {
                    (Err(RefErr::Malformed), _) => Verdict::Ok, // only "no panic" is required
                    (Err(RefErr::Unsupported), Err(_)) => Verdict::Ok,
                    (Err(RefErr::Unsupported), Ok(v)) => Verdict::fail(
                        "unsupported_operator_error",
                        &class,
                        format!("unsupported operator evaluated to {}", show_variant(v)),
                    ),
                    (Ok(RV::Unknown), _) => Verdict::Ok,
                    (Ok(want), Ok(got)) => {
                        if show_rv(want) == show_variant(got) {
                            Verdict::Ok
                        } else {
                            Verdict::fail(
                                "operator_semantics",
                                &class,
                                format!("got {} want {}", show_variant(got), show_rv(want)),
                            )
                        }
                    }
                    (Ok(want), Err(e)) => Verdict::fail(
                        "wellformed_evaluates",
                        &class,
                        format!("got error {} want {}", e, show_rv(want)),
                    ),
                };
                (line, verdict)
            }
            ["nullclause"] => {
                // a ContentFilter without an element array (`elements: None`)
                let es = event_space();
                let filter = ContentFilter { elements: None };
                let res = hook::evaluate_where_clause(&es.event_id, &filter, &es.address_space);
                let val = event_filter::validate(
                    &EventFilter {
                        select_clauses: None,
                        where_clause: ContentFilter { elements: None },
                    },
                    &es.address_space,
                );
                let r = match &res {
                    Ok(v) => format!("ok {}", show_variant(v)),
                    Err(e) => format!("err {}", e),
                };
                let v = match val {
                    Ok(r) => match r.where_clause_result.element_results {
                        None => "none".to_string(),
                        Some(v) => format!("{}", v.len()),
                    },
                    Err(e) => format!("err:{}", e),
                };
                let verdict = if res == Ok(Variant::Boolean(true)) {
                    Verdict::Ok
                } else {
                    Verdict::fail("operator_semantics", "null-clause", "a clause without elements must be TRUE")
                };
                (format!("{} {}", r, v), verdict)
            }
            ["evalevent"] => {
                // the public entry point: events of the Server object that pass the where clause
                let es = event_space();
                let filter = EventFilter {
                    select_clauses: None,
                    where_clause: real_filter(&self.elems),
                };
                let epoch = chrono::DateTime::<chrono::Utc>::from_timestamp(0, 0).unwrap();
                let source: NodeId = ObjectId::Server.into();
                let got = event_filter::evaluate(&source, &filter, &es.address_space, &epoch, 1);
                let passed = got.map(|v| v.len()).unwrap_or(0);
                // oracle: the event passes exactly when the where clause is TRUE
                let mut ctx = RefCtx {
                    elems: &self.elems,
                    tags: Vec::new(),
                };
                let expected = if self.elems.is_empty() {
                    Ok(RV::Bool(true))
                } else {
                    let mut path = vec![0u32];
                    ctx.eval(&self.elems[0], &mut path)
                };
                let class = clause_class(&self.elems, &ctx.tags);
                let verdict = match expected {
                    Ok(RV::Unknown) => Verdict::Ok,
                    Ok(v) => {
                        let want = (v == RV::Bool(true)) as usize;
                        if want == passed {
                            Verdict::Ok
                        } else {
                            Verdict::fail("operator_semantics", &class, format!("event passed {} want {}", passed, want))
                        }
                    }
                    // not a well-formed clause: only "no panic" is required (as for `eval`)
                    Err(_) => Verdict::Ok,
                };
                (format!("ok {}", passed), verdict)
            }
            ["likere", p] => {
                let p = match parse_str(p) {
                    Some(Some(p)) => p,
                    _ => return ("bad-op".to_string(), Verdict::Ok),
                };
                match hook::like_to_regex(&p) {
                    Some(r) => (format!("ok {}", show_str(&r)), Verdict::Ok),
                    None => ("ok -".to_string(), Verdict::Ok),
                }
            }
            _ => ("bad-op".to_string(), Verdict::Ok),
        }
    }

    fn on_panic(&self, _toks: &[&str]) -> Verdict {
        Verdict::fail("no_panic", &self.class_now(), "evaluation panicked")
    }
}
