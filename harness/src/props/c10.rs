//! C10 — memory held for an incomplete incoming message is bounded (server pending chunks; the
//! framing layer rejects an oversized declared frame instead of waiting for it).
use crate::common::*;
use crate::props::c11;
use crate::props::c12::{srv_conn, transport_client};

pub struct C10;
pub static P: C10 = C10;

fn gen_srv(rng: &mut Rng, tier: Tier, out: &mut Vec<String>) {
    let l = srv_conn::lens();
    let mc = *rng.pick(&[0u64, 1, 2, 4, 5]);
    let mm = *rng.pick(&[0u64, 200, 1000, 8192, 65536, 327675]);
    out.push(srv_conn::reset_line(mc, mm));
    srv_conn::gen_case(rng, &l, srv_conn::Profile::Buffering, mc, mm, tier == Tier::Thorough, out);
}

fn gen_rx(rng: &mut Rng, out: &mut Vec<String>) {
    let mm = *rng.pick(&[0u64, 16, 64, 8192, 327675]);
    out.push(format!("reset rx {} 100", mm));
    // a frame header declaring `size`, then a trickle of body bytes
    let ty: &[u8] = *rng.pick(&[&b"MSGF"[..], &b"MSGC"[..], &b"OPNF"[..], &b"HELF"[..], &b"ERRF"[..], &b"XXXF"[..]]);
    let size: u64 = match rng.weighted(&[3, 3, 2, 2]) {
        0 => (mm as i64 + rng.range(-1, 2)).max(0) as u64,
        1 => *rng.pick(&[u32::MAX as u64, u32::MAX as u64 - 1, 1 << 31, 1 << 24]),
        2 => 12 + rng.below(40),
        _ => rng.next() % (1 << 32),
    };
    let mut hdr = ty.to_vec();
    hdr.extend_from_slice(&(size as u32).to_le_bytes());
    let cut = rng.range(1, 8) as usize;
    out.push(format!("feed x{}", hex(&hdr[..cut])));
    out.push(format!("feed x{}", hex(&hdr[cut..])));
    for _ in 0..rng.range(1, 5) {
        let k = rng.range(1, 20) as usize;
        out.push(format!("feed x{}", hex(&rng.bytes(k))));
    }
    out.push("eof".to_string());
}

impl Prop for C10 {
    fn id(&self) -> &'static str {
        "C10"
    }

    fn gen(&self, rng: &mut Rng, n: usize, tier: Tier, out: &mut Vec<String>) {
        srv_conn::gen_systematic(&srv_conn::lens(), out);
        for _ in 0..n {
            match rng.weighted(&[5, 3, 2]) {
                0 => gen_srv(rng, tier, out),
                1 => gen_rx(rng, out),
                _ => transport_client::gen_cli(rng, true, out),
            }
        }
    }

    fn runner(&self) -> Box<dyn Runner> {
        Box::new(R { srv: None, rx: c11::R::new(), rx_max: 0, rx_bytes: 0, cli: None, held: (0, 0) })
    }
}

struct R {
    srv: Option<srv_conn::Conn>,
    rx: c11::R,
    rx_max: usize,
    rx_bytes: usize,
    cli: Option<transport_client::Cli>,
    /// (chunks, bytes) held for the incomplete message before the current op
    held: (usize, usize),
}

impl Runner for R {
    fn step(&mut self, toks: &[&str]) -> (String, Verdict) {
        match toks {
            ["reset", "conn", mc, mm, ..] => {
                self.held = (0, 0);
                self.srv = Some(srv_conn::Conn::new(mc.parse().unwrap_or(0), mm.parse().unwrap_or(0)));
                ("ok".to_string(), Verdict::Ok)
            }
            ["setlast", _] | ["hel", _] | ["ack"] | ["ch", ..] => {
                let Some(conn) = self.srv.as_mut() else {
                    return ("bad-op".to_string(), Verdict::Ok);
                };
                let Some((line, info)) = conn.step(toks) else {
                    return ("bad-op".to_string(), Verdict::Ok);
                };
                // the property, on the accessor: never more chunks / bytes than the limits, whatever
                // the chunk type, the flags, or the state of the handshake
                let class = match &info.chunk {
                    Some((ty, _, _, _)) => format!("{}-chunk", ty),
                    None => "-".to_string(),
                };
                // "a peer exceeding either limit gets an error": the chunk that completes a message is
                // not buffered for long, so the accessor alone does not see it (seed C10c: the limits
                // were applied to intermediate chunks only) — a message assembled and passed on (`ok`,
                // not stored) from more chunks or bytes than the limits allow is a failure as well
                let (held_n, held_b) = self.held;
                self.held = (info.pend_len, info.pend_bytes);
                let this_len: Option<usize> = match toks {
                    ["ch", _, _, _, n, ..] => n.parse().ok(),
                    _ => None,
                };
                let assembled = info.err.is_none() && info.pend_len == 0 && !info.responses.is_empty() && info.chunk.is_some() && held_n > 0;
                let v = if assembled && conn.max_chunks > 0 && held_n + 1 > conn.max_chunks {
                    Verdict::fail("message_within_limits", &class, format!("a message of {} chunks was accepted, limit {}", held_n + 1, conn.max_chunks))
                } else if assembled && conn.max_msg > 0 && this_len.map_or(false, |l| held_b + l > conn.max_msg) {
                    Verdict::fail("message_within_limits", &class, format!("a message of {} bytes was accepted, limit {}", held_b + this_len.unwrap_or(0), conn.max_msg))
                } else if conn.max_chunks > 0 && info.pend_len > conn.max_chunks {
                    Verdict::fail("pending_chunks_bounded", &class, format!("{} chunks held, limit {}", info.pend_len, conn.max_chunks))
                } else if conn.max_msg > 0 && info.pend_bytes > conn.max_msg {
                    Verdict::fail("pending_bytes_bounded", &class, format!("{} bytes held, limit {}", info.pend_bytes, conn.max_msg))
                } else {
                    Verdict::Ok
                };
                (line, v)
            }
            ["reset", "cli", mp, ch] => {
                self.cli = Some(transport_client::Cli::new(mp.parse().unwrap(), ch.parse().unwrap()));
                ("ok".to_string(), Verdict::Ok)
            }
            ["req"] | ["cchunk", ..] => match self.cli.as_mut() {
                Some(c) => c.step(toks),
                None => ("bad-op".to_string(), Verdict::Ok),
            },
            ["reset", "rx", mm, _] => {
                self.rx_max = mm.parse().unwrap();
                self.rx_bytes = 0;
                self.rx.step(toks)
            }
            ["feed", h] => {
                let n = unhex(h).map(|b| b.len()).unwrap_or(0);
                let (line, v) = self.rx.step(toks);
                if let Verdict::Fail { .. } = v {
                    return (line, v);
                }
                self.rx_bytes += n;
                // the property for the framing layer: with a limit in force the codec never keeps
                // more than max(limit, 8) bytes waiting for the rest of a frame
                let buffered: Option<usize> = line.rsplit("buf=").next().and_then(|x| x.parse().ok());
                let v = match buffered {
                    Some(b) if self.rx_max > 0 && b > self.rx_max.max(8) => Verdict::fail(
                        "codec_buffer_bounded",
                        "declared-over-limit",
                        format!("{} bytes retained, limit {}", b, self.rx_max),
                    ),
                    _ => Verdict::Ok,
                };
                (line, v)
            }
            ["eof"] | ["stream", ..] => self.rx.step(toks),
            _ => ("bad-op".to_string(), Verdict::Ok),
        }
    }
}
