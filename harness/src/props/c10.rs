//! C10 — memory held for an incomplete incoming message is bounded (server pending chunks; the
//! framing layer rejects an oversized declared frame instead of waiting for it).
use crate::common::*;
use crate::props::c11;
use crate::props::c12::{self, transport_client, CI};
use opcua::core::comms::message_chunk::{MessageChunkType, MessageIsFinalType};
use opcua::server::comms::tcp_transport::TcpTransport;
use opcua::types::*;

pub struct C10;
pub static P: C10 = C10;

fn gen_srv(rng: &mut Rng, tier: Tier, out: &mut Vec<String>) {
    let l0 = c12::get_endpoints_bytes().len();
    let mc = *rng.pick(&[0u64, 1, 2, 5, 5]);
    let mm = *rng.pick(&[0u64, 100, 1000, 8192, 327675]);
    out.push(format!("reset srv {} {} {}", mc, mm, l0));
    let mut seq = 2u64;
    let nmsgs = rng.range(1, 4);
    for _ in 0..nmsgs {
        // a message of n chunks, n around the limit
        let n = match rng.weighted(&[4, 3, 2, 1]) {
            0 => 1 + rng.below(3),
            1 => (mc as i64 + rng.range(-1, 2)).max(1) as u64,
            2 => 1 + rng.below(12),
            _ => if tier == Tier::Thorough { 2000 } else { 40 },
        };
        let req = 10 + rng.below(50);
        // sizes around maxMsg / n
        let per = if mm > 0 && rng.chance(1, 2) { (mm / n).max(24) } else { 24 + l0 as u64 + rng.below(100) };
        for i in 0..n {
            let size = match rng.weighted(&[6, 2, 1, 1]) {
                0 => per,
                1 => (per as i64 + rng.range(-2, 2)).max(24) as u64,
                2 => 24 + rng.below(4),
                _ => 24 + l0 as u64 + rng.below(3),
            };
            let mut s = seq;
            if rng.chance(1, 40) {
                s = (s as i64 + rng.range(-1, 1)).max(0) as u64;
            }
            let f = if i + 1 == n {
                if rng.chance(1, 10) { "C" } else { "F" }
            } else if rng.chance(1, 30) {
                "A"
            } else {
                "C"
            };
            out.push(format!("chunk 1:{}:{} {} {}", s, req, f, size));
            seq += 1;
        }
    }
}

fn gen_rx(rng: &mut Rng, out: &mut Vec<String>) {
    let mm = *rng.pick(&[0u64, 16, 64, 8192, 327675]);
    out.push(format!("reset rx {} 100", mm));
    // a frame header declaring `size`, then a trickle of body bytes
    let ty: &[u8] = *rng.pick(&[&b"MSGF"[..], &b"MSGC"[..], &b"OPNF"[..], &b"HELF"[..], &b"ERRF"[..], &b"XXXF"[..]]);
    let size: u64 = match rng.weighted(&[3, 3, 2, 2]) {
        0 => (mm as i64 + rng.range(-1, 2)).max(0) as u64,
        1 => *rng.pick(&[u32::MAX as u64, u32::MAX as u64 - 1, 1 << 31, 1 << 24]),
        2 => 12 + rng.below(40),
        _ => rng.next() % (1 << 32),
    };
    let mut hdr = ty.to_vec();
    hdr.extend_from_slice(&(size as u32).to_le_bytes());
    let cut = rng.range(1, 8) as usize;
    out.push(format!("feed x{}", hex(&hdr[..cut])));
    out.push(format!("feed x{}", hex(&hdr[cut..])));
    for _ in 0..rng.range(1, 5) {
        let k = rng.range(1, 20) as usize;
        out.push(format!("feed x{}", hex(&rng.bytes(k))));
    }
    out.push("eof".to_string());
}

impl Prop for C10 {
    fn id(&self) -> &'static str {
        "C10"
    }

    fn gen(&self, rng: &mut Rng, n: usize, tier: Tier, out: &mut Vec<String>) {
        for _ in 0..n {
            match rng.weighted(&[5, 3, 2]) {
                0 => gen_srv(rng, tier, out),
                1 => gen_rx(rng, out),
                _ => transport_client::gen_cli(rng, true, out),
            }
        }
    }

    fn runner(&self) -> Box<dyn Runner> {
        Box::new(R { srv: None, rx: c11::R::new(), rx_max: 0, rx_bytes: 0, cli: None })
    }
}

struct Srv {
    t: TcpTransport,
    closed: bool,
    stream_off: usize,
    body: Vec<u8>,
    max_chunks: usize,
    max_msg: usize,
}

struct R {
    srv: Option<Srv>,
    rx: c11::R,
    rx_max: usize,
    rx_bytes: usize,
    cli: Option<transport_client::Cli>,
}

impl Runner for R {
    fn step(&mut self, toks: &[&str]) -> (String, Verdict) {
        match toks {
            ["reset", "srv", mc, mm, _l0] => {
                let mut t = c12::new_transport();
                let (_, r) = t.verif_process_hello(c12::hello(), 65536, 65536);
                let mut ok = r.is_ok();
                for c in c12::open_request_chunks(1, 1, 0, false) {
                    ok &= t.verif_process_chunk(c).1.is_ok();
                }
                if !ok {
                    return ("err setup".to_string(), Verdict::fail("setup", "-", "handshake failed"));
                }
                let max_chunks: usize = mc.parse().unwrap();
                let max_msg: usize = mm.parse().unwrap();
                {
                    let sc = t.verif_secure_channel();
                    let mut sc = sc.write();
                    let mut o = sc.decoding_options();
                    o.max_chunk_count = max_chunks;
                    o.max_message_size = max_msg;
                    sc.set_decoding_options(o);
                }
                self.srv = Some(Srv { t, closed: false, stream_off: 0, body: c12::get_endpoints_bytes(), max_chunks, max_msg });
                ("ok".to_string(), Verdict::Ok)
            }
            ["reset", "cli", mp, ch] => {
                self.cli = Some(transport_client::Cli::new(mp.parse().unwrap(), ch.parse().unwrap()));
                ("ok".to_string(), Verdict::Ok)
            }
            ["req"] | ["cchunk", ..] => match self.cli.as_mut() {
                Some(c) => c.step(toks),
                None => ("bad-op".to_string(), Verdict::Ok),
            },
            ["reset", "rx", mm, _] => {
                self.rx_max = mm.parse().unwrap();
                self.rx_bytes = 0;
                self.rx.step(toks)
            }
            ["chunk", ci, f, n] => {
                let (Some(s), Some(Some(c)), Some(fin), Ok(size)) =
                    (self.srv.as_mut(), c12::parse_ci(ci), c12::fin_of(f), n.parse::<usize>())
                else {
                    return ("bad-op".to_string(), Verdict::Ok);
                };
                if size < 24 {
                    return ("bad-op".to_string(), Verdict::Ok);
                }
                if s.closed {
                    return ("err closed".to_string(), Verdict::Ok);
                }
                // the body stream: one GetEndpointsRequest, then zero padding
                let blen = size - 24;
                let body: Vec<u8> = (s.stream_off..s.stream_off + blen).map(|i| *s.body.get(i).unwrap_or(&0)).collect();
                match fin {
                    MessageIsFinalType::Intermediate => s.stream_off += blen,
                    _ => s.stream_off = 0,
                }
                let chunk = c12::msg_chunk(c.chan, c.seq, c.req, fin, MessageChunkType::Message, &body);
                assert_eq!(chunk.data.len(), size);
                let (out, r) = s.t.verif_process_chunk(chunk);
                let pend = s.t.verif_pending_chunks();
                let bytes: usize = pend.iter().map(|c| c.data.len()).sum();
                let tail = format!("pend={} bytes={}", pend.len(), bytes);
                // the property, on the accessor: never more chunks / bytes than the limits
                let class = if s.max_chunks > 0 && pend.len() > s.max_chunks {
                    "over-chunk-count"
                } else if s.max_msg > 0 && bytes > s.max_msg {
                    "over-message-size"
                } else {
                    "-"
                };
                let mut v = Verdict::Ok;
                if s.max_chunks > 0 && pend.len() > s.max_chunks {
                    v = Verdict::fail("pending_chunks_bounded", class, format!("{} chunks held, limit {}", pend.len(), s.max_chunks));
                } else if s.max_msg > 0 && bytes > s.max_msg {
                    v = Verdict::fail("pending_bytes_bounded", class, format!("{} bytes held, limit {}", bytes, s.max_msg));
                }
                match r {
                    Err(e) => {
                        s.closed = true;
                        (format!("err {} {}", e.name(), tail), v)
                    }
                    Ok(()) => match out.first() {
                        Some((id, _)) => (format!("ok accepted req={} {}", id, tail), v),
                        None => (format!("ok stored {}", tail), v),
                    },
                }
            }
            ["feed", h] => {
                let n = unhex(h).map(|b| b.len()).unwrap_or(0);
                let (line, v) = self.rx.step(toks);
                if let Verdict::Fail { .. } = v {
                    return (line, v);
                }
                self.rx_bytes += n;
                // the property for the framing layer: with a limit in force the codec never keeps
                // more than max(limit, 8) bytes waiting for the rest of a frame
                let buffered: Option<usize> = line.rsplit("buf=").next().and_then(|x| x.parse().ok());
                let v = match buffered {
                    Some(b) if self.rx_max > 0 && b > self.rx_max.max(8) => Verdict::fail(
                        "codec_buffer_bounded",
                        "declared-over-limit",
                        format!("{} bytes retained, limit {}", b, self.rx_max),
                    ),
                    _ => Verdict::Ok,
                };
                (line, v)
            }
            ["eof"] | ["stream", ..] => self.rx.step(toks),
            _ => ("bad-op".to_string(), Verdict::Ok),
        }
    }
}
