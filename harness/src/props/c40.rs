//! C40 — Republish and acknowledgement see the same retained notifications.
//!
//! The real session (`VSession`) is driven through the subscription services; the oracle keeps a shadow
//! map of every notification message seen in a publish response and compares what Republish returns
//! and what acknowledgements report with it.
use crate::common::*;
use crate::subm::*;
use opcua::server::prelude::*;
use std::collections::{BTreeMap, BTreeSet, HashMap};

pub struct C40;
pub static P: C40 = C40;

impl Prop for C40 {
    fn id(&self) -> &'static str {
        "C40"
    }

    fn gen(&self, rng: &mut Rng, n: usize, tier: Tier, out: &mut Vec<String>) {
        let w = GenWeights {
            write: 8,
            tick: 12,
            publish: 5,
            republish: 6,
            sub: 1,
            delsub: 2,
            item: 1,
            delitem: 1,
            pubmode: 1,
            modsub: 1,
            setmode: 1,
            moditem: 1,
            trigger: 1,
            resend: 1,
            transfer: 1,
            max_len: 50,
        };
        // a third of the cases (all of them when there is room) are the single-step enumeration
        let singles = if n >= single_step_count() + 400 { single_step_count() } else { n / 3 };
        let off = rng.below(single_step_count() as u64) as usize;
        for i in 0..singles {
            gen_single_step(off + i, out);
        }
        for _ in 0..(n - singles) {
            if rng.chance(1, 5) {
                gen_scenario(rng, out);
            } else {
                gen_case(rng, &w, tier == Tier::Thorough, out);
            }
        }
    }

    fn runner(&self) -> Box<dyn Runner> {
        Box::new(R {
            pipe: Pipe::new(),
            sent: BTreeMap::new(),
            acked: BTreeSet::new(),
            pending: HashMap::new(),
            panic_class: "-".to_string(),
        })
    }
}

struct R {
    pipe: Pipe,
    /// every notification message seen in a publish response: (sub, seq) -> the message as sent
    sent: BTreeMap<(i64, u32), NotificationMessage>,
    /// keys acknowledged with result Good
    acked: BTreeSet<(i64, u32)>,
    /// publish requests whose acknowledgement results are still to come: request id -> expected results
    /// (for each acknowledgement the allowed results)
    pending: HashMap<u32, Option<Vec<Vec<StatusCode>>>>,
    /// input class used if the op panics (computed before the op)
    panic_class: String,
}

impl R {
    /// what Republish would see right now, for every key ever sent
    fn visible(&self) -> BTreeSet<(i64, u32)> {
        self.sent
            .keys()
            .filter(|(s, q)| self.pipe.vs.find_notification_message(self.pipe.real_sub(*s), *q).is_ok())
            .cloned()
            .collect()
    }

    fn alive(&self) -> BTreeSet<i64> {
        self.pipe.vs.subscription_ids().iter().map(|r| self.pipe.norm_sub(*r)).collect()
    }
}

impl Runner for R {
    fn step(&mut self, toks: &[&str]) -> (String, Verdict) {
        let class = toks[0].to_string();
        // ---- before the op: what Republish sees, which subscriptions exist ----
        let vis_before = self.visible();
        let alive_before = self.alive();

        // expected acknowledgement results, from what Republish saw before the request (title of the
        // property: both look at the same retained set)
        let mut expected_acks: Option<Vec<StatusCode>> = None;
        let mut good_acks: Vec<(i64, u32)> = Vec::new();
        let mut ack_subs: Vec<i64> = Vec::new();
        if toks[0] == "publish" && toks.len() == 3 && toks[2] != "-" {
            let inner = &toks[2][1..toks[2].len() - 1];
            let mut vis = vis_before.clone();
            let mut v = Vec::new();
            if !inner.is_empty() {
                for t in inner.split(',') {
                    if let Some((a, b)) = t.split_once('.') {
                        if let (Ok(a), Ok(b)) = (a.parse::<i64>(), b.parse::<u32>()) {
                            ack_subs.push(a);
                            if !alive_before.contains(&a) {
                                v.push(StatusCode::BadSubscriptionIdInvalid);
                            } else if vis.remove(&(a, b)) {
                                v.push(StatusCode::Good);
                                good_acks.push((a, b));
                            } else {
                                v.push(StatusCode::BadSequenceNumberUnknown);
                            }
                        }
                    }
                }
            }
            expected_acks = Some(v);
        }

        self.panic_class = self.pipe.panic_class(toks);
        let out = self.pipe.step(toks);
        let mut verdict = Verdict::Ok;
        let mut fail = |v: Verdict| {
            if matches!(verdict, Verdict::Ok) {
                verdict = v;
            }
        };

        // ---- the op's own result ----
        match &out.observed {
            Observed::Publish { req_id, result, .. } => {
                if result.is_ok() {
                    // a subscription that expired inside this very request (the request first runs
                    // the subscriptions when the request queue is full) may already be unknown when the
                    // acknowledgements are looked at
                    let alive_now = self.alive();
                    let allowed = expected_acks.as_ref().map(|v| {
                        v.iter()
                            .zip(ack_subs.iter())
                            .map(|(st, sub)| {
                                if alive_before.contains(sub) && !alive_now.contains(sub) {
                                    vec![*st, StatusCode::BadSubscriptionIdInvalid]
                                } else {
                                    vec![*st]
                                }
                            })
                            .collect::<Vec<_>>()
                    });
                    self.pending.insert(*req_id, allowed);
                    for k in &good_acks {
                        self.acked.insert(*k);
                    }
                } else {
                    good_acks.clear(); // a refused request acknowledges nothing
                }
            }
            Observed::Republish { sub_id, seq, result } => match result {
                Ok(m) => {
                    let k = (*sub_id, *seq);
                    match self.sent.get(&k) {
                        None => fail(Verdict::fail("republish_identical", &class, format!("republished {:?} was never sent", k))),
                        Some(orig) if *orig != m.raw => fail(Verdict::fail(
                            "republish_identical",
                            &class,
                            format!("republished {} differs from the original", Pipe::show_msg(m)),
                        )),
                        _ => {}
                    }
                    if self.acked.contains(&k) {
                        fail(Verdict::fail("ack_good_removes", &class, format!("{:?} republished after a Good acknowledgement", k)));
                    }
                }
                Err(code) => {
                    let want = if alive_before.contains(sub_id) {
                        StatusCode::BadMessageNotAvailable
                    } else {
                        StatusCode::BadSubscriptionIdInvalid
                    };
                    if *code != want {
                        fail(Verdict::fail("republish_status", &class, format!("{} expected {}", code.name(), want.name())));
                    }
                }
            },
            _ => {}
        }

        // ---- responses: remember the messages, check the acknowledgement results ----
        for r in &out.responses {
            let k = (r.sub_id, r.msg.seq);
            // a sequence number is used once per subscription (a later message must not replace a retained one)
            if let Some(old) = self.sent.get(&k) {
                if *old != r.msg.raw {
                    fail(Verdict::fail("sequence_reused", &class, format!("{:?} sent twice with different content", k)));
                }
            }
            self.sent.insert(k, r.msg.raw.clone());
            self.acked.remove(&k);
            match self.pending.remove(&r.req_id) {
                None => fail(Verdict::fail("response_pairs_request", &class, format!("response for unknown request {}", r.req_id))),
                Some(want) => {
                    let ok = match (&want, &r.results) {
                        (None, None) => true,
                        (Some(w), Some(g)) => w.len() == g.len() && w.iter().zip(g.iter()).all(|(a, b)| a.contains(b)),
                        _ => false,
                    };
                    if !ok {
                        fail(Verdict::fail(
                            "ack_results",
                            &class,
                            format!("request {} results {:?} expected {:?}", r.req_id, r.results, want),
                        ));
                    }
                }
            }
            // every advertised sequence number must be republishable at that moment or have just been sent
            if let Some(av) = &r.avail {
                for q in av {
                    if !self.sent.contains_key(&(r.sub_id, *q)) {
                        fail(Verdict::fail("available_known", &class, format!("advertised ({},{}) was never sent", r.sub_id, q)));
                    }
                }
            }
        }

        // ---- after the op: the retained set changed only for a reason ----
        let vis_after = self.visible();
        let alive_after = self.alive();
        let keys: BTreeSet<(i64, u32)> =
            self.pipe.vs.retransmission_keys().iter().map(|(s, q)| (self.pipe.norm_sub(*s), *q)).collect();
        let limit = alive_after.len() * 4;
        for k in &good_acks {
            if vis_after.contains(k) && !out.responses.iter().any(|r| (r.sub_id, r.msg.seq) == *k) {
                fail(Verdict::fail("ack_good_removes", &class, format!("{:?} still available after a Good acknowledgement", k)));
            }
        }
        for k in vis_before.iter() {
            if vis_after.contains(k) || good_acks.contains(k) {
                continue;
            }
            // gone: the subscription is gone, or the queue was over its limit and is now exactly full
            let sub_gone = !alive_after.contains(&k.0);
            let evicted = keys.len() >= limit;
            if !sub_gone && !evicted {
                fail(Verdict::fail(
                    "retained_until_ack",
                    &class,
                    format!("{:?} no longer available: not acknowledged, subscription alive, queue {} of {}", k, keys.len(), limit),
                ));
            }
        }
        // what Republish sees and what the retransmission queue holds are the same set (for live subscriptions)
        for k in keys.iter() {
            if alive_after.contains(&k.0) && self.sent.contains_key(k) && !vis_after.contains(k) {
                fail(Verdict::fail("same_set", &class, format!("{:?} retained but not republishable", k)));
            }
        }
        for k in vis_after.iter() {
            if !keys.contains(k) {
                fail(Verdict::fail("same_set", &class, format!("{:?} republishable but not retained", k)));
            }
        }
        // a message just sent is retained (unless evicted at once or its subscription closed)
        for r in &out.responses {
            let k = (r.sub_id, r.msg.seq);
            if !vis_after.contains(&k) && alive_after.contains(&k.0) && keys.len() < limit {
                fail(Verdict::fail("sent_is_retained", &class, format!("{:?} just sent but not available", k)));
            }
        }
        (out.line, verdict)
    }

    fn on_panic(&self, _toks: &[&str]) -> Verdict {
        Verdict::fail("no_panic", &self.panic_class, "implementation panicked")
    }
}
