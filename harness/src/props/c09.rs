//! C09 — the secure-channel receive path is total on arbitrary peer bytes.
//!
//! Ops: `reset <cfg…>` builds a fresh receiver `SecureChannel`; `recv <label> <bytes> <answers…>`
//! feeds the bytes to the REAL `verify_and_remove_security`.  The answers are for the model only.
#[path = "../chan/mod.rs"]
pub mod chan;

use crate::common::*;
use chan::*;
use opcua::core::comms::prelude::*;
use opcua::crypto::SecurityPolicy;
use opcua::types::MessageSecurityMode;

pub struct C09;
pub static P: C09 = C09;

pub fn gen_cfg(rng: &mut Rng, tier: Tier) -> Cfg {
    let policy = *rng.pick(&POLICIES);
    let mode = MODES[rng.weighted(&[2, 5, 6, 1])];
    let big = if tier == Tier::Thorough { 3 } else { 1 };
    let own = rng.weighted(&[4, 2, 4, 2, big]);
    let peer = rng.weighted(&[4, 2, 4, 2, big]);
    let missing = rng.weighted(&[20, 1, 1, 1]);
    Cfg {
        policy,
        mode,
        has_cert: missing != 1 && missing != 3,
        has_key: missing != 2 && missing != 3,
        keys: policy != SecurityPolicy::None && !rng.chance(1, 12),
        client: rng.chance(1, 2),
        own,
        peer,
        seed: rng.below(1 << 32),
    }
}

fn body(rng: &mut Rng) -> Vec<u8> {
    let n = match rng.weighted(&[2, 4, 2, 1]) {
        0 => rng.below(4) as usize,
        1 => rng.range(4, 60) as usize,
        2 => rng.range(60, 300) as usize,
        _ => *rng.pick(&[15usize, 16, 17, 31, 32, 33, 100, 117, 118, 214, 215]),
    };
    rng.bytes(n)
}

/// one symmetric-kind (MSG/CLO) op
fn gen_sym(rng: &mut Rng, cfg: &Cfg) -> (String, Vec<u8>) {
    let sender = cfg.peer_channel(cfg.policy, cfg.mode);
    let mt = if rng.chance(1, 6) { MessageChunkType::CloseSecureChannel } else { MessageChunkType::Message };
    let seq = rng.below(1000) as u32 + 1;
    let base = secured_chunk(&sender, mt, seq, seq + 7, &body(rng)).unwrap_or_else(|| {
        let mut v = b"MSGF".to_vec();
        v.extend(rng.bytes(28));
        let n = v.len();
        set_size(&mut v, n);
        v
    });
    mutate(rng, "sym", base, 16)
}

/// generic byte-level mutations; `hdr` = offset where the secured part starts
fn mutate(rng: &mut Rng, kind: &str, mut v: Vec<u8>, hdr: usize) -> (String, Vec<u8>) {
    let m = rng.weighted(&[6, 8, 2, 3, 4, 3, 2, 3, 1]);
    let label = match m {
        0 => "valid".to_string(),
        1 => {
            // truncate, header size fixed up
            let max = v.len().saturating_sub(hdr.min(12));
            let k = match rng.weighted(&[3, 3, 2, 2]) {
                0 => *rng.pick(&[1usize, 7, 15, 16, 17, 20, 32, 100]),
                1 => rng.range(1, 40) as usize,
                2 => v.len().saturating_sub(hdr + rng.below(40) as usize),
                _ => rng.below(max.max(1) as u64) as usize,
            }
            .min(max);
            let n = v.len() - k;
            v.truncate(n);
            set_size(&mut v, n);
            format!("trunc{}", k)
        }
        2 => {
            let k = (rng.range(1, 30) as usize).min(v.len());
            v.truncate(v.len() - k);
            "trunc-nofix".to_string()
        }
        3 => {
            let k = *rng.pick(&[1usize, 15, 16, 17, 32, 128, 256]);
            v.extend(rng.bytes(k));
            let n = v.len();
            set_size(&mut v, n);
            format!("ext{}", k)
        }
        4 => {
            let i = if rng.chance(1, 3) { rng.below(hdr.min(v.len()) as u64) as usize } else { rng.below(v.len() as u64) as usize };
            v[i] ^= 1 << rng.below(8);
            if i < hdr { "flip-hdr".to_string() } else { "flip-body".to_string() }
        }
        5 => {
            let n = *rng.pick(&[0u32, 1, 11, 12, 16, 0x7fff_ffff, 0xffff_ffff, v.len() as u32 + 1, (v.len() as u32).wrapping_sub(1)]);
            if v.len() >= 8 {
                v[4..8].copy_from_slice(&n.to_le_bytes());
            }
            "size-field".to_string()
        }
        6 => {
            let t: &[u8] = *rng.pick(&[&b"CLO"[..], b"OPN", b"MSG", b"ERR", b"msg"]);
            v[..3].copy_from_slice(t);
            if rng.chance(1, 3) {
                v[3] = *rng.pick(&[b'C', b'A', b'X', 0]);
            }
            "type".to_string()
        }
        7 => {
            // only a few bytes after the header
            let n = rng.range(0, 40) as usize;
            v.truncate(n.min(v.len()));
            let l = v.len();
            set_size(&mut v, l);
            "short".to_string()
        }
        _ => {
            let n = rng.range(0, 80) as usize;
            let mut r = rng.bytes(n);
            if n >= 8 && rng.chance(3, 4) {
                r[..4].copy_from_slice(*rng.pick(&[&b"MSGF"[..], b"OPNF", b"CLOF", b"MSGC"]));
                set_size(&mut r, n);
            }
            v = r;
            "random".to_string()
        }
    };
    (format!("{}-{}", kind, label), v)
}

/// one OPN op: the chunk is assembled from parts, each of which may be malformed
fn gen_opn(rng: &mut Rng, cfg: &Cfg, tier: Tier) -> (String, Vec<u8>) {
    // the sender's policy: usually the receiver's, sometimes another one
    let pol = if cfg.policy != SecurityPolicy::None && rng.chance(3, 4) {
        cfg.policy
    } else {
        *rng.pick(&POLICIES[1..])
    };
    let signer = key(cfg.peer);
    let own = key(cfg.own);
    if rng.chance(1, 6) {
        // produced by the real sender code, then mutated at byte level
        let sender = cfg.peer_channel(pol, MessageSecurityMode::SignAndEncrypt);
        if let Some(v) = secured_chunk(&sender, MessageChunkType::OpenSecureChannel, 1, 1, &body(rng)) {
            return mutate(rng, "opn", v, 12 + 4 + pol.to_uri().len() + 4 + signer.der.len() + 24);
        }
    }
    let mut label = Vec::new();
    // --- uri
    let uri_s = pol.to_uri().as_bytes().to_vec();
    let uri: Option<Vec<u8>> = match rng.weighted(&[30, 2, 2, 1, 1, 1, 1]) {
        0 => Some(uri_s),
        1 => {
            label.push("uri-none");
            Some(SecurityPolicy::None.to_uri().as_bytes().to_vec())
        }
        2 => {
            label.push("uri-unknown");
            let mut u = uri_s;
            let i = rng.below(u.len() as u64) as usize;
            u[i] ^= 0x01;
            Some(u)
        }
        3 => {
            label.push("uri-null");
            None
        }
        4 => {
            label.push("uri-utf8");
            let mut u = uri_s;
            let i = rng.below(u.len() as u64) as usize;
            u[i] = *rng.pick(&[0x80u8, 0xc0, 0xff, 0xed, 0xf5]);
            Some(u)
        }
        5 => {
            label.push("uri-empty");
            Some(vec![])
        }
        _ => {
            label.push("uri-short-name");
            Some(b"Basic256".to_vec())
        }
    };
    // --- sender certificate
    let cert: Option<Vec<u8>> = match rng.weighted(&[30, 3, 1, 2, 2, 2]) {
        0 => Some(signer.der.clone()),
        1 => {
            label.push("cert-null");
            None
        }
        2 => {
            label.push("cert-empty");
            Some(vec![])
        }
        3 => {
            label.push("cert-garbage");
            { let n = rng.range(1, 64) as usize; Some(rng.bytes(n)) }
        }
        4 => {
            label.push("cert-trunc");
            let mut c = signer.der.clone();
            c.truncate(rng.range(1, signer.der.len() as i64 - 1) as usize);
            Some(c)
        }
        _ => {
            label.push("cert-other");
            Some(key((cfg.peer + 1) % 4).der.clone())
        }
    };
    // --- receiver thumbprint
    let thumb: Option<Vec<u8>> = match rng.weighted(&[30, 2, 2, 1, 1]) {
        0 => Some(own.thumb.clone()),
        1 => {
            label.push("thumb-null");
            None
        }
        2 => {
            label.push("thumb-wrong");
            Some(rng.bytes(20))
        }
        3 => {
            label.push("thumb-len");
            { let n = *rng.pick(&[1usize, 19, 21, 32]); Some(rng.bytes(n)) }
        }
        _ => {
            label.push("thumb-empty");
            Some(vec![])
        }
    };
    // --- plain text: sequence header, body, padding
    let (_, _, overhead) = rsa_padding(pol);
    let ptbs = own.size - overhead;
    let b = body(rng);
    let mut plain = rng.bytes(8);
    plain.extend_from_slice(&b);
    match rng.weighted(&[12, 2, 2, 2, 2, 1]) {
        0 => plain.extend(good_padding(signer.size, own.size, ptbs, b.len())),
        1 => {
            label.push("pad-huge");
            // padding length bytes far larger than the message
            let n = rng.range(2, 20) as usize;
            plain.extend(vec![0xffu8; n]);
        }
        2 => {
            label.push("pad-mixed");
            let mut p = good_padding(signer.size, own.size, ptbs, b.len());
            let i = rng.below(p.len() as u64) as usize;
            p[i] = p[i].wrapping_add(1 + rng.below(200) as u8);
            plain.extend(p);
        }
        3 => {
            label.push("pad-none");
        }
        4 => {
            label.push("pad-count");
            // right byte value, wrong count
            let p = good_padding(signer.size, own.size, ptbs, b.len());
            let keep = rng.below(p.len() as u64) as usize;
            plain.extend_from_slice(&p[p.len() - keep..]);
        }
        _ => {
            label.push("plain-tiny");
            plain.truncate(rng.below(8) as usize);
        }
    }
    let sign_ok = !rng.chance(1, 10);
    if !sign_ok {
        label.push("badsig");
    }
    // encrypt for our certificate, or (rarely) for somebody else's
    let enc_key = if rng.chance(1, 12) {
        label.push("enc-other");
        key((cfg.own + 2) % 4)
    } else {
        own
    };
    let mut v = craft_opn(pol, signer, enc_key, uri.as_deref(), cert.as_deref(), thumb.as_deref(), &plain, sign_ok);
    // --- cipher-text length
    match rng.weighted(&[14, 4, 2, 2, 1]) {
        0 => {}
        1 => {
            label.push("ct-trunc");
            let k = match rng.weighted(&[3, 1, 1]) {
                0 => rng.range(1, 40) as usize,
                1 => own.size,
                _ => own.size - 1,
            }
            .min(v.len() - 12);
            let n = v.len() - k;
            v.truncate(n);
            set_size(&mut v, n);
        }
        2 => {
            label.push("ct-ext");
            let k = *rng.pick(&[1usize, 16, 127, 128, 255, 256]);
            v.extend(rng.bytes(k));
            let n = v.len();
            set_size(&mut v, n);
        }
        3 => {
            label.push("ct-flip");
            let i = v.len() - 1 - rng.below((own.size.min(v.len() - 12)) as u64) as usize;
            v[i] ^= 1 << rng.below(8);
        }
        _ => {
            label.push("lenfield");
            // corrupt one of the three length prefixes
            let at = 12 + if rng.chance(1, 2) { 0 } else { 4 + uri.as_ref().map(|u| u.len()).unwrap_or(0) };
            let val = *rng.pick(&[-2i32, i32::MAX, 65536, 32767, 70000, 0]);
            if v.len() >= at + 4 {
                v[at..at + 4].copy_from_slice(&val.to_le_bytes());
            }
        }
    }
    let _ = tier;
    let l = if label.is_empty() { "opn-crafted-valid".to_string() } else { format!("opn-{}", label.join("+")) };
    (l, v)
}

impl Prop for C09 {
    fn id(&self) -> &'static str {
        "C09"
    }

    fn gen(&self, rng: &mut Rng, n: usize, tier: Tier, out: &mut Vec<String>) {
        std::panic::set_hook(Box::new(|_| {}));
        for _ in 0..n {
            let cfg = gen_cfg(rng, tier);
            out.push(cfg.reset_line());
            let ops = rng.range(1, 4);
            for _ in 0..ops {
                let (label, bytes) = if rng.chance(2, 5) { gen_opn(rng, &cfg, tier) } else { gen_sym(rng, &cfg) };
                out.push(recv_line(&cfg, &label, &bytes));
            }
        }
    }

    fn runner(&self) -> Box<dyn Runner> {
        Box::new(R { me: None })
    }
}

pub struct R {
    pub me: Option<SecureChannel>,
}

pub fn show_result(me: &SecureChannel, r: &Result<MessageChunk, opcua::types::StatusCode>) -> String {
    let p = policy_name(me.security_policy());
    match r {
        Ok(c) => format!("ok {} x{} p={}", c.data.len(), hex(&c.data), p),
        Err(e) => format!("err {} p={}", e.name(), p),
    }
}

impl Runner for R {
    fn step(&mut self, toks: &[&str]) -> (String, Verdict) {
        match toks {
            ["reset", ..] => match Cfg::parse(toks) {
                Some(cfg) => {
                    let me = cfg.me();
                    let s = format!("ok p={}", policy_name(me.security_policy()));
                    self.me = Some(me);
                    (s, Verdict::Ok)
                }
                None => ("bad-op".to_string(), Verdict::Ok),
            },
            ["recv", _label, src, ..] if toks.len() == 9 => {
                let (Some(me), Some(src)) = (self.me.as_mut(), unhex(src)) else {
                    return ("bad-op".to_string(), Verdict::Ok);
                };
                // the property: whatever the bytes, a chunk or an error comes back (a panic unwinds
                // to main.rs and is reported through `on_panic`)
                let r = me.verify_and_remove_security(&src);
                (show_result(me, &r), Verdict::Ok)
            }
            _ => ("bad-op".to_string(), Verdict::Ok),
        }
    }

    fn on_panic(&self, toks: &[&str]) -> Verdict {
        Verdict::fail("no_panic", toks.get(1).copied().unwrap_or("-"), "the receive path panicked")
    }
}
