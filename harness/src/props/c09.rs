//! C09 — the secure-channel receive path is total on arbitrary peer bytes.
//!
//! Ops: `reset <cfg…>` builds a fresh receiver `SecureChannel`; `recv <label> <bytes> <answers…>`
//! feeds the bytes to the REAL `verify_and_remove_security`.  The answers are for the model only.
#[path = "../chan/mod.rs"]
pub mod chan;

use crate::common::*;
use chan::*;
use opcua::core::comms::prelude::*;
use opcua::crypto::SecurityPolicy;
use opcua::types::MessageSecurityMode;

pub struct C09;
pub static P: C09 = C09;

pub fn gen_cfg(rng: &mut Rng, tier: Tier) -> Cfg {
    let policy = *rng.pick(&POLICIES);
    let mode = MODES[rng.weighted(&[2, 5, 6, 1])];
    let big = if tier == Tier::Thorough { 3 } else { 1 };
    let own = rng.weighted(&[4, 2, 4, 2, big]);
    let peer = rng.weighted(&[4, 2, 4, 2, big]);
    let missing = rng.weighted(&[20, 1, 1, 1]);
    Cfg {
        policy,
        mode,
        has_cert: missing != 1 && missing != 3,
        has_key: missing != 2 && missing != 3,
        keys: policy != SecurityPolicy::None && !rng.chance(1, 12),
        client: rng.chance(1, 2),
        own,
        peer,
        seed: rng.below(1 << 32),
        init_policy: None,
        key_policy: None,
    }
}

fn body(rng: &mut Rng) -> Vec<u8> {
    let n = match rng.weighted(&[2, 4, 2, 1]) {
        0 => rng.below(4) as usize,
        1 => rng.range(4, 60) as usize,
        2 => rng.range(60, 300) as usize,
        _ => *rng.pick(&[15usize, 16, 17, 31, 32, 33, 100, 117, 118, 214, 215]),
    };
    rng.bytes(n)
}

/// one symmetric-kind (MSG/CLO) op
fn gen_sym(rng: &mut Rng, cfg: &Cfg) -> (String, Vec<u8>) {
    let sender = cfg.peer_channel(cfg.policy, cfg.mode);
    let mt = if rng.chance(1, 6) { MessageChunkType::CloseSecureChannel } else { MessageChunkType::Message };
    let seq = rng.below(1000) as u32 + 1;
    let fin = [MessageIsFinalType::Final, MessageIsFinalType::Intermediate, MessageIsFinalType::FinalError][rng.weighted(&[6, 3, 1])];
    let base = secured_chunk_f(&sender, mt, fin, seq, seq + 7, &body(rng)).unwrap_or_else(|| {
        let mut v = b"MSGF".to_vec();
        v.extend(rng.bytes(28));
        let n = v.len();
        set_size(&mut v, n);
        v
    });
    mutate(rng, "sym", base, 16)
}

/// generic byte-level mutations; `hdr` = offset where the secured part starts
fn mutate(rng: &mut Rng, kind: &str, mut v: Vec<u8>, hdr: usize) -> (String, Vec<u8>) {
    let m = rng.weighted(&[6, 8, 2, 3, 4, 3, 2, 3, 1]);
    let label = match m {
        0 => "valid".to_string(),
        1 => {
            // truncate, header size fixed up
            let max = v.len().saturating_sub(hdr.min(12));
            let k = match rng.weighted(&[3, 3, 2, 2]) {
                0 => *rng.pick(&[1usize, 7, 15, 16, 17, 20, 32, 100]),
                1 => rng.range(1, 40) as usize,
                2 => v.len().saturating_sub(hdr + rng.below(40) as usize),
                _ => rng.below(max.max(1) as u64) as usize,
            }
            .min(max);
            let n = v.len() - k;
            v.truncate(n);
            set_size(&mut v, n);
            format!("trunc{}", k)
        }
        2 => {
            let k = (rng.range(1, 30) as usize).min(v.len());
            v.truncate(v.len() - k);
            "trunc-nofix".to_string()
        }
        3 => {
            let k = *rng.pick(&[1usize, 15, 16, 17, 32, 128, 256]);
            v.extend(rng.bytes(k));
            let n = v.len();
            set_size(&mut v, n);
            format!("ext{}", k)
        }
        4 => {
            let i = if rng.chance(1, 3) { rng.below(hdr.min(v.len()) as u64) as usize } else { rng.below(v.len() as u64) as usize };
            v[i] ^= 1 << rng.below(8);
            if i < hdr { "flip-hdr".to_string() } else { "flip-body".to_string() }
        }
        5 => {
            let n = *rng.pick(&[0u32, 1, 11, 12, 16, 0x7fff_ffff, 0xffff_ffff, v.len() as u32 + 1, (v.len() as u32).wrapping_sub(1)]);
            if v.len() >= 8 {
                v[4..8].copy_from_slice(&n.to_le_bytes());
            }
            "size-field".to_string()
        }
        6 => {
            let t: &[u8] = *rng.pick(&[&b"CLO"[..], b"OPN", b"MSG", b"ERR", b"msg"]);
            v[..3].copy_from_slice(t);
            if rng.chance(1, 3) {
                v[3] = *rng.pick(&[b'C', b'A', b'X', 0]);
            }
            "type".to_string()
        }
        7 => {
            // only a few bytes after the header
            let n = rng.range(0, 40) as usize;
            v.truncate(n.min(v.len()));
            let l = v.len();
            set_size(&mut v, l);
            "short".to_string()
        }
        _ => {
            let n = rng.range(0, 80) as usize;
            let mut r = rng.bytes(n);
            if n >= 8 && rng.chance(3, 4) {
                r[..4].copy_from_slice(*rng.pick(&[&b"MSGF"[..], b"OPNF", b"CLOF", b"MSGC"]));
                set_size(&mut r, n);
            }
            v = r;
            "random".to_string()
        }
    };
    (format!("{}-{}", kind, label), v)
}

/// one OPN op: the chunk is assembled from parts, each of which may be malformed
fn gen_opn(rng: &mut Rng, cfg: &Cfg, tier: Tier) -> (String, Vec<u8>) {
    // the sender's policy: usually the receiver's, sometimes another one
    let pol = if cfg.policy != SecurityPolicy::None && rng.chance(3, 4) {
        cfg.policy
    } else {
        *rng.pick(&POLICIES[1..])
    };
    let signer = key(cfg.peer);
    let own = key(cfg.own);
    if rng.chance(1, 6) {
        // produced by the real sender code, then mutated at byte level
        let sender = cfg.peer_channel(pol, MessageSecurityMode::SignAndEncrypt);
        if let Some(v) = secured_chunk(&sender, MessageChunkType::OpenSecureChannel, 1, 1, &body(rng)) {
            return mutate(rng, "opn", v, 12 + 4 + pol.to_uri().len() + 4 + signer.der.len() + 24);
        }
    }
    let mut label = Vec::new();
    // --- uri
    let uri_s = pol.to_uri().as_bytes().to_vec();
    let uri: Option<Vec<u8>> = match rng.weighted(&[30, 2, 2, 1, 1, 1, 1]) {
        0 => Some(uri_s),
        1 => {
            label.push("uri-none");
            Some(SecurityPolicy::None.to_uri().as_bytes().to_vec())
        }
        2 => {
            label.push("uri-unknown");
            let mut u = uri_s;
            let i = rng.below(u.len() as u64) as usize;
            u[i] ^= 0x01;
            Some(u)
        }
        3 => {
            label.push("uri-null");
            None
        }
        4 => {
            label.push("uri-utf8");
            let mut u = uri_s;
            let i = rng.below(u.len() as u64) as usize;
            u[i] = *rng.pick(&[0x80u8, 0xc0, 0xff, 0xed, 0xf5]);
            Some(u)
        }
        5 => {
            label.push("uri-empty");
            Some(vec![])
        }
        _ => {
            label.push("uri-short-name");
            Some(b"Basic256".to_vec())
        }
    };
    // --- sender certificate
    let cert: Option<Vec<u8>> = match rng.weighted(&[30, 3, 1, 2, 2, 2]) {
        0 => Some(signer.der.clone()),
        1 => {
            label.push("cert-null");
            None
        }
        2 => {
            label.push("cert-empty");
            Some(vec![])
        }
        3 => {
            label.push("cert-garbage");
            { let n = rng.range(1, 64) as usize; Some(rng.bytes(n)) }
        }
        4 => {
            label.push("cert-trunc");
            let mut c = signer.der.clone();
            c.truncate(rng.range(1, signer.der.len() as i64 - 1) as usize);
            Some(c)
        }
        _ => {
            label.push("cert-other");
            Some(key((cfg.peer + 1) % 4).der.clone())
        }
    };
    // --- receiver thumbprint
    let thumb: Option<Vec<u8>> = match rng.weighted(&[30, 2, 2, 1, 1]) {
        0 => Some(own.thumb.clone()),
        1 => {
            label.push("thumb-null");
            None
        }
        2 => {
            label.push("thumb-wrong");
            Some(rng.bytes(20))
        }
        3 => {
            label.push("thumb-len");
            { let n = *rng.pick(&[1usize, 19, 21, 32]); Some(rng.bytes(n)) }
        }
        _ => {
            label.push("thumb-empty");
            Some(vec![])
        }
    };
    // --- plain text: sequence header, body, padding
    let (_, _, overhead) = rsa_padding(pol);
    let ptbs = own.size - overhead;
    let b = body(rng);
    let mut plain = rng.bytes(8);
    plain.extend_from_slice(&b);
    match rng.weighted(&[12, 2, 2, 2, 2, 1]) {
        0 => plain.extend(good_padding(signer.size, own.size, ptbs, b.len())),
        1 => {
            label.push("pad-huge");
            // padding length bytes far larger than the message
            let n = rng.range(2, 20) as usize;
            plain.extend(vec![0xffu8; n]);
        }
        2 => {
            label.push("pad-mixed");
            let mut p = good_padding(signer.size, own.size, ptbs, b.len());
            let i = rng.below(p.len() as u64) as usize;
            p[i] = p[i].wrapping_add(1 + rng.below(200) as u8);
            plain.extend(p);
        }
        3 => {
            label.push("pad-none");
        }
        4 => {
            label.push("pad-count");
            // right byte value, wrong count
            let p = good_padding(signer.size, own.size, ptbs, b.len());
            let keep = rng.below(p.len() as u64) as usize;
            plain.extend_from_slice(&p[p.len() - keep..]);
        }
        _ => {
            label.push("plain-tiny");
            plain.truncate(rng.below(8) as usize);
        }
    }
    let sign_ok = !rng.chance(1, 10);
    if !sign_ok {
        label.push("badsig");
    }
    // encrypt for our certificate, or (rarely) for somebody else's
    let enc_key = if rng.chance(1, 12) {
        label.push("enc-other");
        key((cfg.own + 2) % 4)
    } else {
        own
    };
    let mut v = craft_opn(pol, signer, enc_key, uri.as_deref(), cert.as_deref(), thumb.as_deref(), &plain, sign_ok);
    // --- cipher-text length
    match rng.weighted(&[14, 4, 2, 2, 1]) {
        0 => {}
        1 => {
            label.push("ct-trunc");
            let k = match rng.weighted(&[3, 1, 1]) {
                0 => rng.range(1, 40) as usize,
                1 => own.size,
                _ => own.size - 1,
            }
            .min(v.len() - 12);
            let n = v.len() - k;
            v.truncate(n);
            set_size(&mut v, n);
        }
        2 => {
            label.push("ct-ext");
            let k = *rng.pick(&[1usize, 16, 127, 128, 255, 256]);
            v.extend(rng.bytes(k));
            let n = v.len();
            set_size(&mut v, n);
        }
        3 => {
            label.push("ct-flip");
            let i = v.len() - 1 - rng.below((own.size.min(v.len() - 12)) as u64) as usize;
            v[i] ^= 1 << rng.below(8);
        }
        _ => {
            label.push("lenfield");
            // corrupt one of the three length prefixes
            let at = 12 + if rng.chance(1, 2) { 0 } else { 4 + uri.as_ref().map(|u| u.len()).unwrap_or(0) };
            let val = *rng.pick(&[-2i32, i32::MAX, 65536, 32767, 70000, 0]);
            if v.len() >= at + 4 {
                v[at..at + 4].copy_from_slice(&val.to_le_bytes());
            }
        }
    }
    let _ = tier;
    let l = if label.is_empty() { "opn-crafted-valid".to_string() } else { format!("opn-{}", label.join("+")) };
    (l, v)
}

// ------------------------------------------------------------------------------------------------
// Deterministic boundary suite (round 3): emitted at the start of every generated run so that every
// arm of the model is reached systematically, not by luck.

fn base_cfg(policy: SecurityPolicy, mode: MessageSecurityMode, own: usize, peer: usize, seed: u64) -> Cfg {
    Cfg {
        policy,
        mode,
        has_cert: true,
        has_key: true,
        keys: policy != SecurityPolicy::None,
        client: seed % 2 == 0,
        own,
        peer,
        seed,
        init_policy: None,
        key_policy: None,
    }
}

fn sized(mut v: Vec<u8>) -> Vec<u8> {
    let n = v.len();
    set_size(&mut v, n);
    v
}

/// a well-formed OPN plain text (sequence header, body, padding) for `own`'s key
fn opn_plain(pol: SecurityPolicy, signer: &KeyFix, own: &KeyFix, body: &[u8]) -> Vec<u8> {
    let (_, _, overhead) = rsa_padding(pol);
    let mut plain = vec![1, 0, 0, 0, 2, 0, 0, 0];
    plain.extend_from_slice(body);
    plain.extend(good_padding(signer.size, own.size, own.size - overhead, body.len()));
    plain
}

fn suite(out: &mut Vec<String>) {
    let mut seed = 1000u64;
    let mut next = || {
        seed += 1;
        seed
    };
    // A. every policy x mode: valid MSG (F), CLO (C), MSG (A) from the real sender, and a valid OPN
    for &policy in POLICIES.iter() {
        for &mode in MODES.iter() {
            let c = base_cfg(policy, mode, 0, 1, next());
            out.push(c.reset_line());
            let sender = c.peer_channel(policy, mode);
            for (mt, fin) in [
                (MessageChunkType::Message, MessageIsFinalType::Final),
                (MessageChunkType::CloseSecureChannel, MessageIsFinalType::Intermediate),
                (MessageChunkType::Message, MessageIsFinalType::FinalError),
            ] {
                if let Some(v) = secured_chunk_f(&sender, mt, fin, 5, 6, b"boundary-suite") {
                    out.push(recv_line(&c, "suite-valid-sym", &v));
                }
            }
            if policy != SecurityPolicy::None {
                let (signer, own) = (key(c.peer), key(c.own));
                let plain = opn_plain(policy, signer, own, b"opn");
                let v = craft_opn(policy, signer, own, Some(policy.to_uri().as_bytes()), Some(&signer.der), Some(&own.thumb), &plain, true);
                out.push(recv_line(&c, "suite-valid-opn", &v));
            }
        }
    }
    // B. symmetric chunk length against header + signature, both signature sizes, both modes
    for &policy in &[SecurityPolicy::Basic256, SecurityPolicy::Basic256Sha256] {
        for &mode in &[MessageSecurityMode::Sign, MessageSecurityMode::SignAndEncrypt] {
            let c = base_cfg(policy, mode, 0, 1, next());
            out.push(c.reset_line());
            let sig = if policy == SecurityPolicy::Basic256 { 20 } else { 32 };
            for d in [-1i64, 0, 1, 16] {
                let n = (16 + sig + d) as usize;
                let mut v = b"MSGF".to_vec();
                v.resize(n, 0x5a);
                out.push(recv_line(&c, "suite-sym-len", &sized(v)));
            }
            for n in [12usize, 13, 15] {
                let mut v = b"CLOF".to_vec();
                v.resize(n, 1);
                out.push(recv_line(&c, "suite-sym-hdr-short", &sized(v)));
            }
        }
    }
    // C. hand-made MSG chunks with a right mac and every kind of padding (SignAndEncrypt) / Sign
    for &policy in &[SecurityPolicy::Basic128Rsa15, SecurityPolicy::Aes256Sha256RsaPss] {
        for &mode in &[MessageSecurityMode::SignAndEncrypt, MessageSecurityMode::Sign] {
            let c = base_cfg(policy, mode, 0, 1, next());
            out.push(c.reset_line());
            let sig: usize = if policy == SecurityPolicy::Basic128Rsa15 { 20 } else { 32 };
            // tail lengths that make (tail + sig) a multiple of 16
            let tail_len = |blocks: usize| blocks * 16 + (16 - sig % 16) % 16;
            let mk = |blocks: usize, pad: &[u8]| -> Vec<u8> {
                let mut t = vec![0x11u8; tail_len(blocks) - pad.len()];
                t.extend_from_slice(pad);
                t
            };
            let pads: Vec<(&str, Vec<u8>)> = vec![
                ("pad0", vec![0]),
                ("pad1", vec![1, 1]),
                ("pad5", vec![5; 6]),
                ("pad-huge", vec![255]),
                ("pad-bytes-bad", vec![3, 9, 3, 3]),
            ];
            for (name, pad) in pads {
                if let Some(v) = craft_sym(&c, b"MSG", b'F', &mk(2, &pad), true) {
                    out.push(recv_line(&c, &format!("suite-sym-{}", name), &v));
                }
            }
            // one-byte layout: announced padding size = padding end - 2, - 1, + 0, + 1 (padding end = 16 + tail)
            for (name, d) in [("end-2", -2i64), ("end-1", -1), ("end", 0), ("end+1", 1)] {
                let mut t2 = mk(1, &[]);
                let l = t2.len();
                t2[l - 1] = (16 + l as i64 + d) as u8;
                if let Some(v) = craft_sym(&c, b"MSG", b'F', &t2, true) {
                    out.push(recv_line(&c, &format!("suite-sym-pad-{}", name), &v));
                }
            }
            if let Some(v) = craft_sym(&c, b"CLO", b'F', &mk(1, &[2, 2, 2]), false) {
                out.push(recv_line(&c, "suite-sym-badmac", &v));
            }
            // not block aligned
            let mut t3 = mk(1, &[0]);
            t3.push(0);
            if let Some(v) = craft_sym(&c, b"MSG", b'F', &t3, true) {
                out.push(recv_line(&c, "suite-sym-unaligned", &v));
            }
        }
    }
    // D. OPN chunks against own keys of 1024, 2048 and 4096 bits
    for &own_id in &[0usize, 2, 4] {
        for &policy in &[SecurityPolicy::Basic128Rsa15, SecurityPolicy::Basic256Sha256] {
            let c = base_cfg(SecurityPolicy::None, MessageSecurityMode::None, own_id, 1, next());
            out.push(c.reset_line());
            let (signer, own) = (key(c.peer), key(c.own));
            let uri = policy.to_uri().as_bytes().to_vec();
            let good = opn_plain(policy, signer, own, b"0123456789");
            let mut v: Vec<(&str, Vec<u8>)> = Vec::new();
            let opn = |plain: &[u8], ok: bool| craft_opn(policy, signer, own, Some(&uri), Some(&signer.der), Some(&own.thumb), plain, ok);
            v.push(("ok", opn(&good, true)));
            v.push(("badsig", opn(&good, false)));
            let mut huge = good.clone();
            let l = huge.len();
            huge[l - 1] = 0xff;
            huge[l - 2] = 0xff;
            v.push(("pad-huge", opn(&huge, true)));
            let mut bad = good.clone();
            if l >= 12 {
                bad[l - 3] ^= 0x55;
            }
            v.push(("pad-bytes-bad", opn(&bad, true)));
            // padding length bytes at their boundaries: 0, 1, and "everything before me"
            let hdr_len0 = 12 + 4 + uri.len() + 4 + signer.der.len() + 24;
            let mut body8 = vec![1u8, 0, 0, 0, 2, 0, 0, 0, 0x41, 0x42];
            if own.size > 256 {
                v.push(("pad-len0", opn(&[&body8[..], &[0, 0]].concat(), true)));
                v.push(("pad-len1", opn(&[&body8[..], &[1, 1, 0]].concat(), true)));
                // announced padding size = padding end - 2, - 1, + 0, + 1 (padding end = header + plain text)
                let end = hdr_len0 + body8.len() + 2;
                for (name, d) in [("pad-end-2", -2i64), ("pad-end-1", -1), ("pad-end", 0), ("pad-end+1", 1)] {
                    let mut b2 = body8.clone();
                    b2.extend_from_slice(&((end as i64 + d) as u16).to_le_bytes());
                    v.push((name, opn(&b2, true)));
                }
            } else {
                v.push(("pad-len0", opn(&[&body8[..], &[0]].concat(), true)));
                v.push(("pad-len1", opn(&[&body8[..], &[1, 1]].concat(), true)));
            }
            v.push(("plain-empty", opn(&[], true)));
            v.push(("plain-tiny", opn(&[1, 2, 3], true)));
            // several blocks
            v.push(("blocks-many", opn(&opn_plain(policy, signer, own, &vec![7u8; 700]), true)));
            // no cipher text at all
            let full = opn(&good, true);
            let hdr_len = 12 + 4 + uri.len() + 4 + signer.der.len() + 24;
            v.push(("ct-none", sized(full[..hdr_len].to_vec())));
            // one byte short / long, one flipped bit
            v.push(("ct-short", sized(full[..full.len() - 1].to_vec())));
            let mut fl = full.clone();
            let fl_len = fl.len();
            fl[fl_len - 5] ^= 4;
            v.push(("ct-flip", fl));
            for (name, bytes) in v {
                out.push(recv_line(&c, &format!("suite-opn-{}", name), &bytes));
            }
        }
    }
    // E. OPN security-header fields: every decoding arm of each of the three fields
    {
        let policy = SecurityPolicy::Basic256;
        let c = base_cfg(SecurityPolicy::None, MessageSecurityMode::None, 0, 1, next());
        out.push(c.reset_line());
        let (signer, own) = (key(c.peer), key(c.own));
        let uri = policy.to_uri().as_bytes().to_vec();
        let plain = opn_plain(policy, signer, own, b"x");
        let f = |u: Option<&[u8]>, ce: Option<&[u8]>, t: Option<&[u8]>| craft_opn(policy, signer, own, u, ce, t, &plain, true);
        let big = vec![0x30u8; 32767];
        let big1 = vec![0x30u8; 32766];
        let cases: Vec<(&str, Vec<u8>)> = vec![
            ("uri-null", f(None, Some(&signer.der), Some(&own.thumb))),
            ("uri-empty", f(Some(&[]), Some(&signer.der), Some(&own.thumb))),
            ("uri-none", f(Some(SecurityPolicy::None.to_uri().as_bytes()), None, None)),
            ("uri-unknown", f(Some(b"http://opcfoundation.org/UA/SecurityPolicy#Basic257"), Some(&signer.der), Some(&own.thumb))),
            ("uri-utf8", f(Some(&[0x68, 0xc0, 0x80]), Some(&signer.der), Some(&own.thumb))),
            ("cert-null", f(Some(&uri), None, Some(&own.thumb))),
            ("cert-empty", f(Some(&uri), Some(&[]), Some(&own.thumb))),
            ("cert-garbage", f(Some(&uri), Some(&[1, 2, 3, 4, 5]), Some(&own.thumb))),
            ("cert-32767", f(Some(&uri), Some(&big), Some(&own.thumb))),
            ("cert-32766", f(Some(&uri), Some(&big1), Some(&own.thumb))),
            ("thumb-null", f(Some(&uri), Some(&signer.der), None)),
            ("thumb-empty", f(Some(&uri), Some(&signer.der), Some(&[]))),
            ("thumb-19", f(Some(&uri), Some(&signer.der), Some(&[9u8; 19]))),
            ("thumb-21", f(Some(&uri), Some(&signer.der), Some(&[9u8; 21]))),
            ("thumb-wrong", f(Some(&uri), Some(&signer.der), Some(&[9u8; 20]))),
        ];
        for (name, bytes) in cases {
            out.push(recv_line(&c, &format!("suite-fld-{}", name), &bytes));
        }
        // UTF-8 well-formedness of the policy URI at every range boundary (valid ones are unknown policies)
        let utf8: Vec<&[u8]> = vec![
            &[0x7f], &[0x80], &[0xc1, 0xbf], &[0xc2, 0x7f], &[0xc2, 0x80], &[0xc2, 0xbf], &[0xc2, 0xc0], &[0xdf, 0xbf], &[0xc2],
            &[0xe0, 0x9f, 0x80], &[0xe0, 0xa0, 0x80], &[0xe0, 0xbf, 0xbf], &[0xe0, 0xc0, 0x80], &[0xe0, 0xa0, 0x7f], &[0xe0, 0xa0, 0xc0], &[0xe0, 0xa0],
            &[0xe1, 0x7f, 0x80], &[0xe1, 0x80, 0x80], &[0xec, 0xbf, 0xbf], &[0xec, 0xc0, 0x80],
            &[0xed, 0x7f, 0x80], &[0xed, 0x80, 0x80], &[0xed, 0x9f, 0xbf], &[0xed, 0xa0, 0x80],
            &[0xee, 0x80, 0x80], &[0xef, 0xbf, 0xbf], &[0xef, 0xbf, 0xc0],
            &[0xf0, 0x8f, 0x80, 0x80], &[0xf0, 0x90, 0x80, 0x80], &[0xf0, 0xbf, 0xbf, 0xbf], &[0xf0, 0xc0, 0x80, 0x80], &[0xf0, 0x90, 0x80],
            &[0xf1, 0x7f, 0x80, 0x80], &[0xf1, 0x80, 0x80, 0x80], &[0xf3, 0xbf, 0xbf, 0xbf], &[0xf3, 0xbf, 0x7f, 0xbf], &[0xf3, 0xbf, 0xbf, 0xc0],
            &[0xf4, 0x7f, 0x80, 0x80], &[0xf4, 0x80, 0x80, 0x80], &[0xf4, 0x8f, 0xbf, 0xbf], &[0xf4, 0x90, 0x80, 0x80], &[0xf5, 0x80, 0x80, 0x80], &[0xff],
        ];
        for (i, u) in utf8.iter().enumerate() {
            let mut uri2 = b"urn:".to_vec();
            uri2.extend_from_slice(u);
            uri2.push(b'!');
            out.push(recv_line(&c, &format!("suite-utf8-{}", i), &f(Some(&uri2), None, None)));
        }
        // multi-byte sequences cut off by the END of the string
        let cut: Vec<&[u8]> = vec![&[0xc2], &[0xdf], &[0xe0], &[0xe0, 0xa0], &[0xed, 0x80], &[0xef], &[0xf0], &[0xf0, 0x90], &[0xf0, 0x90, 0x80], &[0xf4, 0x8f, 0xbf]];
        for (i, u) in cut.iter().enumerate() {
            let mut uri2 = b"urn:".to_vec();
            uri2.extend_from_slice(u);
            out.push(recv_line(&c, &format!("suite-utf8-cut-{}", i), &f(Some(&uri2), None, None)));
        }
        // a URI of exactly max_string_length bytes is decoded (and is an unknown policy), one more is not
        for n in [65535usize, 65536] {
            let long = vec![b'a'; n];
            let mut v = b"OPNF".to_vec();
            v.extend_from_slice(&[0u8; 8]);
            v.extend(enc_field(Some(&long)));
            v.extend(enc_field(None));
            v.extend(enc_field(None));
            out.push(recv_line(&c, &format!("suite-uri-len-{}", n), &sized(v)));
        }
        // corrupted length prefixes of each field: negative, over the limit, longer than the chunk, cut off
        let valid = f(Some(&uri), Some(&signer.der), Some(&own.thumb));
        let offs = [12usize, 12 + 4 + uri.len(), 12 + 4 + uri.len() + 4 + signer.der.len()];
        for (k, off) in offs.iter().enumerate() {
            for (name, val) in [("neg", -2i32), ("over", 65536), ("short", 60000)] {
                let mut v = valid.clone();
                v[*off..*off + 4].copy_from_slice(&val.to_le_bytes());
                out.push(recv_line(&c, &format!("suite-len{}-{}", k, name), &v));
            }
            out.push(recv_line(&c, &format!("suite-len{}-cut", k), &sized(valid[..*off + 2].to_vec())));
        }
        // header: size field, type, final flag, very short
        for (name, sz) in [("lt", valid.len() as u32 - 1), ("gt", valid.len() as u32 + 1)] {
            let mut v = valid.clone();
            v[4..8].copy_from_slice(&sz.to_le_bytes());
            out.push(recv_line(&c, &format!("suite-opn-size-{}", name), &v));
        }
        let msg = sized(b"MSGF\0\0\0\0\0\0\0\0\x01\0\0\0\x01\0\0\0\x01\0\0\0body".to_vec());
        for (name, sz) in [("lt", msg.len() as u32 - 1), ("gt", msg.len() as u32 + 1)] {
            let mut v = msg.clone();
            v[4..8].copy_from_slice(&sz.to_le_bytes());
            out.push(recv_line(&c, &format!("suite-sym-size-{}", name), &v));
        }
        let mut v = msg.clone();
        v[0] = b'X';
        out.push(recv_line(&c, "suite-bad-type", &v));
        let mut v = msg.clone();
        v[3] = b'Z';
        out.push(recv_line(&c, "suite-bad-flag", &v));
        out.push(recv_line(&c, "suite-hdr-short", &msg[..11]));
        out.push(recv_line(&c, "suite-empty", &[]));
    }
    // E2. decoding limits changed after set-up (set_decoding_options), each limit at its boundary
    {
        let policy = SecurityPolicy::Basic128Rsa15;
        let c = base_cfg(SecurityPolicy::None, MessageSecurityMode::None, 0, 1, next());
        out.push(c.reset_line());
        let (signer, own) = (key(c.peer), key(c.own));
        let uri = policy.to_uri().as_bytes().to_vec();
        let plain = opn_plain(policy, signer, own, b"lim");
        let v = craft_opn(policy, signer, own, Some(&uri), Some(&signer.der), Some(&own.thumb), &plain, true);
        for (a, b) in [
            (uri.len(), signer.der.len()),
            (uri.len() - 1, signer.der.len()),
            (uri.len(), signer.der.len() - 1),
            (uri.len(), 19),
            (0, 0),
            (65535, 65535),
        ] {
            out.push(format!("setlimits {} {}", a, b));
            out.push(recv_line(&c, "suite-limits", &v));
        }
    }
    // F. channels without credentials, foreign thumbprint, OPN on a secured channel
    for (hc, hk) in [(false, true), (true, false)] {
        let mut c = base_cfg(SecurityPolicy::None, MessageSecurityMode::None, 0, 1, next());
        c.has_cert = hc;
        c.has_key = hk;
        out.push(c.reset_line());
        let (signer, own) = (key(c.peer), key(c.own));
        let policy = SecurityPolicy::Aes128Sha256RsaOaep;
        let plain = opn_plain(policy, signer, own, b"y");
        let v = craft_opn(policy, signer, own, Some(policy.to_uri().as_bytes()), Some(&signer.der), Some(&own.thumb), &plain, true);
        out.push(recv_line(&c, "suite-opn-no-cred", &v));
    }
    {
        let c = base_cfg(SecurityPolicy::Basic256Sha256, MessageSecurityMode::SignAndEncrypt, 0, 1, next());
        out.push(c.reset_line());
        let (signer, own) = (key(c.peer), key(c.own));
        for policy in [SecurityPolicy::Basic256Sha256, SecurityPolicy::Basic256, SecurityPolicy::None] {
            let plain = opn_plain(if policy == SecurityPolicy::None { SecurityPolicy::Basic256 } else { policy }, signer, own, b"z");
            let v = if policy == SecurityPolicy::None {
                let p3 = c.peer_channel(SecurityPolicy::None, MessageSecurityMode::None);
                secured_chunk(&p3, MessageChunkType::OpenSecureChannel, 1, 1, b"z").unwrap_or_default()
            } else {
                craft_opn(policy, signer, own, Some(policy.to_uri().as_bytes()), Some(&signer.der), Some(&own.thumb), &plain, true)
            };
            out.push(recv_line(&c, "suite-opn-on-secured", &v));
        }
    }
    // G. parameters changed after the channel was set up: mode, policy, late key derivation
    {
        let mut c = base_cfg(SecurityPolicy::Basic256Sha256, MessageSecurityMode::None, 0, 1, next());
        c.init_policy = Some(c.policy);
        c.key_policy = Some(c.policy);
        out.push(c.reset_line());
        for mode in [MessageSecurityMode::None, MessageSecurityMode::Sign, MessageSecurityMode::SignAndEncrypt, MessageSecurityMode::Invalid, MessageSecurityMode::Sign] {
            out.push(format!("setmode {}", mode_name(mode)));
            c.mode = mode;
            let sender = c.peer_channel(c.policy, if mode == MessageSecurityMode::Invalid { MessageSecurityMode::None } else { mode });
            if let Some(v) = secured_chunk(&sender, MessageChunkType::Message, 3, 4, b"after setmode") {
                out.push(recv_line(&c, "suite-after-setmode", &v));
            }
        }
        // same suite of symmetric algorithms, other policy name: still verifies; other suite: does not
        for policy in [SecurityPolicy::Aes256Sha256RsaPss, SecurityPolicy::Basic256, SecurityPolicy::None, SecurityPolicy::Basic256Sha256] {
            out.push(format!("setpolicy {}", policy_name(policy)));
            let sender = c.peer_channel(SecurityPolicy::Basic256Sha256, MessageSecurityMode::Sign);
            c.policy = policy;
            if let Some(v) = secured_chunk(&sender, MessageChunkType::Message, 3, 4, b"after setpolicy") {
                out.push(recv_line(&c, "suite-after-setpolicy", &v));
            }
        }
    }
    {
        // mode set first, keys derived later (the order the server uses)
        let mut c = base_cfg(SecurityPolicy::Basic128Rsa15, MessageSecurityMode::None, 2, 3, next());
        c.keys = false;
        c.init_policy = Some(c.policy);
        out.push(c.reset_line());
        let sender = c.peer_channel(c.policy, MessageSecurityMode::SignAndEncrypt);
        let v = secured_chunk(&sender, MessageChunkType::Message, 8, 9, b"late keys").unwrap_or_default();
        out.push(format!("setmode {}", mode_name(MessageSecurityMode::SignAndEncrypt)));
        c.mode = MessageSecurityMode::SignAndEncrypt;
        out.push(recv_line(&c, "suite-before-derive", &v));
        out.push("derive".to_string());
        c.keys = true;
        c.key_policy = Some(c.policy);
        out.push(recv_line(&c, "suite-after-derive", &v));
    }
}

impl Prop for C09 {
    fn id(&self) -> &'static str {
        "C09"
    }

    fn gen(&self, rng: &mut Rng, n: usize, tier: Tier, out: &mut Vec<String>) {
        std::panic::set_hook(Box::new(|_| {}));
        suite(out);
        for _ in 0..n {
            let cfg = gen_cfg(rng, tier);
            out.push(cfg.reset_line());
            let ops = rng.range(1, 4);
            for _ in 0..ops {
                let (label, bytes) = if rng.chance(2, 5) { gen_opn(rng, &cfg, tier) } else { gen_sym(rng, &cfg) };
                out.push(recv_line(&cfg, &label, &bytes));
            }
        }
    }

    fn runner(&self) -> Box<dyn Runner> {
        Box::new(R { me: None })
    }
}

pub struct R {
    pub me: Option<SecureChannel>,
}

pub fn show_result(me: &SecureChannel, r: &Result<MessageChunk, opcua::types::StatusCode>) -> String {
    let p = policy_name(me.security_policy());
    match r {
        Ok(c) => format!("ok {} x{} p={}", c.data.len(), hex(&c.data), p),
        Err(e) => format!("err {} p={}", e.name(), p),
    }
}

impl Runner for R {
    fn step(&mut self, toks: &[&str]) -> (String, Verdict) {
        match toks {
            ["reset", ..] => match Cfg::parse(toks) {
                Some(cfg) => {
                    let me = cfg.me();
                    let s = format!("ok p={}", policy_name(me.security_policy()));
                    self.me = Some(me);
                    (s, Verdict::Ok)
                }
                None => ("bad-op".to_string(), Verdict::Ok),
            },
            ["setmode", m] => match (self.me.as_mut(), parse_mode(m)) {
                (Some(me), Some(m)) => {
                    me.set_security_mode(m);
                    (format!("ok p={}", policy_name(me.security_policy())), Verdict::Ok)
                }
                _ => ("bad-op".to_string(), Verdict::Ok),
            },
            ["setpolicy", p] => match (self.me.as_mut(), parse_policy(p)) {
                (Some(me), Some(p)) => {
                    me.set_security_policy(p);
                    (format!("ok p={}", policy_name(me.security_policy())), Verdict::Ok)
                }
                _ => ("bad-op".to_string(), Verdict::Ok),
            },
            ["setlimits", a, b] => match (self.me.as_mut(), a.parse::<usize>(), b.parse::<usize>()) {
                (Some(me), Ok(a), Ok(b)) => {
                    me.set_decoding_options(opcua::types::DecodingOptions {
                        max_string_length: a,
                        max_byte_string_length: b,
                        ..Default::default()
                    });
                    (format!("ok p={}", policy_name(me.security_policy())), Verdict::Ok)
                }
                _ => ("bad-op".to_string(), Verdict::Ok),
            },
            ["derive"] => match self.me.as_mut() {
                Some(me) if me.security_policy() != SecurityPolicy::None => {
                    me.derive_keys();
                    (format!("ok p={}", policy_name(me.security_policy())), Verdict::Ok)
                }
                _ => ("bad-op".to_string(), Verdict::Ok),
            },
            ["recv", _label, src, ..] if toks.len() == 9 => {
                let (Some(me), Some(src)) = (self.me.as_mut(), unhex(src)) else {
                    return ("bad-op".to_string(), Verdict::Ok);
                };
                // the property: whatever the bytes, a chunk or an error comes back (a panic unwinds
                // to main.rs and is reported through `on_panic`)
                let r = me.verify_and_remove_security(&src);
                (show_result(me, &r), Verdict::Ok)
            }
            _ => ("bad-op".to_string(), Verdict::Ok),
        }
    }

    fn on_panic(&self, toks: &[&str]) -> Verdict {
        Verdict::fail("no_panic", toks.get(1).copied().unwrap_or("-"), "the receive path panicked")
    }
}
