//! C20 — session activation authenticates the user exactly as configured.
//!
//! Every case installs a generated endpoint / user-token configuration into the (shared) sample
//! server's `ServerConfig`, opens a connection whose secure channel has the chosen policy and mode and
//! drives CreateSession / ActivateSession through the real `MessageHandler`.  Passwords are encrypted
//! and signatures are made with real RSA keys; nonces are the ones the server returned.
use super::c19::{activate_request_signed, anonymous_token, header, status_of, Conn, ENDPOINT_URL};
use crate::common::*;
use crate::fixtures;
use opcua::core::supported_message::SupportedMessage;
use opcua::crypto::user_identity::legacy_password_encrypt;
use opcua::crypto::{self as crypto, PrivateKey, RsaPadding, SecurityPolicy, X509Data, X509};
use opcua::server::config::{ServerConfig, ServerEndpoint, ServerUserToken, ANONYMOUS_USER_TOKEN_ID};
use opcua::server::prelude::*;
use std::collections::BTreeMap;
use std::sync::OnceLock;

pub struct C20;
pub static P: C20 = C20;

const POLICIES: [SecurityPolicy; 6] = [
    SecurityPolicy::None,
    SecurityPolicy::Basic128Rsa15,
    SecurityPolicy::Basic256,
    SecurityPolicy::Basic256Sha256,
    SecurityPolicy::Aes128Sha256RsaOaep,
    SecurityPolicy::Aes256Sha256RsaPss,
];
const POLICY_IDS: [&str; 6] = ["anonymous", "userpass_none", "userpass_rsa_15", "userpass_rsa_oaep", "x509", "bogus"];
const NAMES: [&str; 6] = ["", "üser1", "u2", "u3", "nobody", "x1"];
const PASSWORDS: [&str; 4] = ["", "pässwörd1", "pw3", "wrong"];
const ALGS: [&str; 4] = [
    "http://www.w3.org/2001/04/xmlenc#rsa-1_5",
    "http://www.w3.org/2001/04/xmlenc#rsa-oaep",
    "http://opcfoundation.org/UA/security/rsa-oaep-sha2-256",
    "http://example.org/unknown-algorithm",
];

// configuration bits of the `reset` op
const B_ANON: u32 = 1;
const B_U1: u32 = 2;
const B_U2: u32 = 4;
const B_U3: u32 = 8;
const B_X1: u32 = 16;
const B_X2: u32 = 32;
const B_GHOST: u32 = 64;
const B_NO_ENDPOINT: u32 = 128;
const B_PW_OVERRIDE: u32 = 256;
const B_NO_KEY: u32 = 512;
const B_NO_CERT: u32 = 1024;
const B_X1_NO_THUMB: u32 = 2048;

struct Universe {
    client: (X509, PrivateKey),
    /// user certificates A (configured as x1), B (configured as x2), C (not configured)
    users: Vec<(X509, PrivateKey)>,
    original: ServerConfig,
    server_cert: Option<X509>,
}
unsafe impl Sync for Universe {}
unsafe impl Send for Universe {}

fn make_cert(cn: &str) -> (X509, PrivateKey) {
    let data = X509Data {
        key_size: 2048,
        common_name: cn.to_string(),
        organization: "verif".to_string(),
        organizational_unit: "verif".to_string(),
        country: "IE".to_string(),
        state: "Dublin".to_string(),
        alt_host_names: vec![format!("urn:verif:{}", cn), "localhost".to_string()],
        certificate_duration_days: 365,
    };
    X509::cert_and_pkey(&data).expect("certificate")
}

fn universe() -> &'static Universe {
    static U: OnceLock<Universe> = OnceLock::new();
    U.get_or_init(|| {
        let fx = fixtures::server();
        {
            let store = fx.server.certificate_store();
            let mut store = store.write();
            store.set_trust_unknown_certs(true);
        }
        let (original, server_cert, _) = {
            let ss = fx.server_state.read();
            let c = ss.config.read().clone();
            (c, ss.server_certificate.clone(), ())
        };
        Universe {
            client: make_cert("client"),
            users: vec![make_cert("userA"), make_cert("userB"), make_cert("userC")],
            original,
            server_cert,
        }
    })
}

/// the server's private key, re-read from the PKI directory (`PrivateKey` is not `Clone`)
fn own_key() -> Option<PrivateKey> {
    let store = fixtures::server().server.certificate_store();
    let store = store.read();
    store.read_own_cert_and_pkey().ok().map(|x| x.1)
}

fn pw_policy_id(pol: usize, bits: u32) -> usize {
    if bits & B_PW_OVERRIDE != 0 {
        3
    } else {
        match pol {
            0 => 1,
            1 => 2,
            _ => 3,
        }
    }
}

fn mode_of(pol: usize, mode: u32) -> MessageSecurityMode {
    if pol == 0 {
        MessageSecurityMode::None
    } else if mode == 3 {
        MessageSecurityMode::SignAndEncrypt
    } else {
        MessageSecurityMode::Sign
    }
}

fn install_config(pol: usize, mode: u32, bits: u32) {
    let fx = fixtures::server();
    let u = universe();
    let mut ids: Vec<String> = Vec::new();
    for (bit, id) in [
        (B_ANON, ANONYMOUS_USER_TOKEN_ID),
        (B_U1, "u1_id"),
        (B_U2, "u2_id"),
        (B_U3, "u3_id"),
        (B_X1, "x1_id"),
        (B_X2, "x2_id"),
        (B_GHOST, "ghost_id"),
    ] {
        if bits & bit != 0 {
            ids.push(id.to_string());
        }
    }
    let mut users: BTreeMap<String, ServerUserToken> = BTreeMap::new();
    let up = |user: &str, pass: Option<&str>| ServerUserToken {
        user: user.to_string(),
        pass: pass.map(|p| p.to_string()),
        x509: None,
        thumbprint: None,
    };
    users.insert("u1_id".into(), up(NAMES[1], Some(PASSWORDS[1])));
    users.insert("u2_id".into(), up(NAMES[2], None));
    users.insert("u3_id".into(), up(NAMES[3], Some(PASSWORDS[2])));
    users.insert(
        "x1_id".into(),
        ServerUserToken {
            user: NAMES[5].to_string(),
            pass: None,
            x509: Some("./users/a.der".to_string()),
            thumbprint: if bits & B_X1_NO_THUMB != 0 { None } else { Some(u.users[0].0.thumbprint()) },
        },
    );
    users.insert(
        "x2_id".into(),
        ServerUserToken {
            user: "x2".to_string(),
            pass: None,
            x509: Some("./users/b.der".to_string()),
            thumbprint: Some(u.users[1].0.thumbprint()),
        },
    );
    let (epol, emode) = if bits & B_NO_ENDPOINT != 0 {
        // an endpoint with the same url exists (CreateSession works) but not for this channel's security
        if pol == 3 {
            (SecurityPolicy::Basic256, MessageSecurityMode::Sign)
        } else {
            (SecurityPolicy::Basic256Sha256, MessageSecurityMode::SignAndEncrypt)
        }
    } else {
        (POLICIES[pol], mode_of(pol, mode))
    };
    let mut endpoint = ServerEndpoint::new("/", epol, emode, &ids);
    if bits & B_PW_OVERRIDE != 0 {
        endpoint.password_security_policy = Some(SecurityPolicy::Basic256Sha256.to_string());
    }
    let mut ss = fx.server_state.write();
    {
        let mut c = ss.config.write();
        c.user_tokens = users;
        c.endpoints = BTreeMap::new();
        c.endpoints.insert("only".to_string(), endpoint);
    }
    ss.server_pkey = if bits & B_NO_KEY != 0 { None } else { own_key() };
    ss.server_certificate = if bits & B_NO_CERT != 0 { None } else { u.server_cert.clone() };
}

fn restore_config() {
    let fx = fixtures::server();
    let u = universe();
    let mut ss = fx.server_state.write();
    *ss.config.write() = u.original.clone();
    ss.server_pkey = own_key();
    ss.server_certificate = u.server_cert.clone();
}

impl Prop for C20 {
    fn id(&self) -> &'static str {
        "C20"
    }

    fn gen(&self, rng: &mut Rng, n: usize, tier: Tier, out: &mut Vec<String>) {
        for _ in 0..n {
            let pol = rng.weighted(&[4, 1, 1, 2, 1, 1]);
            let mode = 2 + rng.below(2);
            let mut bits: u32 = 0;
            // a mostly sensible configuration with random holes
            for (bit, num, den) in [
                (B_ANON, 2, 3),
                (B_U1, 3, 4),
                (B_U2, 1, 2),
                (B_U3, 1, 4),
                (B_X1, 2, 3),
                (B_X2, 1, 5),
                (B_GHOST, 1, 6),
                (B_NO_ENDPOINT, 1, 25),
                (B_PW_OVERRIDE, 1, 6),
                (B_NO_KEY, 1, 25),
                (B_NO_CERT, 1, 30),
                (B_X1_NO_THUMB, 1, 15),
            ] {
                if rng.chance(num, den) {
                    bits |= bit;
                }
            }
            out.push(format!("reset {} {} {}", pol, mode, bits));
            let pwid = pw_policy_id(pol, bits);
            let right_alg = match pol {
                1 => 0,
                5 => 2,
                _ => 1,
            };
            let len = if tier == Tier::Thorough { rng.range(2, 16) } else { rng.range(2, 10) };
            let mut nsess = 0u64;
            // nonce index the generator believes is current for each session (exact when every earlier
            // activation it aimed to succeed did succeed; only used to aim)
            let mut handed = 0u64;
            let mut earlier_tokens: Vec<String> = Vec::new();
            for _ in 0..len {
                if nsess == 0 || (nsess < 2 && rng.chance(1, 8)) {
                    out.push("create".to_string());
                    handed += 1;
                    nsess += 1;
                    continue;
                }
                let s = rng.below(nsess);
                let nidx = |rng: &mut Rng| -> String {
                    match rng.weighted(&[12, 3, 1, 1]) {
                        0 => "c".to_string(),
                        1 => format!("{}", rng.below(handed.max(1))),
                        2 => format!("{}", handed + rng.below(3)),
                        _ => "0".to_string(),
                    }
                };
                let cs = if rng.chance(1, 8) {
                    match rng.below(4) {
                        0 => "x".to_string(),
                        1 => "0".to_string(), // the first nonce handed out: another session's or an earlier one
                        _ => nidx(rng),
                    }
                } else {
                    "c".to_string()
                };
                let pid = |rng: &mut Rng, right: usize| -> usize {
                    if rng.chance(6, 7) { right } else { rng.below(6) as usize }
                };
                let tok = match rng.weighted(&[3, 1, 10, 6, 1, 3]) {
                    0 => format!("anon {}", pid(rng, 0)),
                    1 => "empty".to_string(),
                    2 => {
                        let name = match rng.weighted(&[6, 3, 2, 1, 1, 1]) {
                            0 => 1,
                            1 => 2,
                            2 => 3,
                            3 => 4,
                            4 => 5,
                            _ => 0,
                        };
                        let right_pw = match name {
                            1 => 1,
                            3 => 2,
                            _ => 0,
                        };
                        let pw = if rng.chance(4, 5) { right_pw } else { rng.below(4) as usize };
                        let p = pid(rng, pwid);
                        match rng.weighted(&[4, 8, 1, 1]) {
                            0 => format!("user {} {} p {} 0", p, name, pw),
                            1 => {
                                let used = if rng.chance(5, 6) { right_alg } else { rng.below(3) as usize };
                                let decl = if rng.chance(9, 10) { used } else { rng.below(4) as usize };
                                format!("user {} {} e {} {} {} {}", p, name, decl, used, pw, nidx(rng))
                            }
                            2 => format!("user {} {} p {} 1", p, name, pw),
                            _ => format!("user {} {} b", p, name),
                        }
                    }
                    3 => {
                        let cert = match rng.weighted(&[6, 2, 2, 1]) {
                            0 => 1,
                            1 => 2,
                            2 => 3,
                            _ => 0,
                        };
                        let p = pid(rng, 4);
                        match rng.weighted(&[10, 1, 1]) {
                            0 => {
                                let key = if cert != 0 && rng.chance(7, 8) { cert } else { 1 + rng.below(3) as usize };
                                format!("x509 {} {} s {} {}", p, cert, key, nidx(rng))
                            }
                            1 => format!("x509 {} {} g", p, cert),
                            _ => format!("x509 {} {} n", p, cert),
                        }
                    }
                    4 => (*rng.pick(&["invalid", "invalid issued", "invalid body", "invalid strid"])).to_string(),
                    // replay of an identity token used earlier in this case (same session or not)
                    _ => match earlier_tokens.is_empty() {
                        true => "anon 0".to_string(),
                        false => rng.pick(&earlier_tokens).clone(),
                    },
                };
                earlier_tokens.push(tok.clone());
                out.push(format!("act {} {} {}", s, cs, tok));
                // upper bound of the number of nonces handed out so far (an activation may hand one out)
                handed += 1;
            }
        }
    }

    fn runner(&self) -> Box<dyn Runner> {
        Box::new(R { st: None })
    }
}

struct Sess {
    token: NodeId,
    /// index (into `nonces`) of the nonce returned by the last Create/Activate response of this session
    cur: usize,
}

struct S {
    conn: Conn,
    pol: usize,
    bits: u32,
    sessions: Vec<Sess>,
    /// every server nonce received so far
    nonces: Vec<ByteString>,
}

impl Drop for S {
    fn drop(&mut self) {
        restore_config();
    }
}

struct R {
    st: Option<S>,
}

fn nonce_len(pol: usize) -> usize {
    if pol == 1 {
        16
    } else {
        32
    }
}

fn status_class(s: StatusCode) -> &'static str {
    // which of the two codes a failed RSA unpadding / length check / UTF-8 check yields is not the property's business
    if s == StatusCode::BadEncodingError {
        "BadDecodingError"
    } else {
        s.name()
    }
}

impl S {
    /// nonce argument of an op: `c` = current nonce of session `si`, a number = index into the nonces received
    fn nidx(&self, si: usize, a: &str) -> usize {
        if a == "c" {
            self.sessions[si].cur
        } else {
            a.parse().unwrap_or(usize::MAX / 2)
        }
    }

    fn nonce(&self, idx: usize) -> ByteString {
        if idx < self.nonces.len() {
            self.nonces[idx].clone()
        } else {
            // a nonce the server never issued
            let mut b = vec![0u8; nonce_len(self.pol)];
            for (i, x) in b.iter_mut().enumerate() {
                *x = (idx as u8).wrapping_mul(17).wrapping_add(i as u8) | 0x80;
            }
            ByteString::from(b)
        }
    }

    fn probe(&self) -> String {
        let mut rows = Vec::new();
        for s in &self.sessions {
            let found = self.conn.sessions().into_iter().find(|x| x.read().authentication_token() == &s.token);
            match found {
                Some(x) => {
                    let x = x.read();
                    let k = self.nonces.iter().rposition(|n| n == x.session_nonce());
                    rows.push(format!("{}:{}", b(x.is_activated()), k.map(|k| k.to_string()).unwrap_or_else(|| "?".into())));
                }
                None => rows.push("gone".to_string()),
            }
        }
        format!("[{}]", rows.join(","))
    }

    fn show_nonce(&self, n: &ByteString) -> String {
        if n.is_null() {
            "null".to_string()
        } else {
            format!("len={}", n.as_ref().len())
        }
    }

    fn exec(&mut self, toks: &[&str]) -> (String, Verdict) {
        let u = universe();
        let mut verdict = Verdict::Ok;
        let res = match toks {
            ["reset", ..] => "ok".to_string(),
            ["create"] => {
                let req: SupportedMessage = CreateSessionRequest {
                    request_header: header(&NodeId::null()),
                    client_description: ApplicationDescription::default(),
                    server_uri: UAString::null(),
                    endpoint_url: UAString::from(ENDPOINT_URL),
                    session_name: UAString::from("verif"),
                    client_nonce: ByteString::from(vec![7u8; 32]),
                    client_certificate: u.client.0.as_byte_string(),
                    requested_session_timeout: 60000.0,
                    max_response_message_size: 0,
                }
                .into();
                match self.conn.call(req).ok().flatten() {
                    Some(SupportedMessage::CreateSessionResponse(r)) => {
                        self.nonces.push(r.server_nonce.clone());
                        self.sessions.push(Sess {
                            token: r.authentication_token.clone(),
                            cur: self.nonces.len() - 1,
                        });
                        format!("ok {} n{} {}", self.sessions.len() - 1, self.nonces.len() - 1, self.show_nonce(&r.server_nonce))
                    }
                    Some(m) => format!("err {}", status_class(status_of(&m))),
                    None => "err none".to_string(),
                }
            }
            ["act", s, cs, tok @ ..] => {
                let si: usize = s.parse().unwrap();
                if si >= self.sessions.len() {
                    return ("bad-op".to_string(), Verdict::Ok);
                }
                let pol = POLICIES[self.pol];
                let server_cert_bytes = u.server_cert.as_ref().map(|c| c.as_byte_string()).unwrap_or_else(ByteString::null);
                // ---- client signature
                let cur = self.sessions[si].cur;
                let (client_signature, cs_right) = match *cs {
                    "x" => (SignatureData::null(), false),
                    k => {
                        let k: usize = self.nidx(si, k);
                        let n = self.nonce(k);
                        let sig = if pol == SecurityPolicy::None || n.is_null() {
                            SignatureData::null()
                        } else {
                            crypto::create_signature_data(&u.client.1, pol, &server_cert_bytes, &n).unwrap_or_else(|_| SignatureData::null())
                        };
                        (sig, k == cur)
                    }
                };
                // ---- identity token; `expect_*` describe it in the property's words
                let mut user_token_signature = SignatureData::null();
                // (kind, allowed-by-config, credentials-right, fresh) — see the oracle below
                let kind: &str;
                let mut configured = false;
                let mut creds_right = false;
                let mut stale = false; // encrypted / signed for a nonce other than the session's current one
                let mut wellformed = true; // right policy id, supported algorithm, parsable — needed only for the converse
                let identity: ExtensionObject = match tok {
                    ["empty"] => {
                        kind = "anon";
                        configured = self.bits & B_ANON != 0;
                        creds_right = true;
                        ExtensionObject::null()
                    }
                    ["anon", pid] => {
                        kind = "anon";
                        let pid: usize = pid.parse().unwrap();
                        configured = self.bits & B_ANON != 0;
                        creds_right = true;
                        wellformed = pid == 0;
                        anonymous_token(POLICY_IDS[pid])
                    }
                    ["user", pid, name, rest @ ..] => {
                        kind = "user";
                        let pid: usize = pid.parse().unwrap();
                        let name: usize = name.parse().unwrap();
                        wellformed = pid == pw_policy_id(self.pol, self.bits);
                        let (cfg_bit, right_pw): (u32, Option<usize>) = match name {
                            1 => (B_U1, Some(1)),
                            2 => (B_U2, Some(0)),
                            3 => (B_U3, Some(2)),
                            _ => (0, None),
                        };
                        configured = cfg_bit != 0 && self.bits & cfg_bit != 0;
                        let user_name = if name == 0 { UAString::null() } else { UAString::from(NAMES[name]) };
                        let (password, alg) = match rest {
                            ["p", pw, empty_alg] => {
                                let pw: usize = pw.parse().unwrap();
                                creds_right = Some(pw) == right_pw;
                                if *empty_alg == "1" {
                                    wellformed = wellformed && self.bits & B_NO_KEY == 0;
                                }
                                (
                                    ByteString::from(PASSWORDS[pw].as_bytes()),
                                    if *empty_alg == "1" { UAString::from("") } else { UAString::null() },
                                )
                            }
                            ["b"] => {
                                creds_right = false;
                                (ByteString::from(vec![0xffu8, 0xfe, 0x80]), UAString::null())
                            }
                            ["e", decl, used, pw, nidx] => {
                                let decl: usize = decl.parse().unwrap();
                                let used: usize = used.parse().unwrap();
                                let pw: usize = pw.parse().unwrap();
                                let nidx: usize = self.nidx(si, nidx);
                                creds_right = Some(pw) == right_pw;
                                stale = nidx != cur;
                                wellformed = wellformed && decl == used && decl != 3 && self.bits & B_NO_KEY == 0;
                                let padding = match used {
                                    0 => RsaPadding::Pkcs1,
                                    1 => RsaPadding::OaepSha1,
                                    _ => RsaPadding::OaepSha256,
                                };
                                let n = self.nonce(nidx);
                                let cert = u.server_cert.as_ref().unwrap();
                                let secret = legacy_password_encrypt(PASSWORDS[pw], n.as_ref(), cert, padding).unwrap_or_else(|_| ByteString::null());
                                (secret, UAString::from(ALGS[decl]))
                            }
                            _ => return ("bad-op".to_string(), Verdict::Ok),
                        };
                        ExtensionObject::from_encodable(
                            ObjectId::UserNameIdentityToken_Encoding_DefaultBinary,
                            &UserNameIdentityToken {
                                policy_id: UAString::from(POLICY_IDS[pid]),
                                user_name,
                                password,
                                encryption_algorithm: alg,
                            },
                        )
                    }
                    ["x509", pid, cert, rest @ ..] => {
                        kind = "x509";
                        let pid: usize = pid.parse().unwrap();
                        let cert: usize = cert.parse().unwrap();
                        wellformed = pid == 4 && self.bits & B_NO_CERT == 0;
                        configured = match cert {
                            1 => self.bits & B_X1 != 0 && self.bits & B_X1_NO_THUMB == 0,
                            2 => self.bits & B_X2 != 0,
                            _ => false,
                        };
                        let certificate_data = if cert == 0 {
                            ByteString::from(vec![0x30u8, 0x03, 0x01, 0x02, 0x03])
                        } else {
                            u.users[cert - 1].0.as_byte_string()
                        };
                        match rest {
                            ["s", key, nidx] => {
                                let key: usize = key.parse().unwrap();
                                let nidx: usize = self.nidx(si, nidx);
                                creds_right = key == cert;
                                stale = nidx != cur;
                                let n = self.nonce(nidx);
                                // the user token signature is made with the Basic128Rsa15 algorithms (the
                                // policy the server announces for certificate tokens): RSA-SHA1 over
                                // server certificate ‖ nonce
                                let mut data = server_cert_bytes.as_ref().to_vec();
                                data.extend_from_slice(n.as_ref());
                                let pkey = &u.users[key - 1].1;
                                let mut sig = vec![0u8; pkey.size()];
                                let _ = SecurityPolicy::Basic128Rsa15.asymmetric_sign(pkey, &data, &mut sig);
                                user_token_signature = SignatureData {
                                    algorithm: UAString::from("http://www.w3.org/2000/09/xmldsig#rsa-sha1"),
                                    signature: ByteString::from(sig),
                                };
                            }
                            ["g"] => {
                                user_token_signature = SignatureData {
                                    algorithm: UAString::from("http://www.w3.org/2000/09/xmldsig#rsa-sha1"),
                                    signature: ByteString::from(vec![0x5au8; 256]),
                                };
                            }
                            _ => {}
                        }
                        ExtensionObject::from_encodable(
                            ObjectId::X509IdentityToken_Encoding_DefaultBinary,
                            &X509IdentityToken {
                                policy_id: UAString::from(POLICY_IDS[pid]),
                                certificate_data,
                            },
                        )
                    }
                    ["invalid", ..] => {
                        kind = "invalid";
                        match tok.get(1).copied() {
                            // an IssuedIdentityToken (a token type the server does not support)
                            Some("issued") => ExtensionObject::from_encodable(ObjectId::IssuedIdentityToken_Encoding_DefaultBinary, &anon_body()),
                            // a known token type id with a body that does not decode
                            Some("body") => {
                                let mut e = ExtensionObject::from_encodable(ObjectId::UserNameIdentityToken_Encoding_DefaultBinary, &anon_body());
                                if let ExtensionObjectEncoding::ByteString(ref mut b) = e.body {
                                    *b = ByteString::from(vec![0xffu8, 0xff, 0xff, 0x7f, 1]);
                                }
                                e
                            }
                            // a string node id as type id
                            Some("strid") => {
                                let mut e = ExtensionObject::from_encodable(ObjectId::AnonymousIdentityToken_Encoding_DefaultBinary, &anon_body());
                                e.node_id = NodeId::new(1, "token");
                                e
                            }
                            _ => ExtensionObject::from_encodable(ObjectId::ReadRequest_Encoding_DefaultBinary, &anon_body()),
                        }
                    }
                    _ => return ("bad-op".to_string(), Verdict::Ok),
                };
                let token = self.sessions[si].token.clone();
                let resp = self.conn.call(activate_request_signed(&token, identity, user_token_signature, client_signature)).ok().flatten();
                let channel = if self.pol == 0 { "none-channel" } else { "secured-channel" };
                match resp {
                    Some(SupportedMessage::ActivateSessionResponse(r)) => {
                        self.nonces.push(r.server_nonce.clone());
                        self.sessions[si].cur = self.nonces.len() - 1;
                        // ---- the property: success only if …
                        if kind == "invalid" {
                            verdict = Verdict::fail("token_kind_supported", channel, "an unsupported identity token was accepted");
                        } else if !configured {
                            verdict = Verdict::fail(
                                &format!("{}_only_if_configured", kind),
                                channel,
                                format!("{} token accepted although the endpoint does not allow it", kind),
                            );
                        } else if !creds_right {
                            verdict = Verdict::fail(&format!("{}_credentials_checked", kind), channel, "wrong password / signature by another key accepted");
                        } else if stale {
                            let class = format!("{}-{}-token-for-earlier-nonce", channel, kind);
                            verdict = Verdict::fail("replayed_token_rejected", &class, "a token encrypted / signed for a nonce other than the session's current nonce was accepted");
                        }
                        format!("ok n{} {}", self.nonces.len() - 1, self.show_nonce(&r.server_nonce))
                    }
                    Some(m) => {
                        // ---- … and a right token on a right configuration is accepted
                        let endpoint_ok = self.bits & B_NO_ENDPOINT == 0;
                        let sig_ok = self.pol == 0 || (cs_right && self.bits & B_NO_CERT == 0);
                        if endpoint_ok && sig_ok && configured && creds_right && !stale && wellformed && kind != "invalid" {
                            verdict = Verdict::fail("accepted_if_configured", channel, format!("a right {} token was refused: {}", kind, status_of(&m).name()));
                        }
                        format!("err {}", status_class(status_of(&m)))
                    }
                    None => "err none".to_string(),
                }
            }
            _ => return ("bad-op".to_string(), Verdict::Ok),
        };
        (format!("{} | {}", res, self.probe()), verdict)
    }
}

fn anon_body() -> AnonymousIdentityToken {
    AnonymousIdentityToken {
        policy_id: UAString::from("anonymous"),
    }
}

impl Runner for R {
    fn step(&mut self, toks: &[&str]) -> (String, Verdict) {
        if let ["reset", pol, mode, bits] = toks {
            self.st = None;
            let pol: usize = pol.parse().unwrap_or(0).min(5);
            let mode: u32 = mode.parse().unwrap_or(2);
            let bits: u32 = bits.parse().unwrap_or(0);
            let fx = fixtures::server();
            let _ = universe();
            install_config(pol, mode, bits);
            let conn = Conn::new(fx, 1);
            {
                let mut c = conn.chan.write();
                c.set_security_policy(POLICIES[pol]);
                c.set_security_mode(mode_of(pol, mode));
            }
            self.st = Some(S {
                conn,
                pol,
                bits,
                sessions: Vec::new(),
                nonces: Vec::new(),
            });
        }
        match self.st.as_mut() {
            Some(s) => s.exec(toks),
            None => ("bad-op".to_string(), Verdict::Ok),
        }
    }
}
