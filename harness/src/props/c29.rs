//! C29 — deleting a node terminates and leaves no dangling references.
//!
//! Runs the real `AddressSpace::delete` on a fresh `AddressSpace::default()` per case (only the
//! piece of the reference type hierarchy below `Aggregates` is installed).  The oracle keeps the
//! set of nodes and the set of reference triples from the op text alone, computes the aggregation
//! closure of the deleted node itself and scans the post-state of the implementation.
use crate::common::*;
use crate::props::c28::{nid, parse_entries, parse_triples, show_triples, tok};
use opcua::server::address_space::types::{AddressSpace, Object};
use opcua::server::address_space::EventNotifier;
use opcua::types::NodeId;
use std::collections::{BTreeMap, BTreeSet};

pub struct C29;
pub static P: C29 = C29;

/// observation universe (must equal `obsNodes` of Drv/C29.lean)
pub const OBS_NODES: [u32; 8] = [100, 101, 102, 103, 104, 105, 106, 107];
/// Aggregates and its subtypes (OPC UA Part 3 / Part 5): HasProperty, HasComponent,
/// HasOrderedComponent, HasHistoricalConfiguration
pub const AGG: [u32; 5] = [44, 46, 47, 49, 56];
const HAS_SUBTYPE: u32 = 45;

type Triple = (u32, u32, u32);

/// a fresh address space with the HasSubtype references below Aggregates
pub fn fresh_space() -> AddressSpace {
    let mut a = AddressSpace::default();
    for (p, c) in [(44u32, 46u32), (44, 47), (47, 49), (44, 56)] {
        a.insert_reference(&nid(p), &nid(c), nid(HAS_SUBTYPE));
    }
    a
}

pub fn obs_nodes(a: &AddressSpace) -> Vec<u32> {
    OBS_NODES.iter().cloned().filter(|n| a.node_exists(&nid(*n))).collect()
}

pub fn obs_fwd(a: &AddressSpace) -> Vec<Triple> {
    let mut out = Vec::new();
    for x in OBS_NODES {
        if let Some(l) = a.find_references(&nid(x), None::<(NodeId, bool)>) {
            let mut v: Vec<(u32, u32)> = l.iter().map(|r| (tok(&r.reference_type), tok(&r.target_node))).collect();
            v.sort();
            out.extend(v.into_iter().map(|(t, b)| (x, t, b)));
        }
    }
    out
}

pub fn obs_inv(a: &AddressSpace) -> Vec<Triple> {
    let mut out = Vec::new();
    for x in OBS_NODES {
        if let Some(l) = a.find_inverse_references(&nid(x), None::<(NodeId, bool)>) {
            let mut v: Vec<(u32, u32)> = l.iter().map(|r| (tok(&r.reference_type), tok(&r.target_node))).collect();
            v.sort();
            out.extend(v.into_iter().map(|(t, s)| (s, t, x)));
        }
    }
    out
}

pub fn show_nodes(v: &[u32]) -> String {
    let s: Vec<String> = v.iter().map(|n| n.to_string()).collect();
    format!("[{}]", s.join(","))
}

pub fn obs(a: &AddressSpace) -> (String, Vec<u32>, Vec<Triple>, Vec<Triple>) {
    let (n, f, i) = (obs_nodes(a), obs_fwd(a), obs_inv(a));
    (format!("N={} F={} I={}", show_nodes(&n), show_triples(&f), show_triples(&i)), n, f, i)
}

/// everything reachable from `n` through aggregating references (the nodes "it aggregates",
/// transitively), `n` included
pub fn closure(triples: &BTreeSet<Triple>, n: u32) -> BTreeSet<u32> {
    let mut seen = BTreeSet::new();
    let mut todo = vec![n];
    while let Some(x) = todo.pop() {
        if !seen.insert(x) {
            continue;
        }
        for (a, t, b) in triples.iter() {
            if *a == x && AGG.contains(t) {
                todo.push(*b);
            }
        }
    }
    seen
}

/// input class of a delete: shape of the aggregation graph below the node
pub fn shape(triples: &BTreeSet<Triple>, n: u32) -> &'static str {
    let c = closure(triples, n);
    // in-degree inside the closure (aggregating references only, distinct sources)
    let mut indeg: BTreeMap<u32, BTreeSet<u32>> = BTreeMap::new();
    for (a, t, b) in triples.iter() {
        if c.contains(a) && AGG.contains(t) {
            indeg.entry(*b).or_default().insert(*a);
        }
    }
    // a cycle exists iff some node of the closure reaches itself
    let cyclic = c.iter().any(|x| {
        triples.iter().any(|(a, t, b)| *a == *x && AGG.contains(t) && closure(triples, *b).contains(x))
    });
    if cyclic {
        "cycle"
    } else if indeg.values().any(|s| s.len() > 1) {
        "shared"
    } else if c.len() > 1 {
        "tree"
    } else {
        "leaf"
    }
}

impl Prop for C29 {
    fn id(&self) -> &'static str {
        "C29"
    }

    fn gen(&self, rng: &mut Rng, n: usize, tier: Tier, out: &mut Vec<String>) {
        let types = [47u32, 47, 46, 49, 44, 56, 35, 40];
        for _ in 0..n {
            out.push("reset".to_string());
            let k = rng.range(1, if tier == Tier::Thorough { 8 } else { 7 }) as usize;
            let nodes: Vec<u32> = (0..k).map(|i| 100 + i as u32).collect();
            for x in &nodes {
                // most nodes exist; references may mention nodes that do not
                if rng.chance(5, 6) {
                    out.push(format!("node {}", x));
                    // inserting an id twice is refused
                    if rng.chance(1, 12) {
                        out.push(format!("node {}", x));
                    }
                }
            }
            let mut edges: Vec<Triple> = Vec::new();
            let mut add = |out: &mut Vec<String>, a: u32, t: u32, b: u32| {
                if a != b {
                    edges.push((a, t, b));
                    out.push(format!("ref {} {} {}", a, b, t));
                }
            };
            if k >= 2 {
                // a planted shape, then random references on top
                match rng.weighted(&[2, 2, 2, 3, 4]) {
                    0 => {}
                    1 => {
                        // 2-cycle of aggregating references
                        let t1 = *rng.pick(&AGG);
                        let t2 = *rng.pick(&AGG);
                        add(out, nodes[0], t1, nodes[1]);
                        add(out, nodes[1], t2, nodes[0]);
                    }
                    2 => {
                        // longer cycle through all nodes
                        for i in 0..k {
                            add(out, nodes[i], *rng.pick(&AGG), nodes[(i + 1) % k]);
                        }
                    }
                    3 => {
                        // chain
                        for i in 0..k - 1 {
                            add(out, nodes[i], *rng.pick(&AGG), nodes[i + 1]);
                        }
                    }
                    _ => {
                        // shared child: everybody aggregates the last node, the first aggregates everybody
                        for i in 1..k - 1 {
                            add(out, nodes[0], *rng.pick(&AGG), nodes[i]);
                            add(out, nodes[i], *rng.pick(&AGG), nodes[k - 1]);
                        }
                    }
                }
                let extra = if rng.chance(1, 3) { 0 } else { rng.range(0, k as i64) };
                for _ in 0..extra {
                    let a = *rng.pick(&nodes);
                    let b = *rng.pick(&nodes);
                    add(out, a, *rng.pick(&types), b);
                }
            }
            // batches through AddressSpace::insert_references / insert(node, Some(refs)): existing
            // entries first / in the middle / last, new entries after existing ones
            if k >= 2 && rng.chance(1, 3) {
                let m = rng.range(1, 4) as usize;
                let pattern = rng.below(5);
                let mut batch: Vec<Triple> = Vec::new();
                for i in 0..m {
                    let want_dup = match pattern {
                        0 => rng.chance(1, 2),
                        1 => i == 0,
                        2 => i > 0 && i + 1 < m,
                        3 => i + 1 == m,
                        _ => false,
                    };
                    if want_dup && !edges.is_empty() {
                        batch.push(*rng.pick(&edges));
                    } else {
                        let a = *rng.pick(&nodes);
                        let bb = *rng.pick(&nodes);
                        if a != bb {
                            batch.push((a, *rng.pick(&types), bb));
                        }
                    }
                }
                let l: Vec<String> = batch.iter().map(|(a, t, bb)| format!("{}>{}>{}", a, t, bb)).collect();
                out.push(format!("refs [{}]", l.join(",")));
                edges.extend(batch.iter().cloned());
            }
            if rng.chance(1, 3) {
                // a node that arrives with references (107 is otherwise hardly used), or a refused
                // duplicate; some of the entries may exist already as references that mention the id
                let x = if rng.chance(1, 5) { nodes[0] } else { 107 };
                let mut pre: Vec<(u32, u32, bool)> = Vec::new();
                if x == 107 && rng.chance(1, 2) {
                    for _ in 0..rng.range(1, 2) {
                        let y = *rng.pick(&nodes);
                        // never a reference from the id to itself (the thorough tier has 107 among its nodes)
                        if y == x {
                            continue;
                        }
                        let e = (y, *rng.pick(&types), rng.chance(1, 2));
                        pre.push(e);
                        let (a, bb) = if e.2 { (e.0, x) } else { (x, e.0) };
                        edges.push((a, e.1, bb));
                        out.push(format!("ref {} {} {}", a, bb, e.1));
                    }
                }
                let m = rng.range(0, 3) as usize;
                let pattern = rng.below(5);
                let mut l: Vec<String> = Vec::new();
                let mut firsts: Vec<(u32, u32, bool)> = Vec::new();
                for i in 0..m {
                    let want_existing = match pattern {
                        0 => rng.chance(1, 2),
                        1 => i == 0,
                        2 => i + 1 == m,
                        3 => true,
                        _ => false,
                    };
                    let y = *rng.pick(&nodes);
                    if y == x {
                        continue;
                    }
                    let e = if want_existing && !pre.is_empty() {
                        *rng.pick(&pre)
                    } else if !firsts.is_empty() && rng.chance(1, 4) {
                        *rng.pick(&firsts)
                    } else {
                        (y, *rng.pick(&types), rng.chance(1, 2))
                    };
                    firsts.push(e);
                    l.push(format!("{}:{}:{}", e.0, e.1, b(e.2)));
                    if x == 107 {
                        edges.push(if e.2 { (e.0, e.1, x) } else { (x, e.1, e.0) });
                    }
                }
                out.push(format!("nodewith {} [{}]", x, l.join(",")));
            }
            if !edges.is_empty() && rng.chance(1, 4) {
                let (a, t, b) = *rng.pick(&edges);
                // sometimes a near miss (the opposite direction)
                if rng.chance(1, 4) {
                    out.push(format!("unref {} {} {}", b, a, t));
                } else {
                    out.push(format!("unref {} {} {}", a, b, t));
                }
            }
            if rng.chance(1, 3) {
                out.push(format!("aggs {}", rng.pick(&nodes)));
            }
            let deletes = rng.range(1, 2);
            for d in 0..deletes {
                // the root of the planted shape, any node, or sometimes a node outside the graph
                let x = if d == 0 && rng.chance(1, 2) {
                    nodes[0]
                } else if rng.chance(1, 12) {
                    107
                } else {
                    *rng.pick(&nodes)
                };
                out.push(format!("delete {} {}", x, b(rng.chance(3, 4))));
                if rng.chance(1, 4) {
                    out.push(format!("exists {}", rng.pick(&nodes)));
                }
                // histories: a deleted node comes back (its old references may still be there when
                // it was deleted without them) and is deleted again
                if rng.chance(1, 5) {
                    out.push(format!("node {}", x));
                    if rng.chance(1, 2) {
                        let y = *rng.pick(&nodes);
                        if y != x {
                            out.push(format!("ref {} {} {}", x, y, rng.pick(&AGG)));
                        }
                    }
                    out.push(format!("delete {} {}", x, b(rng.chance(1, 2))));
                }
            }
        }
    }

    fn runner(&self) -> Box<dyn Runner> {
        Box::new(R { space: fresh_space(), nodes: BTreeSet::new(), triples: BTreeSet::new() })
    }
}

struct R {
    space: AddressSpace,
    /// bookkeeping from the op text alone
    nodes: BTreeSet<u32>,
    triples: BTreeSet<Triple>,
}

fn p(s: &str) -> Option<u32> {
    s.parse().ok()
}

impl R {
    /// the nodes and references reported are exactly those added and not removed
    fn check_views(&self, class: &str, on: &[u32], f: &[Triple], i: &[Triple]) -> Verdict {
        let want_nodes: Vec<u32> = self.nodes.iter().cloned().filter(|x| OBS_NODES.contains(x)).collect();
        if on != want_nodes.as_slice() {
            return Verdict::fail("nodes", class, format!("nodes {:?} want {:?}", on, want_nodes));
        }
        let want: Vec<Triple> = self.triples.iter().cloned().collect();
        if f != want.as_slice() {
            return Verdict::fail("forward", class, format!("references {} want {}", show_triples(f), show_triples(&want)));
        }
        let mut by_target = want.clone();
        by_target.sort_by_key(|(a, t, b)| (*b, *t, *a));
        if i != by_target.as_slice() {
            return Verdict::fail("inverse", class, format!("inverse references {} want {}", show_triples(i), show_triples(&by_target)));
        }
        Verdict::Ok
    }

    /// post-state scan after `delete n dtr`: the property, on the implementation's answers alone
    fn check_delete(&self, n: u32, dtr: bool, gone: &BTreeSet<u32>, class: &str, on: &[u32], f: &[Triple], i: &[Triple]) -> Verdict {
        let exists: BTreeSet<u32> = on.iter().cloned().collect();
        if exists.contains(&n) {
            return Verdict::fail("node_removed", class, format!("node {} still exists", n));
        }
        if let Some(x) = gone.iter().find(|x| exists.contains(x)) {
            return Verdict::fail("closure_removed", class, format!("aggregated node {} still exists", x));
        }
        if dtr {
            for (view, l) in [("find_references", f), ("find_inverse_references", i)] {
                if let Some(t) = l.iter().find(|(a, _, b)| gone.contains(a) || gone.contains(b)) {
                    return Verdict::fail("no_dangling", class, format!("{} still reports {:?} which mentions a removed node", view, t));
                }
            }
        }
        // nothing else may disappear: the surviving nodes and references are exactly the others
        let want_nodes: Vec<u32> = self.nodes.iter().cloned().filter(|x| !gone.contains(x)).collect();
        if on != want_nodes.as_slice() {
            return Verdict::fail("others_kept", class, format!("nodes {:?} want {:?}", on, want_nodes));
        }
        let want: Vec<Triple> = self
            .triples
            .iter()
            .cloned()
            .filter(|(a, _, b)| !dtr || (!gone.contains(a) && !gone.contains(b)))
            .collect();
        if f != want.as_slice() {
            return Verdict::fail("others_kept", class, format!("references {} want {}", show_triples(f), show_triples(&want)));
        }
        let mut by_target = want.clone();
        by_target.sort_by_key(|(a, t, b)| (*b, *t, *a));
        if i != by_target.as_slice() {
            return Verdict::fail("others_kept", class, format!("inverse references {} want {}", show_triples(i), show_triples(&by_target)));
        }
        Verdict::Ok
    }
}

impl Runner for R {
    fn step(&mut self, toks: &[&str]) -> (String, Verdict) {
        match toks {
            ["reset"] => {
                self.space = fresh_space();
                self.nodes.clear();
                self.triples.clear();
                ("ok".to_string(), Verdict::Ok)
            }
            ["node", n] => {
                let Some(n) = p(n) else { return ("bad-op".into(), Verdict::Ok) };
                let name = format!("n{}", n);
                let o = Object::new(&nid(n), name.as_str(), name.as_str(), EventNotifier::empty());
                let ok = self.space.insert(o, None::<&[(&NodeId, &NodeId, opcua::server::address_space::types::ReferenceDirection)]>);
                let v = if ok == self.nodes.contains(&n) { Verdict::fail("insert", "node", "insert result") } else { Verdict::Ok };
                self.nodes.insert(n);
                (format!("ok {}", b(ok)), v)
            }
            ["ref", a, bb, t] => {
                let (Some(a), Some(bb), Some(t)) = (p(a), p(bb), p(t)) else { return ("bad-op".into(), Verdict::Ok) };
                self.space.insert_reference(&nid(a), &nid(bb), nid(t));
                self.triples.insert((a, t, bb));
                ("ok".to_string(), Verdict::Ok)
            }
            ["refs", l] => {
                // AddressSpace::insert_references: a batch of (source, target, type)
                let Some(l) = parse_triples(l) else { return ("bad-op".into(), Verdict::Ok) };
                let ids: Vec<(NodeId, NodeId, NodeId)> = l.iter().map(|(a, t, bb)| (nid(*a), nid(*bb), nid(*t))).collect();
                let refs: Vec<(&NodeId, &NodeId, &NodeId)> = ids.iter().map(|(a, bb, t)| (a, bb, t)).collect();
                self.space.insert_references(&refs);
                for t in l.iter() {
                    self.triples.insert(*t);
                }
                let (o, on, f, i) = obs(&self.space);
                let v = self.check_views("refs", &on, &f, &i);
                (format!("ok {}", o), v)
            }
            ["nodewith", n, l] => {
                // AddressSpace::insert(node, Some(references)): the node with its references in one call
                let (Some(n), Some(l)) = (p(n), parse_entries(l)) else { return ("bad-op".into(), Verdict::Ok) };
                let name = format!("n{}", n);
                let o = Object::new(&nid(n), name.as_str(), name.as_str(), EventNotifier::empty());
                let ids: Vec<(NodeId, NodeId, opcua::server::address_space::types::ReferenceDirection)> = l
                    .iter()
                    .map(|(x, t, inv)| {
                        (nid(*x), nid(*t), if *inv { opcua::server::address_space::types::ReferenceDirection::Inverse } else { opcua::server::address_space::types::ReferenceDirection::Forward })
                    })
                    .collect();
                let refs: Vec<(&NodeId, &NodeId, opcua::server::address_space::types::ReferenceDirection)> = ids.iter().map(|(x, t, d)| (x, t, *d)).collect();
                let existed = self.nodes.contains(&n);
                let ok = self.space.insert(o, Some(&refs[..]));
                if !existed {
                    self.nodes.insert(n);
                    for (x, t, inv) in l.iter() {
                        self.triples.insert(if *inv { (*x, *t, n) } else { (n, *t, *x) });
                    }
                }
                let (ob, on, f, i) = obs(&self.space);
                let v = if ok == existed {
                    Verdict::fail("insert", "nodewith", "insert result")
                } else {
                    self.check_views("nodewith", &on, &f, &i)
                };
                (format!("ok {} {}", b(ok), ob), v)
            }
            ["unref", a, bb, t] => {
                let (Some(a), Some(bb), Some(t)) = (p(a), p(bb), p(t)) else { return ("bad-op".into(), Verdict::Ok) };
                let d = self.space.delete_reference(&nid(a), &nid(bb), nid(t));
                self.triples.remove(&(a, t, bb));
                (format!("ok {}", b(d)), Verdict::Ok)
            }
            ["delete", n, d] => {
                let Some(n) = p(n) else { return ("bad-op".into(), Verdict::Ok) };
                let dtr = *d == "1";
                let sh = shape(&self.triples, n);
                let class = format!("{}-dtr{}", sh, b(dtr));
                let gone = closure(&self.triples, n);
                let r = self.space.delete(&nid(n), dtr);
                let (o, on, f, i) = obs(&self.space);
                let v = self.check_delete(n, dtr, &gone, &class, &on, &f, &i);
                self.nodes.retain(|x| !gone.contains(x));
                if dtr {
                    self.triples.retain(|(a, _, bb)| !gone.contains(a) && !gone.contains(bb));
                }
                (format!("ok {} {}", b(r), o), v)
            }
            ["exists", n] => {
                let Some(n) = p(n) else { return ("bad-op".into(), Verdict::Ok) };
                let e = self.space.node_exists(&nid(n));
                let v = if e != self.nodes.contains(&n) { Verdict::fail("exists", "exists", format!("got {}", e)) } else { Verdict::Ok };
                (format!("ok {}", b(e)), v)
            }
            ["aggs", n] => {
                let Some(n) = p(n) else { return ("bad-op".into(), Verdict::Ok) };
                let mut got: Vec<u32> = self.space.find_aggregates_of(&nid(n)).unwrap_or_default().iter().map(tok).collect();
                got.sort();
                let mut want: Vec<u32> = self.triples.iter().filter(|(a, t, _)| *a == n && AGG.contains(t)).map(|(_, _, bb)| *bb).collect();
                want.sort();
                let v = if got != want { Verdict::fail("aggregates", "aggs", format!("got {:?} want {:?}", got, want)) } else { Verdict::Ok };
                (format!("ok {}", show_nodes(&got)), v)
            }
            ["obs"] => {
                let (o, _, _, _) = obs(&self.space);
                (format!("ok {}", o), Verdict::Ok)
            }
            _ => ("bad-op".to_string(), Verdict::Ok),
        }
    }

    /// `insert_reference` documents and implements a panic for a reference from a node to itself
    /// (model and code agree; the services refuse such requests before they get here, property
    /// C33).  C29 is about deletion: that panic is accepted for exactly that input, as in C28; any
    /// other panic is a failure.
    fn on_panic(&self, toks: &[&str]) -> Verdict {
        match toks {
            ["ref", a, b, _] if a == b => Verdict::Ok,
            _ => Verdict::fail("no_panic", "-", "implementation panicked"),
        }
    }
}
