//! C25 — data change filters report exactly the changes they describe.
//!
//! The real `MonitoredItem` (via `VMonitoredItem`) samples a variable of a per-case address space whose
//! value comes from a getter, so that a sample can carry any status / value / timestamps.
use crate::common::*;
use crate::fixtures;
use chrono::TimeZone;
use opcua::server::address_space::{AddressSpace, AttrFnGetter};
use opcua::server::prelude::*;
use opcua::server::subscriptions::monitored_item::Notification;
use opcua::sync::Mutex;
use opcua::verif_hooks::subs::VMonitoredItem as MonitoredItem;
use std::sync::Arc;

pub struct C25;
pub static P: C25 = C25;

const TS_BASE: i64 = 1_600_000_000;
const STATUS_POOL: [u32; 4] = [0, 0x0030_0000, 0x4090_0000, 0x8034_0000];
const TWO53: i128 = 9_007_199_254_740_992;

// ---------------------------------------------------------------------------------------------
// value tokens
// ---------------------------------------------------------------------------------------------

#[derive(Clone, Debug, PartialEq)]
enum Val {
    Null,
    Int(u8, i128),
    Flt(u32),
    Dbl(u64),
    Str(Vec<u8>),
    Bool(bool),
}

fn parse_val(s: &str) -> Option<Val> {
    if s == "-" {
        return Some(Val::Null);
    }
    let (p, r) = s.split_at(1);
    match p {
        "i" => {
            let (k, v) = r.split_once(':')?;
            Some(Val::Int(k.parse().ok()?, v.parse().ok()?))
        }
        "g" if r.len() == 8 => Some(Val::Flt(u32::from_str_radix(r, 16).ok()?)),
        "f" if r.len() == 16 => Some(Val::Dbl(u64::from_str_radix(r, 16).ok()?)),
        "s" => Some(Val::Str(unhex(r)?)),
        "b" => match r {
            "0" => Some(Val::Bool(false)),
            "1" => Some(Val::Bool(true)),
            _ => None,
        },
        _ => None,
    }
}

fn show_val(v: &Val) -> String {
    match v {
        Val::Null => "-".to_string(),
        Val::Int(k, v) => format!("i{}:{}", k, v),
        Val::Flt(b) => format!("g{:08x}", b),
        Val::Dbl(b) => format!("f{:016x}", b),
        Val::Str(b) => format!("s{}", hex(b)),
        Val::Bool(b) => format!("b{}", if *b { 1 } else { 0 }),
    }
}

fn to_variant(v: &Val) -> Option<Option<Variant>> {
    Some(match v {
        Val::Null => None,
        Val::Int(k, x) => Some(match k {
            2 => Variant::SByte(i8::try_from(*x).ok()?),
            3 => Variant::Byte(u8::try_from(*x).ok()?),
            4 => Variant::Int16(i16::try_from(*x).ok()?),
            5 => Variant::UInt16(u16::try_from(*x).ok()?),
            6 => Variant::Int32(i32::try_from(*x).ok()?),
            7 => Variant::UInt32(u32::try_from(*x).ok()?),
            8 => Variant::Int64(i64::try_from(*x).ok()?),
            9 => Variant::UInt64(u64::try_from(*x).ok()?),
            _ => return None,
        }),
        Val::Flt(b) => Some(Variant::Float(f32::from_bits(*b))),
        Val::Dbl(b) => Some(Variant::Double(f64::from_bits(*b))),
        Val::Str(b) => Some(Variant::String(UAString::from(String::from_utf8(b.clone()).ok()?))),
        Val::Bool(b) => Some(Variant::Boolean(*b)),
    })
}

fn from_variant(v: &Option<Variant>) -> Val {
    match v {
        None => Val::Null,
        Some(Variant::SByte(x)) => Val::Int(2, *x as i128),
        Some(Variant::Byte(x)) => Val::Int(3, *x as i128),
        Some(Variant::Int16(x)) => Val::Int(4, *x as i128),
        Some(Variant::UInt16(x)) => Val::Int(5, *x as i128),
        Some(Variant::Int32(x)) => Val::Int(6, *x as i128),
        Some(Variant::UInt32(x)) => Val::Int(7, *x as i128),
        Some(Variant::Int64(x)) => Val::Int(8, *x as i128),
        Some(Variant::UInt64(x)) => Val::Int(9, *x as i128),
        Some(Variant::Float(x)) => Val::Flt(x.to_bits()),
        Some(Variant::Double(x)) => Val::Dbl(x.to_bits()),
        Some(Variant::String(s)) => Val::Str(s.as_ref().as_bytes().to_vec()),
        Some(Variant::Boolean(b)) => Val::Bool(*b),
        Some(_) => Val::Str(b"?unexpected".to_vec()),
    }
}

#[derive(Clone, Debug, PartialEq)]
struct Sample {
    status: Option<u32>,
    value: Val,
    src: Option<i64>,
    srv: Option<i64>,
}

fn opt<T: std::fmt::Display>(x: &Option<T>) -> String {
    match x {
        None => "-".to_string(),
        Some(x) => x.to_string(),
    }
}

fn show_sample(s: &Sample) -> String {
    format!("{}/{}/{}/{}", opt(&s.status), show_val(&s.value), opt(&s.src), opt(&s.srv))
}

fn ts(n: i64) -> DateTime {
    DateTime::from(chrono::Utc.timestamp_opt(TS_BASE + n, 0).unwrap())
}

fn ts_back(d: &Option<DateTime>) -> Option<i64> {
    d.as_ref().map(|d| d.as_chrono().timestamp() - TS_BASE)
}

fn to_data_value(s: &Sample) -> Option<DataValue> {
    Some(DataValue {
        value: to_variant(&s.value)?,
        status: s.status.map(StatusCode::from_bits_truncate),
        source_timestamp: s.src.map(ts),
        source_picoseconds: None,
        server_timestamp: s.srv.map(ts),
        server_picoseconds: None,
    })
}

fn from_data_value(d: &DataValue) -> Sample {
    Sample {
        status: d.status.map(|s| s.bits()),
        value: from_variant(&d.value),
        src: ts_back(&d.source_timestamp),
        srv: ts_back(&d.server_timestamp),
    }
}

// ---------------------------------------------------------------------------------------------
// filter tokens
// ---------------------------------------------------------------------------------------------

#[derive(Clone, Copy, Debug, PartialEq)]
enum Wire {
    Exact,
    BadType,
    NonObj,
    NoBody,
    Len(usize),
}

#[derive(Clone, Copy, Debug)]
struct Dcf {
    trigger: u32,
    db_type: u32,
    db_val: f64,
    /// how the filter is put on the wire (the decoder's own error arms)
    wire: Wire,
}

fn parse_filter(fk: &str, tr: &str, dt: &str, dv: &str) -> Option<Option<Dcf>> {
    if fk == "none" {
        return Some(None);
    }
    if dv.len() != 17 || !dv.starts_with('f') {
        return None;
    }
    let wire = match fk {
        "dcf" => Wire::Exact,
        "badtype" => Wire::BadType,
        "nonobj" => Wire::NonObj,
        "nobody" => Wire::NoBody,
        _ => Wire::Len(fk.strip_prefix("len")?.parse().ok()?),
    };
    Some(Some(Dcf {
        trigger: tr.parse().ok()?,
        db_type: dt.parse().ok()?,
        db_val: f64::from_bits(u64::from_str_radix(&dv[1..], 16).ok()?),
        wire,
    }))
}

/// the wire form of a DataChangeFilter (so that out-of-range enum values can be expressed)
fn filter_object(f: &Option<Dcf>) -> ExtensionObject {
    match f {
        None => ExtensionObject::null(),
        Some(f) => {
            let mut body = Vec::new();
            body.extend_from_slice(&f.trigger.to_le_bytes());
            body.extend_from_slice(&f.db_type.to_le_bytes());
            body.extend_from_slice(&f.db_val.to_bits().to_le_bytes());
            let dcf_id: NodeId = ObjectId::DataChangeFilter_Encoding_DefaultBinary.into();
            match f.wire {
                Wire::Exact => ExtensionObject { node_id: dcf_id, body: ExtensionObjectEncoding::ByteString(ByteString::from(body)) },
                Wire::BadType => ExtensionObject {
                    node_id: ObjectId::ReadRequest_Encoding_DefaultBinary.into(),
                    body: ExtensionObjectEncoding::ByteString(ByteString::from(body)),
                },
                Wire::NonObj => ExtensionObject {
                    node_id: NodeId::new(2, "not-an-object-id"),
                    body: ExtensionObjectEncoding::ByteString(ByteString::from(body)),
                },
                Wire::NoBody => ExtensionObject { node_id: dcf_id, body: ExtensionObjectEncoding::None },
                Wire::Len(n) => {
                    body.resize(n, 0);
                    ExtensionObject { node_id: dcf_id, body: ExtensionObjectEncoding::ByteString(ByteString::from(body)) }
                }
            }
        }
    }
}

fn ttr_of(n: u32) -> TimestampsToReturn {
    match n {
        0 => TimestampsToReturn::Source,
        1 => TimestampsToReturn::Server,
        2 => TimestampsToReturn::Both,
        3 => TimestampsToReturn::Neither,
        _ => TimestampsToReturn::Invalid,
    }
}

fn node_id() -> NodeId {
    NodeId::new(1, "c25")
}

fn create_request(f: &Option<Dcf>) -> MonitoredItemCreateRequest {
    MonitoredItemCreateRequest {
        item_to_monitor: ReadValueId {
            node_id: node_id(),
            attribute_id: AttributeId::Value as u32,
            index_range: UAString::null(),
            data_encoding: QualifiedName::null(),
        },
        monitoring_mode: MonitoringMode::Reporting,
        requested_parameters: MonitoringParameters {
            client_handle: 7,
            sampling_interval: 0.0,
            filter: filter_object(f),
            queue_size: 4,
            discard_oldest: true,
        },
    }
}

// ---------------------------------------------------------------------------------------------
// the oracle's own notion of "differs" (written from the property text)
// ---------------------------------------------------------------------------------------------

fn is_int(v: &Val) -> bool {
    matches!(v, Val::Int(..))
}

fn as_num(v: &Val) -> Option<f64> {
    match v {
        Val::Int(_, x) => Some(*x as f64),
        Val::Flt(b) => Some(f32::from_bits(*b) as f64),
        Val::Dbl(b) => Some(f64::from_bits(*b)),
        _ => None,
    }
}

/// plain value equality: same kind and same value (numeric equality for floats)
fn val_eq(a: &Val, b: &Val) -> bool {
    match (a, b) {
        (Val::Flt(x), Val::Flt(y)) => f32::from_bits(*x) == f32::from_bits(*y),
        (Val::Dbl(x), Val::Dbl(y)) => f64::from_bits(*x) == f64::from_bits(*y),
        _ => a == b,
    }
}

/// "the numeric value moved by more than the deadband" = it is not within the deadband
fn moved_more_than(a: &Val, b: &Val, d: f64) -> bool {
    if let (Val::Int(_, x), Val::Int(_, y)) = (a, b) {
        // exact on integers: |x - y| > d  ⇔  |x - y| > floor(d)   (d ≥ 0)
        let diff = (x - y).abs();
        if d.is_nan() {
            return true;
        }
        if d < 0.0 {
            return true;
        }
        if d >= 3.0e38 {
            return false; // larger than any 64-bit difference
        }
        return diff > d.floor() as i128;
    }
    let (x, y) = (as_num(a).unwrap(), as_num(b).unwrap());
    !((x - y).abs() <= d)
}

/// (value changed?, input class)
fn value_changed(f: &Dcf, v: &Val, last: &Val) -> (bool, &'static str) {
    if f.db_type == 0 {
        return (!val_eq(v, last), "value-plain");
    }
    match (as_num(v), as_num(last)) {
        (Some(_), Some(_)) => {
            let large = |x: &Val| matches!(x, Val::Int(_, n) if n.abs() > TWO53);
            let class = if is_int(v) && is_int(last) && (large(v) || large(last)) {
                "abs-int-large"
            } else {
                "abs-numeric"
            };
            (moved_more_than(v, last, f.db_val), class)
        }
        _ => (!val_eq(v, last), "abs-nonnumeric"),
    }
}

fn should_report(filter: &Option<Dcf>, s: &Sample, last: &Option<Sample>) -> (bool, &'static str) {
    let last = match last {
        None => return (true, "first"),
        Some(l) => l,
    };
    match filter {
        None => (!val_eq(&s.value, &last.value), "nofilter"),
        Some(f) => {
            if s.status != last.status {
                return (true, "status");
            }
            if f.trigger == 0 {
                return (false, "status");
            }
            let (ch, class) = value_changed(f, &s.value, &last.value);
            if ch || f.trigger == 1 {
                return (ch, class);
            }
            if s.src != last.src {
                return (true, "ts-source");
            }
            if s.srv != last.srv {
                return (true, "ts-server");
            }
            (false, class)
        }
    }
}

fn strip(ttr: u32, s: &Sample) -> Sample {
    let mut r = s.clone();
    match ttr {
        0 => r.srv = None,
        1 => r.src = None,
        2 => {}
        _ => {
            r.src = None;
            r.srv = None
        }
    }
    r
}

fn filter_class(f: &Option<Dcf>) -> String {
    match f {
        None => "nofilter".to_string(),
        Some(f) => {
            let t = match f.db_type {
                0 => "none".to_string(),
                1 => "absolute".to_string(),
                2 => "percent".to_string(),
                _ => "unknown-type".to_string(),
            };
            let v = if f.db_type == 0 {
                ""
            } else if f.db_val.is_nan() {
                "-nan"
            } else if f.db_val < 0.0 {
                "-negative"
            } else {
                ""
            };
            format!("{}{}", t, v)
        }
    }
}

// ---------------------------------------------------------------------------------------------

struct Env {
    address_space: AddressSpace,
    cell: Arc<Mutex<DataValue>>,
}

fn new_env() -> Env {
    let mut address_space = AddressSpace::default();
    let cell = Arc::new(Mutex::new(DataValue::null()));
    let mut v = Variable::new(&node_id(), "c25", "c25", 0i32);
    let c2 = cell.clone();
    v.set_value_getter(AttrFnGetter::new_boxed(move |_, _, _, _, _, _| Ok(Some(c2.lock().clone()))));
    address_space.insert(v, None::<&[(&NodeId, &ReferenceTypeId, ReferenceDirection)]>);
    Env { address_space, cell }
}

struct R {
    env: Env,
    item: Option<MonitoredItem>,
    filter: Option<Dcf>,
    ttr: u32,
    /// last sample the implementation actually reported (seen in its notifications)
    ref_last: Option<Sample>,
}

impl R {
    fn build(&self, ttr: u32, f: &Option<Dcf>) -> Result<MonitoredItem, StatusCode> {
        let fx = fixtures::server();
        let ss = fx.server_state.read();
        let now = chrono::Utc.timestamp_opt(TS_BASE, 0).unwrap();
        let item = MonitoredItem::new(&now, 1, ttr_of(ttr), &ss, &create_request(f))?;
        item.validate_filter(&self.env.address_space)?;
        Ok(item)
    }

    /// feeds one sample to an item, returns the drained notifications
    fn feed(env: &Env, item: &mut MonitoredItem, s: &Sample, n: i64) -> Option<(bool, Vec<Sample>)> {
        *env.cell.lock() = to_data_value(s)?;
        let now = chrono::Utc.timestamp_opt(TS_BASE + n, 0).unwrap();
        let rep = item.check_value(&env.address_space, &now, false);
        let ns = item
            .all_notifications()
            .unwrap_or_default()
            .iter()
            .map(|n| match n {
                Notification::MonitoredItemNotification(m) => from_data_value(&m.value),
                _ => Sample { status: None, value: Val::Str(b"?event".to_vec()), src: None, srv: None },
            })
            .collect();
        Some((rep, ns))
    }

    /// "A filter the server accepts is never one that can never report": the accepted filter is
    /// given, on a scratch item of the real code, numeric value changes as large as they come with
    /// everything else equal (and a status change for the Status trigger); one must be reported.
    fn can_report(&self, ttr: u32, f: &Option<Dcf>) -> bool {
        let mut item = match self.build(ttr, f) {
            Ok(i) => i,
            Err(_) => return true,
        };
        let env = new_env();
        let d = |x: f64| Val::Dbl(x.to_bits());
        let battery: Vec<(Option<u32>, Val)> = vec![
            (Some(0), d(0.0)),
            (Some(0), d(1.0e6)),
            (Some(0), d(-f64::MAX)),
            (Some(0), d(f64::MAX)),
            (Some(0), Val::Int(6, 0)),
            (Some(0), Val::Int(6, 1_000_000)),
            (Some(0x8034_0000), Val::Int(6, 1_000_000)),
        ];
        // only changes the filter itself describes as changes count (an infinite deadband describes none)
        let mut last_rep: Option<Sample> = None;
        let (mut expected, mut reported) = (0, 0);
        for (i, (st, v)) in battery.iter().enumerate() {
            let s = Sample { status: *st, value: v.clone(), src: Some(0), srv: Some(0) };
            // the first sample is always reported; kind changes (Double → Int32) do not count
            let counts = i == 1 || i == 3 || i == 5 || i == 6;
            let want = should_report(f, &s, &last_rep).0;
            if let Some((rep, _)) = Self::feed(&env, &mut item, &s, i as i64) {
                if counts && want {
                    expected += 1;
                    if rep {
                        reported += 1;
                    }
                }
                if rep {
                    last_rep = Some(s);
                }
            }
        }
        if expected == 0 {
            return true;
        }
        reported > 0
    }
}

impl Runner for R {
    fn step(&mut self, toks: &[&str]) -> (String, Verdict) {
        match toks {
            ["reset", ttr, fk, tr, dt, dv] => {
                let (ttr, f) = match (ttr.parse::<u32>().ok(), parse_filter(fk, tr, dt, dv)) {
                    (Some(t), Some(f)) => (t, f),
                    _ => return ("bad-op".to_string(), Verdict::Ok),
                };
                self.ref_last = None;
                match self.build(ttr, &f) {
                    Ok(item) => {
                        self.item = Some(item);
                        self.filter = f;
                        self.ttr = ttr;
                        let v = if self.can_report(ttr, &f) {
                            Verdict::Ok
                        } else {
                            Verdict::fail("accepted_can_report", &filter_class(&f), "accepted filter reports no numeric change")
                        };
                        ("ok".to_string(), v)
                    }
                    Err(e) => {
                        self.item = None;
                        (format!("err {}", e.name()), Verdict::Ok)
                    }
                }
            }
            ["modify", ttr, fk, tr, dt, dv] => {
                let (ttr, f) = match (ttr.parse::<u32>().ok(), parse_filter(fk, tr, dt, dv)) {
                    (Some(t), Some(f)) => (t, f),
                    _ => return ("bad-op".to_string(), Verdict::Ok),
                };
                let fx = fixtures::server();
                let ss = fx.server_state.read();
                let item = match self.item.as_mut() {
                    Some(i) => i,
                    None => return ("err no-item".to_string(), Verdict::Ok),
                };
                let req = MonitoredItemModifyRequest {
                    monitored_item_id: 1,
                    requested_parameters: MonitoringParameters {
                        client_handle: 7,
                        sampling_interval: 0.0,
                        filter: filter_object(&f),
                        queue_size: 4,
                        discard_oldest: true,
                    },
                };
                match item.modify(&ss, &self.env.address_space, ttr_of(ttr), &req) {
                    Ok(_) => {
                        drop(ss);
                        self.filter = f;
                        self.ttr = ttr;
                        let v = if self.can_report(ttr, &f) {
                            Verdict::Ok
                        } else {
                            Verdict::fail("accepted_can_report", &filter_class(&f), "accepted filter reports no numeric change")
                        };
                        ("ok".to_string(), v)
                    }
                    Err(e) => {
                        // the request was refused: the item keeps filtering as before; only the
                        // timestamps selection is observable through the next notification
                        self.ttr = ttr;
                        (format!("err {}", e.name()), Verdict::Ok)
                    }
                }
            }
            ["sample", st, v, src, srv] => {
                let parse_opt_i = |s: &str| -> Option<Option<i64>> {
                    if s == "-" {
                        Some(None)
                    } else {
                        s.parse().ok().map(Some)
                    }
                };
                let s = match (
                    if *st == "-" { Some(None) } else { st.parse::<u32>().ok().map(Some) },
                    parse_val(v),
                    parse_opt_i(src),
                    parse_opt_i(srv),
                ) {
                    (Some(status), Some(value), Some(src), Some(srv)) => Sample { status, value, src, srv },
                    _ => return ("bad-op".to_string(), Verdict::Ok),
                };
                if to_data_value(&s).is_none() {
                    return ("bad-op".to_string(), Verdict::Ok);
                }
                let item = match self.item.as_mut() {
                    Some(i) => i,
                    None => return ("err no-item".to_string(), Verdict::Ok),
                };
                let (rep, ns) = Self::feed(&self.env, item, &s, 1).unwrap();
                let last = item.last_data_value().map(from_data_value);
                let n_txt = match ns.as_slice() {
                    [] => "none".to_string(),
                    [n] => show_sample(n),
                    more => format!("many:{}", more.len()),
                };
                let out = format!(
                    "ok rep={} n={} last={}",
                    b(rep),
                    n_txt,
                    last.as_ref().map(show_sample).unwrap_or_else(|| "none".to_string())
                );
                // ---- oracle ----
                let (want, class) = should_report(&self.filter, &s, &self.ref_last);
                let reported = !ns.is_empty();
                let verdict = if reported != want {
                    Verdict::fail(
                        "report_iff",
                        class,
                        format!(
                            "sample {} last-reported {} reported={} expected={}",
                            show_sample(&s),
                            self.ref_last.as_ref().map(show_sample).unwrap_or_else(|| "none".into()),
                            reported,
                            want
                        ),
                    )
                } else if rep != reported {
                    Verdict::fail("report_flag", class, format!("check_value={} notifications={}", rep, ns.len()))
                } else if reported && (ns.len() != 1 || ns[0] != strip(self.ttr, &s)) {
                    Verdict::fail("notification_value", class, format!("got {} want {}", n_txt, show_sample(&strip(self.ttr, &s))))
                } else {
                    if reported {
                        self.ref_last = Some(s.clone());
                    }
                    if last != self.ref_last {
                        Verdict::fail("baseline", class, format!("item compares against {:?}, last reported {:?}", last, self.ref_last))
                    } else {
                        Verdict::Ok
                    }
                };
                if reported && !matches!(verdict, Verdict::Ok) {
                    self.ref_last = Some(s);
                }
                (out, verdict)
            }
            _ => ("bad-op".to_string(), Verdict::Ok),
        }
    }
}

// ---------------------------------------------------------------------------------------------
// generator
// ---------------------------------------------------------------------------------------------

fn f64tok(x: f64) -> String {
    format!("f{:016x}", x.to_bits())
}

fn gen_deadband(rng: &mut Rng) -> f64 {
    match rng.weighted(&[4, 8, 2, 2, 1, 1, 1, 1, 2]) {
        0 => 0.0,
        1 => *rng.pick(&[0.5, 1.0, 2.0, 2.5, 10.0, 100.0]),
        2 => -*rng.pick(&[0.0, 1.0, 1.0e-300, 5.0]),
        3 => f64::NAN,
        4 => f64::INFINITY,
        5 => f64::NEG_INFINITY,
        6 => *rng.pick(&[f64::MAX, f64::MIN_POSITIVE, 5e-324, 9007199254740992.0, 1.8446744073709552e19]),
        7 => f64::from_bits(rng.next()),
        _ => rng.range(0, 1000) as f64 / 8.0,
    }
}

fn gen_filter(rng: &mut Rng) -> String {
    if rng.chance(1, 7) {
        return "none 0 0 f0000000000000000".to_string();
    }
    let trigger = match rng.weighted(&[3, 8, 5, 1]) {
        0 => 0,
        1 => 1,
        2 => 2,
        _ => *rng.pick(&[3u32, 7, u32::MAX]),
    };
    let db_type = match rng.weighted(&[4, 10, 2, 1]) {
        0 => 0,
        1 => 1,
        2 => 2,
        _ => *rng.pick(&[3u32, 4, 255, u32::MAX]),
    };
    let kind = match rng.weighted(&[30, 1, 1, 1, 4]) {
        0 => "dcf".to_string(),
        1 => "badtype".to_string(),
        2 => "nonobj".to_string(),
        3 => "nobody".to_string(),
        _ => format!("len{}", rng.pick(&[0usize, 3, 4, 8, 15, 16, 17, 40])),
    };
    format!("{} {} {} {}", kind, trigger, db_type, f64tok(gen_deadband(rng)))
}

/// a small pool of values of one family, spaced around the deadband so that steps fall on both
/// sides of it and exactly on it
fn gen_pool(rng: &mut Rng, d: f64, tier: Tier) -> Vec<String> {
    let d = if d.is_finite() && d > 0.0 && d < 1.0e6 { d } else { 1.0 };
    let mut pool = Vec::new();
    let fam = rng.weighted(&[6, 6, 3, 3, 2, 2, 3, 1, 1]);
    match fam {
        0 => {
            // doubles around a base
            let base = *rng.pick(&[0.0, 100.0, -7.5, 1.0e15, 0.1]);
            for k in [0.0, 0.5, 1.0, 1.5, 2.0, -1.0] {
                pool.push(f64tok(base + k * d));
            }
            pool.push(f64tok(f64::from_bits((base + d).to_bits() + 1)));
            if rng.chance(1, 3) {
                pool.push(f64tok(f64::NAN));
                pool.push(f64tok(f64::INFINITY));
                pool.push(f64tok(f64::NEG_INFINITY));
                pool.push(f64tok(-0.0));
                pool.push(f64tok(f64::MAX));
                pool.push(f64tok(-f64::MAX));
                pool.push(f64tok(5e-324));
            }
        }
        1 => {
            // 32-bit (and smaller) integers
            let kind = *rng.pick(&[2u8, 3, 4, 5, 6, 7]);
            let (lo, hi): (i128, i128) = match kind {
                2 => (-128, 127),
                3 => (0, 255),
                4 => (-32768, 32767),
                5 => (0, 65535),
                6 => (i32::MIN as i128, i32::MAX as i128),
                _ => (0, u32::MAX as i128),
            };
            let base = *rng.pick(&[lo, hi, 0, 10, (lo + hi) / 2]);
            let step = (d.ceil() as i128).max(1);
            for k in [0, 1, -1, step, step + 1, -step, 2 * step] {
                let v = (base + k).clamp(lo, hi);
                pool.push(format!("i{}:{}", kind, v));
            }
            pool.push(format!("i{}:{}", kind, lo));
            pool.push(format!("i{}:{}", kind, hi));
        }
        2 => {
            // 64-bit integers, including beyond 2^53
            let kind = *rng.pick(&[8u8, 9]);
            let (lo, hi): (i128, i128) = if kind == 8 { (i64::MIN as i128, i64::MAX as i128) } else { (0, u64::MAX as i128) };
            let base = *rng.pick(&[0, TWO53, TWO53 - 2, hi, lo, 1i128 << 60, 1000]);
            let step = (d.ceil() as i128).max(1);
            for k in [0, 1, -1, 2, step, step + 1, -step] {
                let v = (base + k).clamp(lo, hi);
                pool.push(format!("i{}:{}", kind, v));
            }
        }
        3 => {
            // floats
            let base = *rng.pick(&[0.0f32, 100.0, -7.5, 16777216.0]);
            for k in [0.0f32, 0.5, 1.0, 1.5, 2.0, -1.0] {
                pool.push(format!("g{:08x}", (base + k * d as f32).to_bits()));
            }
            pool.push(format!("g{:08x}", f32::NAN.to_bits()));
            pool.push(format!("g{:08x}", f32::INFINITY.to_bits()));
        }
        4 => {
            for s in ["", "a", "b", "ab", "é"] {
                pool.push(format!("s{}", hex(s.as_bytes())));
            }
        }
        5 => {
            pool.push("b0".to_string());
            pool.push("b1".to_string());
            pool.push("-".to_string());
        }
        7 => {
            // the extremes only: the difference overflows to infinity, differences of infinities are NaN
            for x in [f64::MAX, -f64::MAX, 0.0, f64::INFINITY, f64::NEG_INFINITY] {
                pool.push(f64tok(x));
            }
        }
        8 => {
            // signed zeros and the smallest subnormals: equal as numbers, different bit patterns
            for x in [0.0f64, -0.0, 5e-324, -5e-324] {
                pool.push(f64tok(x));
            }
            pool.push(format!("g{:08x}", 0.0f32.to_bits()));
            pool.push(format!("g{:08x}", (-0.0f32).to_bits()));
        }
        _ => {
            // mixed kinds
            pool.push(f64tok(1.0));
            pool.push(f64tok(1.0 + d));
            pool.push("i6:1".to_string());
            pool.push(format!("i6:{}", 1 + d.ceil() as i64 + 1));
            pool.push("i8:1".to_string());
            pool.push("g3f800000".to_string());
            pool.push("s61".to_string());
            pool.push("b1".to_string());
            pool.push("-".to_string());
        }
    }
    if tier == Tier::Thorough && rng.chance(1, 4) {
        pool.push(f64tok(f64::from_bits(rng.next())));
        pool.push(format!("i8:{}", rng.next() as i64));
    }
    if rng.chance(1, 5) {
        pool.push("-".to_string());
    }
    pool
}

impl Prop for C25 {
    fn id(&self) -> &'static str {
        "C25"
    }

    fn gen(&self, rng: &mut Rng, n: usize, tier: Tier, out: &mut Vec<String>) {
        for _ in 0..n {
            let ttr = match rng.weighted(&[2, 2, 4, 4, 1]) {
                x => x as u32,
            };
            let filter = gen_filter(rng);
            let d = filter
                .rsplit(' ')
                .next()
                .and_then(|t| u64::from_str_radix(&t[1..], 16).ok())
                .map(f64::from_bits)
                .unwrap_or(0.0);
            out.push(format!("reset {} {}", ttr, filter));
            let pool = gen_pool(rng, d, tier);
            let len = rng.range(2, if tier == Tier::Thorough { 40 } else { 16 });
            let mut status: Option<u32> = if rng.chance(1, 5) { None } else { Some(0) };
            let (mut src, mut srv): (Option<i64>, Option<i64>) = (Some(0), Some(0));
            let mut cur = rng.pick(&pool).clone();
            for _ in 0..len {
                if rng.chance(1, 12) {
                    out.push(format!("modify {} {}", rng.below(5), gen_filter(rng)));
                    continue;
                }
                // value: stay, or move within the pool
                if rng.chance(3, 5) {
                    cur = rng.pick(&pool).clone();
                }
                if rng.chance(1, 6) {
                    status = match rng.below(5) {
                        0 => None,
                        k => Some(STATUS_POOL[(k - 1) as usize]),
                    };
                }
                match rng.below(8) {
                    0 => src = src.map(|x| x + 1).or(Some(0)),
                    1 => srv = srv.map(|x| x + 1).or(Some(0)),
                    2 => {
                        src = src.map(|x| x + 1).or(Some(0));
                        srv = srv.map(|x| x + 1).or(Some(0))
                    }
                    3 => {
                        if rng.chance(1, 4) {
                            src = None
                        }
                        if rng.chance(1, 4) {
                            srv = None
                        }
                    }
                    _ => {}
                }
                out.push(format!("sample {} {} {} {}", opt(&status), cur, opt(&src), opt(&srv)));
            }
        }
    }

    fn runner(&self) -> Box<dyn Runner> {
        Box::new(R { env: new_env(), item: None, filter: None, ttr: 3, ref_last: None })
    }
}
