//! Shared fixtures built once per harness process.
use opcua::server::address_space::AddressSpace;
use opcua::server::prelude::*;
use opcua::server::state::ServerState;
use opcua::sync::RwLock;
use std::sync::{Arc, OnceLock};

pub struct ServerFixture {
    pub server: Server,
    pub server_state: Arc<RwLock<ServerState>>,
    pub address_space: Arc<RwLock<AddressSpace>>,
}

// Server contains non-Sync callbacks only behind locks; the harness is single threaded per case.
unsafe impl Sync for ServerFixture {}
unsafe impl Send for ServerFixture {}

/// Scratch directory for anything the real code wants to write (PKI dirs, config files).
pub fn scratch_dir() -> std::path::PathBuf {
    let base = std::env::var("VERIF_SCRATCH").unwrap_or_else(|_| {
        format!("{}/target/scratch", env!("CARGO_MANIFEST_DIR"))
    });
    let p = std::path::PathBuf::from(base).join(format!("p{}", std::process::id()));
    let _ = std::fs::create_dir_all(&p);
    p
}

/// A sample server (never run) whose clients may modify the address space.
pub fn server() -> &'static ServerFixture {
    static S: OnceLock<ServerFixture> = OnceLock::new();
    S.get_or_init(|| {
        let pki = scratch_dir().join("pki");
        let server = ServerBuilder::new_sample()
            .pki_dir(pki)
            .clients_can_modify_address_space()
            .server()
            .expect("sample server");
        let server_state = server.server_state();
        let address_space = server.address_space();
        ServerFixture {
            server,
            server_state,
            address_space,
        }
    })
}
